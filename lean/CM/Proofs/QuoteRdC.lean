import CM.Proofs.QuoteRdB
/-
C09, `onCloseParagraph` with `[` (3): the scanners `skipLinkSpace`, `skipSpacesAndTabs`, `readEOL`, `parseLinkLabel` on both
sides in lockstep.  The fuels may differ; both are sufficient (`RDS.mu`).
-/
namespace CM.Proofs.Quote
open CM CM.Model CM.Gen

variable {E : Env} {is is' : List Tree}

theorem safe_of_live {r r' : Rd} (h : r.spans ≠ []) : Safe E r r' := fun hd => absurd hd h

/-- **`skipLinkSpace`** -/
theorem skipLinkSpace_sim (hc : PC E is is') : ∀ (f f' : Nat) (r r' : Rd), RR E is is' r r' → Safe E r r' →
    RDS.mu E.src r < f → RDS.mu E.src' r' < f' →
    ∃ b r2 r2', skipLinkSpace E.src f r = (b, r2) ∧ skipLinkSpace E.src' f' r' = (b, r2') ∧ RR E is is' r2 r2' ∧
      (b = true → r2.spans ≠ []) := by
  intro f
  induction f with
  | zero => intro f' r r' _ _ h; omega
  | succ f ih =>
    intro f' r r' hr hs hm hm'
    obtain ⟨f', rfl⟩ : ∃ g, f' = g + 1 := ⟨f' - 1, by omega⟩
    obtain ⟨c, e1, e2, hc0, _⟩ := current_sim hc hr hs
    obtain ⟨b, r2, r2', n1, n2, hr2, hb, hmu, _, _, _⟩ := next_sim hc hr
    simp only [skipLinkSpace, e1, e2, n1, n2]
    by_cases h0 : (c == 0) = true
    · simp only [h0, if_true]
      exact ⟨false, r, r', rfl, rfl, hr, fun h => by cases h⟩
    · simp only [h0, Bool.false_eq_true, if_false]
      by_cases hw : isSpaceTabOrLineEnding c = true
      · simp only [hw, if_true]
        cases b with
        | false =>
          simp only [Bool.not_false, if_true]
          exact ⟨false, r2, r2', rfl, rfl, hr2, fun h => by cases h⟩
        | true =>
          simp only [Bool.not_true, Bool.false_eq_true, if_false]
          obtain ⟨m1, m2⟩ := hmu rfl
          exact ih f' r2 r2' hr2 (safe_of_live (hb.mp rfl)) (by omega) (by omega)
      · simp only [hw, Bool.false_eq_true, if_false]
        refine ⟨true, r, r', rfl, rfl, hr, fun _ hd => ?_⟩
        have := hc0.mpr hd
        rw [this] at h0
        exact h0 rfl

/-- The positions of related readers correspond. -/
theorem RR.posP (hc : PC E is is') {r r' : Rd} (h : RR E is is' r r') : PosP is is' (r.pos : Int) (r'.pos : Int) := by
  rcases h.cases hc with ⟨d1, _⟩ | ⟨k, o, t, t', hl⟩
  · obtain ⟨t, t', g1, g2, p1, p2⟩ := h.dead d1
    rw [List.getLast?_eq_getElem?] at g1 g2
    rw [← hc.rel.length_eq] at g2
    obtain ⟨t2, e, nr⟩ := hc.rel.getElem? g1
    rw [g2] at e; cases e
    have := (hc.c.ok t (List.mem_of_getElem? g1)).1
    have hl := nr.len
    refine ⟨is.length - 1, tlen t, t, t', g1, g2, ?_, ?_, ?_⟩
    · unfold tlen; omega
    · unfold tlen; omega
    · unfold tlen; omega
  · exact hl.liveP.posP

theorem RR.liveP (hc : PC E is is') {r r' : Rd} (h : RR E is is' r r') (hl : r.spans ≠ []) :
    LiveP is is' (r.pos : Int) (r'.pos : Int) := by
  rcases h.cases hc with ⟨d1, _⟩ | ⟨k, o, t, t', hl⟩
  · exact absurd d1 hl
  · exact hl.liveP

/-- **`skipSpacesAndTabs`** -/
theorem skipSpacesAndTabs_sim (hc : PC E is is') : ∀ (f f' : Nat) (r r' : Rd), RR E is is' r r' → Safe E r r' →
    RDS.mu E.src r < f → RDS.mu E.src' r' < f' →
    ∃ b r2 r2', skipSpacesAndTabs E.src f r = (b, r2) ∧ skipSpacesAndTabs E.src' f' r' = (b, r2') ∧
      RR E is is' r2 r2' ∧ Safe E r2 r2' ∧ (b = true ↔ r2.spans ≠ []) ∧ (r.spans = [] → b = false) := by
  intro f
  induction f with
  | zero => intro f' r r' _ _ h; omega
  | succ f ih =>
    intro f' r r' hr hs hm hm'
    obtain ⟨f', rfl⟩ : ∃ g, f' = g + 1 := ⟨f' - 1, by omega⟩
    obtain ⟨c, e1, e2, hc0, hcv⟩ := current_sim hc hr hs
    obtain ⟨b, r2, r2', n1, n2, hr2, hb, hmu, _, hsafe, hdead⟩ := next_sim hc hr
    simp only [skipSpacesAndTabs, e1, e2, n1, n2]
    by_cases hw : (c == SP || c == TAB) = true
    · simp only [hw, if_true]
      have hlive : r.spans ≠ [] := by
        intro hd
        rw [hc0.mpr hd] at hw
        revert hw; decide
      have hs2 : Safe E r2 r2' := by
        apply hsafe hs
        intro hl
        rw [← hcv hl]
        intro hlf
        rw [hlf] at hw
        revert hw; decide
      cases b with
      | false =>
        simp only [Bool.not_false, if_true]
        refine ⟨false, r2, r2', rfl, rfl, hr2, hs2, ?_, fun hd => absurd hd hlive⟩
        constructor
        · intro h; cases h
        · intro h; exact absurd (hb.mpr h) (by decide)
      | true =>
        simp only [Bool.not_true, Bool.false_eq_true, if_false]
        obtain ⟨m1, m2⟩ := hmu rfl
        obtain ⟨b3, r3, r3', a1, a2, a3, a4, a5, _⟩ := ih f' r2 r2' hr2 (safe_of_live (hb.mp rfl)) (by omega) (by omega)
        exact ⟨b3, r3, r3', a1, a2, a3, a4, a5, fun hd => absurd hd hlive⟩
    · simp only [hw, Bool.false_eq_true, if_false]
      refine ⟨c != 0, r, r', rfl, rfl, hr, hs, ?_, ?_⟩
      · constructor
        · intro h hd
          rw [hc0.mpr hd] at h
          revert h; decide
        · intro h
          have : c ≠ 0 := fun h0 => h (hc0.mp h0)
          simpa using this
      · intro hd
        rw [hc0.mpr hd]; rfl

/-- **`readEOL`**: no line ending on both sides (and both readers alive), or corresponding positions. -/
theorem readEOL_sim (hc : PC E is is') (f f' : Nat) (r r' : Rd) (hr : RR E is is' r r') (hs : Safe E r r')
    (hm : RDS.mu E.src r < f) (hm' : RDS.mu E.src' r' < f') :
    ∃ e e' r2 r2', readEOL E.src f r = (e, r2) ∧ readEOL E.src' f' r' = (e', r2') ∧ RR E is is' r2 r2' ∧
      ((e = -1 ∧ e' = -1 ∧ r2.spans ≠ [] ∧ r.spans ≠ []) ∨ PosP is is' e e') := by
  obtain ⟨b, r1, r1', a1, a2, hr1, hs1, hb1, hd1⟩ := skipSpacesAndTabs_sim hc f f' r r' hr hs hm hm'
  obtain ⟨c, e1, e2, hc0, hcv⟩ := current_sim hc hr1 hs1
  obtain ⟨b2, r2, r2', n1, n2, hr2, hb2, _, hp2, hsafe2, _⟩ := next_sim hc hr1
  simp only [readEOL, a1, a2]
  cases b with
  | false =>
    simp only [Bool.not_false, if_true]
    exact ⟨_, _, r1, r1', rfl, rfl, hr1, Or.inr (hr1.posP hc)⟩
  | true =>
    have hl1 : r1.spans ≠ [] := hb1.mp rfl
    have hrl : r.spans ≠ [] := fun hd => by have := hd1 hd; cases this
    obtain ⟨q1, q2, q3⟩ := hp2 hl1
    simp only [Bool.not_true, Bool.false_eq_true, if_false, e1, e2, n1, n2]
    by_cases hcr : (c == CR) = true
    · simp only [hcr, if_true]
      cases b2 with
      | false =>
        simp only [Bool.not_false, if_true]
        exact ⟨_, _, r2, r2', rfl, rfl, hr2, Or.inr q3.succ⟩
      | true =>
        simp only [Bool.not_true, Bool.false_eq_true, if_false]
        have hl2 : r2.spans ≠ [] := hb2.mp rfl
        obtain ⟨c2, g1, g2, _, _⟩ := current_sim hc hr2 (safe_of_live hl2)
        obtain ⟨b3, r3, r3', m1, m2, hr3, _, _, hp3, _, _⟩ := next_sim hc hr2
        obtain ⟨w1, w2, w3⟩ := hp3 hl2
        simp only [g1, g2, m1, m2]
        by_cases hlf : (c2 == LF) = true
        · simp only [hlf, if_true]
          exact ⟨_, _, r3, r3', rfl, rfl, hr3, Or.inr w3.succ⟩
        · simp only [hlf, Bool.false_eq_true, if_false]
          exact ⟨_, _, r2, r2', rfl, rfl, hr2, Or.inr q3.succ⟩
    · simp only [hcr, Bool.false_eq_true, if_false]
      by_cases hlf : (c == LF) = true
      · simp only [hlf, if_true]
        exact ⟨_, _, r2, r2', rfl, rfl, hr2, Or.inr q3.succ⟩
      · simp only [hlf, Bool.false_eq_true, if_false]
        exact ⟨_, _, r1, r1', rfl, rfl, hr1, Or.inl ⟨rfl, rfl, hl1, hrl⟩⟩

/-! ### `parseLinkLabel` -/

theorem next_le (hc : PC E is is') {r r' : Rd} (hr : RR E is is' r r') {b b' : Bool} {r2 r2' : Rd}
    (n1 : r.next E.src = (b, r2)) (n2 : r'.next E.src' = (b', r2')) : r.pos ≤ r2.pos ∧ r'.pos ≤ r2'.pos :=
  ⟨RDS.next_mono hc.c hr.ri n1, RDS.next_mono hc.c' hr.ri' n2⟩

theorem labelSkip_sim (hc : PC E is is') : ∀ (f f' : Nat) (r r' : Rd) (chars : Nat), RR E is is' r r' →
    RDS.mu E.src r < f → RDS.mu E.src' r' < f' →
    (labelSkip E.src f r chars = none ∧ labelSkip E.src' f' r' chars = none) ∨
    ∃ r2 r2' n, labelSkip E.src f r chars = some (r2, n) ∧ labelSkip E.src' f' r' chars = some (r2', n) ∧
      RR E is is' r2 r2' ∧ r2.spans ≠ [] ∧ r.pos ≤ r2.pos ∧ r'.pos ≤ r2'.pos := by
  intro f
  induction f with
  | zero => intro f' r r' _ _ h; omega
  | succ f ih =>
    intro f' r r' chars hr hm hm'
    obtain ⟨f', rfl⟩ : ∃ g, f' = g + 1 := ⟨f' - 1, by omega⟩
    obtain ⟨b, r2, r2', n1, n2, hr2, hb, hmu, _, _, _⟩ := next_sim hc hr
    obtain ⟨le1, le2⟩ := next_le hc hr n1 n2
    simp only [labelSkip, n1, n2]
    cases b with
    | false => simp only [Bool.not_false, if_true]; exact Or.inl ⟨trivial, trivial⟩
    | true =>
      have hl2 : r2.spans ≠ [] := hb.mp rfl
      obtain ⟨c, e1, e2, _, _⟩ := current_sim hc hr2 (safe_of_live hl2)
      obtain ⟨m1, m2⟩ := hmu rfl
      simp only [Bool.not_true, Bool.false_eq_true, if_false, e1, e2]
      by_cases h1 : (decide (chars + 1 ≥ maxChars) || c == 0x5B || c == 0x5D) = true
      · simp only [h1, if_true]; exact Or.inl ⟨trivial, trivial⟩
      · simp only [h1, Bool.false_eq_true, if_false]
        by_cases h2 : isSpaceTabOrLineEnding c = true
        · simp only [h2, Bool.not_true, Bool.false_eq_true, if_false]
          rcases ih f' r2 r2' (chars + 1) hr2 (by omega) (by omega) with h | ⟨r3, r3', n, a1, a2, a3, a4, a5, a6⟩
          · exact Or.inl h
          · exact Or.inr ⟨r3, r3', n, a1, a2, a3, a4, by omega, by omega⟩
        · simp only [h2, Bool.not_false, if_true]
          exact Or.inr ⟨r2, r2', chars + 1, rfl, rfl, hr2, hl2, le1, le2⟩

/-- Corresponding values of `innerEnd`. -/
def IeR (is is' : List Tree) (a a' : Int) : Prop := (a = -1 ∧ a' = -1) ∨ PosP is is' a a'

theorem labelBody_sim (hc : PC E is is') : ∀ (f f' : Nat) (r r' : Rd) (chars : Nat) (ie ie' : Int), RR E is is' r r' →
    Safe E r r' → IeR is is' ie ie' → RDS.mu E.src r < f → RDS.mu E.src' r' < f' →
    (labelBody E.src f r chars ie = none ∧ labelBody E.src' f' r' chars ie' = none) ∨
    ∃ r2 r2' e e', labelBody E.src f r chars ie = some (r2, e) ∧ labelBody E.src' f' r' chars ie' = some (r2', e') ∧
      RR E is is' r2 r2' ∧ Safe E r2 r2' ∧ IeR is is' e e' ∧ r.pos ≤ r2.pos ∧ r'.pos ≤ r2'.pos := by
  intro f
  induction f with
  | zero => intro f' r r' _ _ _ _ _ _ h; omega
  | succ f ih =>
    intro f' r r' chars ie ie' hr hs hie hm hm'
    obtain ⟨f', rfl⟩ : ∃ g, f' = g + 1 := ⟨f' - 1, by omega⟩
    obtain ⟨c, e1, e2, hc0, _⟩ := current_sim hc hr hs
    obtain ⟨b, r2, r2', n1, n2, hr2, hb, hmu, _, _, _⟩ := next_sim hc hr
    obtain ⟨le1, le2⟩ := next_le hc hr n1 n2
    simp only [labelBody, e1, e2]
    by_cases h1 : (decide (chars < maxChars) && c != 0x5B && c != 0x5D) = true
    · simp only [h1, Bool.not_true, Bool.false_eq_true, if_false]
      -- the reader is alive: `c` is not 0 … unless `c = 0`, which is neither bracket
      by_cases hbs : (c == 0x5C) = true
      · have hlive : r.spans ≠ [] := by
          intro hd
          rw [hc0.mpr hd] at hbs; revert hbs; decide
        have hpp := (hr.liveP hc hlive).succ
        simp only [hbs, if_true, n1, n2]
        by_cases h2 : chars + 1 ≥ maxChars
        · simp only [h2, if_true]; exact Or.inl ⟨trivial, trivial⟩
        · simp only [h2, if_false]
          cases b with
          | false => simp only [Bool.not_false, if_true]; exact Or.inl ⟨trivial, trivial⟩
          | true =>
            have hl2 : r2.spans ≠ [] := hb.mp rfl
            obtain ⟨m1, m2⟩ := hmu rfl
            obtain ⟨c2, g1, g2, _, _⟩ := current_sim hc hr2 (safe_of_live hl2)
            obtain ⟨b3, r3, r3', k1, k2, hr3, hb3, hmu3, _, _, _⟩ := next_sim hc hr2
            obtain ⟨le3, le4⟩ := next_le hc hr2 k1 k2
            have hpp2 := (hr2.liveP hc hl2).succ
            simp only [Bool.not_true, Bool.false_eq_true, if_false, g1, g2, k1, k2]
            cases b3 with
            | false => simp only [Bool.not_false, if_true]; exact Or.inl ⟨trivial, trivial⟩
            | true =>
              obtain ⟨m3, m4⟩ := hmu3 rfl
              simp only [Bool.not_true, Bool.false_eq_true, if_false]
              have hie2 : IeR is is' (if (!isSpaceTabOrLineEnding c2) = true then (r2.pos : Int) + 1 else (r.pos : Int) + 1)
                  (if (!isSpaceTabOrLineEnding c2) = true then (r2'.pos : Int) + 1 else (r'.pos : Int) + 1) := by
                split
                · exact Or.inr hpp2
                · exact Or.inr hpp
              rcases ih f' r3 r3' (chars + 1 + 1) _ _ hr3 (safe_of_live (hb3.mp rfl)) hie2 (by omega) (by omega) with
                h | ⟨r4, r4', e, e', a1, a2, a3, a4, a5, a6, a7⟩
              · exact Or.inl h
              · exact Or.inr ⟨r4, r4', e, e', a1, a2, a3, a4, a5, by omega, by omega⟩
      · simp only [hbs, Bool.false_eq_true, if_false, n1, n2]
        cases b with
        | false => simp only [Bool.not_false, if_true]; exact Or.inl ⟨trivial, trivial⟩
        | true =>
          have hl2 : r2.spans ≠ [] := hb.mp rfl
          obtain ⟨m1, m2⟩ := hmu rfl
          have hlive : r.spans ≠ [] := by
            intro hd
            have := RDS.next_dead hc.c hr.ri hd
            rw [n1] at this; cases this
          have hpp := (hr.liveP hc hlive).succ
          simp only [Bool.not_true, Bool.false_eq_true, if_false]
          have hie2 : IeR is is' (if (!isSpaceTabOrLineEnding c) = true then (r.pos : Int) + 1 else ie)
              (if (!isSpaceTabOrLineEnding c) = true then (r'.pos : Int) + 1 else ie') := by
            split
            · exact Or.inr hpp
            · exact hie
          rcases ih f' r2 r2' (chars + 1) _ _ hr2 (safe_of_live hl2) hie2 (by omega) (by omega) with
            h | ⟨r4, r4', e, e', a1, a2, a3, a4, a5, a6, a7⟩
          · exact Or.inl h
          · exact Or.inr ⟨r4, r4', e, e', a1, a2, a3, a4, a5, by omega, by omega⟩
    · simp only [h1, Bool.not_false, if_true]
      exact Or.inr ⟨r, r', ie, ie', rfl, rfl, hr, hs, hie, Nat.le_refl _, Nat.le_refl _⟩

/-- `labelBody` keeps a non-negative end of the inner span non-negative. -/
theorem labelBody_nonneg (src : Bytes) : ∀ (f : Nat) (r : Rd) (chars : Nat) (ie : Int) (r2 : Rd) (e : Int), 0 ≤ ie →
    labelBody src f r chars ie = some (r2, e) → 0 ≤ e := by
  intro f
  induction f with
  | zero => intro r chars ie r2 e _ h; simp [labelBody] at h
  | succ f ih =>
    intro r chars ie r2 e h0 h
    rcases hc : r.current src with ⟨c, r1⟩
    rcases hn : r1.next src with ⟨ok, r3⟩
    rcases hc3 : r3.current src with ⟨c3, r4⟩
    rcases hn4 : r4.next src with ⟨ok4, r5⟩
    simp only [labelBody, hc, hn, hc3, hn4] at h
    split at h
    · simp only [Option.some.injEq, Prod.mk.injEq] at h; omega
    · split at h
      · split at h
        · cases h
        · split at h
          · cases h
          · split at h
            · cases h
            · refine ih _ _ _ _ _ ?_ h
              split <;> omega
      · split at h
        · cases h
        · refine ih _ _ _ _ _ ?_ h
          split <;> omega

/-- The first iteration of `labelBody` at a byte that is neither white space nor a bracket sets the end. -/
theorem labelBody_first_nonneg (src : Bytes) (f : Nat) (r : Rd) (chars : Nat) (r2 : Rd) (e : Int) (hch : chars < maxChars)
    (hb1 : (r.current src).1 ≠ 0x5B) (hb2 : (r.current src).1 ≠ 0x5D)
    (hws : isSpaceTabOrLineEnding (r.current src).1 = false)
    (h : labelBody src f r chars (-1) = some (r2, e)) : 0 ≤ e := by
  cases f with
  | zero => simp [labelBody] at h
  | succ f =>
    rcases hc : r.current src with ⟨c, r1⟩
    rw [hc] at hb1 hb2 hws
    simp only at hb1 hb2 hws
    rcases hn : r1.next src with ⟨ok, r3⟩
    rcases hc3 : r3.current src with ⟨c3, r4⟩
    rcases hn4 : r4.next src with ⟨ok4, r5⟩
    simp only [labelBody, hc, hn, hc3, hn4] at h
    split at h
    · rename_i hcond
      exfalso
      have : (decide (chars < maxChars) && c != 91 && c != 93) = true := by
        simp only [Bool.and_eq_true, decide_eq_true_eq, bne_iff_ne, ne_eq]
        exact ⟨⟨hch, hb1⟩, hb2⟩
      rw [this] at hcond
      cases hcond
    · split at h
      · split at h
        · cases h
        · split at h
          · cases h
          · split at h
            · cases h
            · refine labelBody_nonneg src _ _ _ _ _ _ ?_ h
              split <;> omega
      · split at h
        · cases h
        · refine labelBody_nonneg src _ _ _ _ _ _ ?_ h
          rw [hws]
          simp only [Bool.not_false, if_true]
          omega

end CM.Proofs.Quote
