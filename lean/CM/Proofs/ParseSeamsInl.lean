import CM.Proofs.ParseSeamsCollect
import CM.Proofs.ParseSeamsMain
import CM.Proofs.InlShapeSiteRun
import CM.Proofs.InlShapeHtml
/-
C17 (b) for parser output, part 9 (inline phase, **fact (2)** for one container): every RawHTML node among the new inline
children `parseInlines` returns for a container is closed — provided the container's block-phase inline children `L`

  * contain no RawHTML node (`NoRawT`),
  * are lines (`Lines src L`: a node that has a successor, Indent nodes excepted, ends with a line ending),
  * and their Indent nodes cover spaces and tabs only (`InlH.IndentWS src L`; needed by `InlH.parseHTMLTag_shape`: a raw
    HTML tag ends right after a `>`).

DEPENDENCY: `InlShapeSite*.lean` and `InlShapeHtml.lean` are the files of the concurrent agent `c13i` (the third chain of
specifications over the inline phase, `SiteInv`: an HTMLTag node is the result of `parseHTMLTag` at a `<` and its children
are `collectTextNodes` over that span; `parseHTMLTag_shape`).  They are used as they are.
-/
namespace CM.Proofs.PS
open CM CM.Model CM.Gen CM.Spec CM.Model.Inl
open CM.Proofs.BT CM.Proofs.BG CM.Proofs.PW CM.Proofs.InlH

/-- What fact (2) asks of the block-phase inline children of a container. -/
structure ContOK (src : Bytes) (L : List Tree) : Prop where
  noRaw : ∀ t ∈ L, NoRawT t
  lines : Lines src L
  indentWS : IndentWS src L

/-- The arena invariant: no arena node is a RawHTML node, and every node of a finished sub-tree is closed. -/
def φR (src : Bytes) (m : INode) : Prop := m.kind ≠ IK.rawHTML ∧ ∀ u ∈ T.nodesL m.sub, OKr src u

theorem φR.leafNode {src : Bytes} {m : INode} (hk : m.kind ≠ IK.rawHTML) (hs : m.sub = []) : φR src m := by
  refine ⟨hk, ?_⟩
  rw [hs, T.nodesL]
  intro u hu; cases hu

theorem OKr_of_noRaw {src : Bytes} {t : Tree} (h : NoRawT t) : ∀ u ∈ T.nodes t, OKr src u := by
  intro u hu hr
  rw [h u hu] at hr; cases hr

theorem OKr_leaf {src : Bytes} (k : Nat) (a b : Int) (hk : k ≠ IK.rawHTML) : ∀ u ∈ T.nodes (mkInline k a b), OKr src u := by
  intro u hu hr
  rw [nodes_mkInline_leaf, List.mem_singleton] at hu
  subst hu
  simp only [T.isI, mkInline, Bool.and_eq_true, beq_iff_eq] at hr
  exact absurd hr.2 hk

theorem all_nodesL' {P : Tree → Prop} {ts : List Tree} (h : ∀ c ∈ ts, ∀ u ∈ T.nodes c, P u) : ∀ u ∈ T.nodesL ts, P u := by
  intro u hu
  obtain ⟨c, hc, huc⟩ := InlH.mem_nodesL hu
  exact h c hc u huc

/-- The children of link destinations, titles and labels: Text / CharacterReference leaves and Indent nodes of `L`. -/
theorem collect_text_closed (ext : Ext) (src : Bytes) (L : List Tree) (hL : ∀ t ∈ L, NoRawT t) (stop : Nat) (esc : Bool)
    (fuel k p ps : Nat) :
    ∀ u ∈ T.nodesL (collectTextNodes ext src stop IK.text esc fuel (newReader (L.drop k) p) ps []), OKr src u := by
  apply all_nodesL'
  refine collectTextNodesP ext src stop IK.text esc (fun c => ∀ u ∈ T.nodes c, OKr src u)
    (fun a b => OKr_leaf _ a b (by decide)) (fun p k e _ => OKr_leaf _ _ _ (by decide)) fuel _ _ _ ?_ AccP.nil
  intro t ht _
  exact OKr_of_noRaw (hL t (List.mem_of_mem_drop ht))

/-- The children of a raw HTML tag. -/
theorem collect_tag_closed (ext : Ext) (src : Bytes) (L : List Tree) (hok : ContOK src L) (k : Nat) (sp : SpanI)
    (fuel : Nat) (hgt : InlH.GT src sp.stop) :
    ∀ u ∈ T.nodesL (collectTextNodes ext src sp.stop.toNat IK.rawHTML false fuel
      (newReader (L.drop k) sp.start.toNat) sp.start.toNat []), OKr src u := by
  obtain ⟨q, hq, hqs⟩ := hgt
  have hql : q < src.length := by
    by_cases hcon : q < src.length
    · exact hcon
    · rw [List.getElem?_eq_none (by omega)] at hqs; cases hqs
  have hstop : CEi src ((sp.stop.toNat : Nat) : Int) := by
    have e : ((sp.stop.toNat : Nat) : Int) = (q : Int) + 1 := by omega
    rw [e]
    refine ⟨by omega, Or.inr ?_⟩
    have e2 : ((q : Int) + 1).toNat - 1 = q := by omega
    rw [e2, List.getD_eq_getElem?_getD, hqs]
    exact ⟨by decide +kernel, by decide⟩
  have key := collect_raw ext src L sp.stop.toNat hok.lines hstop fuel (newReader (L.drop k) sp.start.toNat) sp.start.toNat []
    (List.drop_suffix _ _) (Or.inl rfl) AccP.nil
  apply all_nodesL'
  intro c hc u hu
  rcases key c hc with ⟨_, hmem⟩ | ⟨a, e, rfl, hce⟩
  · exact OKr_of_noRaw (hok.noRaw c hmem) u hu
  · rw [nodes_mkInline_leaf, List.mem_singleton] at hu
    subst hu
    intro _
    exact not_candidate_of_CEi src _ hce

/-- `φR` is an invariant of the arena (`SiteInv`). -/
theorem siteInv_R (x : IExt) (src : Bytes) (matchRef : Bytes → Bool) (L : List Tree) (hok : ContOK src L) :
    SiteInv (inlCtx x src src.toArray matchRef L) (φR src) where
  text a b := φR.leafNode (by dsimp only; decide) rfl
  hardBreakBS s start _ _ _ _ _ _ := φR.leafNode (by dsimp only; decide) rfl
  hardBreakSP s pos _ _ _ _ _ := φR.leafNode (by dsimp only; decide) rfl
  charRef pos se e _ _ _ _ _ := φR.leafNode (by dsimp only; decide) rfl
  softBreak1 pos _ _ _ := φR.leafNode (by dsimp only; decide) rfl
  softBreak2 pos _ _ _ _ := φR.leafNode (by dsimp only; decide) rfl
  wrapped k a b hk := φR.leafNode (by rcases hk with rfl | rfl | rfl | rfl <;> (dsimp only; decide)) rfl
  imported t ht hb _ _ := by
    have hmem : t ∈ L := by simpa [inlCtx] using ht
    have hn := hok.noRaw t hmem
    refine ⟨?_, fun u hu => OKr_of_noRaw hn u (InlH.nodesL_children_sub hu)⟩
    intro hk
    have := hn t (InlH.self_mem_nodes t)
    simp only [T.isI, hb, Bool.not_false, Bool.true_and, beq_eq_false_iff_ne] at this
    exact this hk
  codeSpan cs ks hks _ _ := by
    refine ⟨by dsimp only; decide, ?_⟩
    apply all_nodesL'
    intro c hc u hu
    rw [List.mem_map] at hc
    obtain ⟨n, hn, rfl⟩ := hc
    have hkind := hks n (by simpa using hn)
    rw [CSN.toTree, T.nodes, T.nodesL, List.mem_singleton] at hu
    subst hu
    intro hr
    simp only [T.isI, Bool.and_eq_true, beq_iff_eq] at hr
    have hk2 : n.kind = IK.rawHTML := hr.2
    rcases hkind with h | h <;> (rw [h] at hk2; exact absurd hk2 (by decide))
  autolink pos se e _ _ _ _ _ := by
    refine ⟨by dsimp only; decide, ?_⟩
    apply all_nodesL'
    intro c hc
    rw [List.mem_singleton] at hc
    subst hc
    exact OKr_leaf _ _ _ (by decide)
  htmlTag k pos h0 _ _ hv := by
    refine ⟨by dsimp only; decide, ?_⟩
    obtain ⟨p, rfl⟩ := Int.eq_ofNat_of_zero_le h0
    have hsub : ∀ t ∈ (newReader (L.drop k) p).spans, t ∈ L := fun t ht => List.mem_of_mem_drop ht
    have hv' : (parseHTMLTag src (rdFuel src L) (newReader (L.drop k) p)).1.isValid = true := hv
    obtain ⟨h1', _, h3'⟩ := parseHTMLTag_shape src L hok.indentWS _ _ hsub hv'
    exact collect_tag_closed x.ext src L hok k _ (rdFuel src L) h3'
  linkDest a b stop fuel k p ps := ⟨by dsimp only; decide, collect_text_closed x.ext src L hok.noRaw stop true fuel k p ps⟩
  linkDestEmpty a b := φR.leafNode (by dsimp only; decide) rfl
  linkTitle a b stop fuel k p ps := ⟨by dsimp only; decide, collect_text_closed x.ext src L hok.noRaw stop true fuel k p ps⟩
  linkTitleEmpty a b := φR.leafNode (by dsimp only; decide) rfl
  linkLabel a b stop fuel k p ps ref _ :=
    ⟨by dsimp only; decide, collect_text_closed x.ext src L hok.noRaw stop false fuel k p ps⟩
  modKids n ks h := h
  modSpan n a b h _ := h
  modLink n a b r h _ _ := h

/-- **Fact (2) for one container.** -/
theorem parseInlines_tags_closed (x : IExt) (src : Bytes) (matchRef : Bytes → Bool) (cstart cstop : Int)
    (L kids : List Tree) (hok : ContOK src L)
    (h : parseInlines x src src.toArray matchRef cstart cstop L = .ok kids) :
    ∀ n ∈ T.nodesL kids, OKr src n := by
  intro n hn
  obtain ⟨m, hm, hl | hs⟩ := parseInlines_nodes_site x src src.toArray matchRef cstart cstop L (φR src)
    (siteInv_R x src matchRef L hok) (φR.leafNode (by dsimp only; decide) rfl) kids h n hn
  · intro hr
    simp only [T.isI, hl, nodeLabel, Bool.and_eq_true, beq_iff_eq] at hr
    exact absurd hr.2 hm.1
  · exact hm.2 n hs

/-- Fact (2) for a tree, from the per-container condition. -/
theorem inlineTagsClosed_of_contOK (ix : IExt) (src : Bytes) (m : Bytes → Bool) (t : Tree)
    (h : ∀ p ∈ conts t, ContOK src p.2) : InlineTagsClosed ix src m t :=
  fun p hp kids hk => parseInlines_tags_closed ix src m p.1.start p.1.stop p.2 kids (h p hp) hk

end CM.Proofs.PS
