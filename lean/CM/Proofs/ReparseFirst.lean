import CM.Proofs.ReparseMachine
/-
C16, Layer U, part 2: `NextBlock` / `drain` on `memParser (x ++ t)` and on `memParser x`.

`reparse_first`: for EVERY line parser with a session invariant and the residual obligation `CloseIndep`: if the first
root of `x ++ t` (which starts with a non-blank line) ends exactly where `x` ends, then `x` alone parses to exactly one
root: the same `Source`, offsets `0 … |x|`, line 1, and a block related by `E`.
-/
namespace CM.Proofs.Rp
open CM CM.Model CM.Gen CM.Proofs

/-- The blank-line loop stops at a non-blank first line. -/
theorem skipBlank_first (F : Nat) (q : BP) (herr : q.err.isSome = true) (hi : q.i = 0)
    (hb : isBlankLine (q.buf.take (lineLen q.buf)) = false) :
    skipBlank (F + 1) q = (some { q with i := lineLen q.buf }, { q with i := lineLen q.buf }) := by
  have hne : q.buf ≠ [] := by
    intro e; rw [e] at hb; simp [isBlankLine] at hb
  have hpos := lineLen_pos hne
  have hrl := rl_mem q herr (by omega)
  rw [hi] at hrl
  simp only [List.drop_zero, Nat.zero_add] at hrl
  simp only [skipBlank, hrl, hpos, decide_true, Bool.not_true, Bool.false_eq_true, if_false, hb, Bool.not_false, if_true]

theorem memParser_ext {x t : Bytes} (hnn : NoNul (x ++ t)) : memParser (x ++ t) = extBP t (memParser x) := by
  rw [memParser_noNul hnn, memParser_noNul hnn.left]
  rfl

theorem nextBlock_err_eof (L : LineParserI) (q : BP) (hb : q.buf = []) (hbl : q.blocks = []) (he : q.err = some .eof)
    (hp : q.panic = none) : ∃ q', nextBlock L q = (.err .eof, q') := by
  rw [nextBlock_eq_F]
  have mB : makeRoot q q.blocks = none := by rw [hbl]; rfl
  have lB : ¬ q.blocks.length > 0 := by rw [hbl]; simp
  rw [nextBlockF_fresh L mB lB]
  have hfb : (freshLine q).buf = [] := by show q.buf.drop q.i = []; rw [hb]; simp
  have hf : bpFuel q = (bpFuel q - 1) + 1 := by simp only [bpFuel]; omega
  rw [hf, skipBlank_nil _ (freshLine q) hfb rfl (by show q.err.isSome = true; rw [he]; rfl)]
  refine ⟨freshLine q, ?_⟩
  simp only [afterSkip]
  have : (freshLine q).panic = none := hp
  rw [this]
  have : (freshLine q).err = some .eof := he
  rw [this]
  rfl

section
variable {L : LineParserI} {S : Sess L} {Good : PB → Prop} {Good2 : Bytes → PB → Prop} {E : PB → PB → Prop}

/-- The state of `Parse` on `x` after the blank-line loop has read the (non-blank) first line. -/
def firstLineBP (x : Bytes) : BP := { memParser x with i := lineLen x }

/-- **Layer U** (per-line loop form). `x` starts with a non-blank line, `x ++ t` has no NUL byte, and (unless `t` is
    empty) `x` ends in a line ending that does not merge with the head of `t`. If the per-line loop of a fresh session on
    `x ++ t` (any fuel) delivers a root `r` that ends at offset `|x|` and whose block is `Good`, then parsing `x` alone
    delivers exactly one root `r'`, then end of input: the same `Source` (`= x`), `StartOffset 0`, `EndOffset |x|`,
    `StartLine 1`, and `E r.block r'.block`. -/
theorem reparse_first_core (CI : CloseIndep L S Good Good2 E) (x t : Bytes) (hnn : NoNul (x ++ t))
    (hfirst : isBlankLine (x.take (lineLen x)) = false)
    (hjoin : t = [] ∨ (terminated x = true ∧ ¬ CRLFSplit x t))
    (r : Root) (pA : BP) (fA : Nat)
    (hA : parseLines L fA (L.new []) 0 (extBP t (firstLineBP x)) = (.block r, pA)) (hend : r.endOffset = x.length)
    (hgood : Good r.block) (hgood2 : Good2 x r.block) (f : Nat) :
    ∃ r' pB, drain L (f + 2) (memParser x) [] = ([r'], .err .eof, pB) ∧
      r.source = x ∧ r'.source = x ∧ r'.startOffset = 0 ∧ r'.endOffset = x.length ∧ r'.startLine = 1 ∧
      r.startOffset = 0 ∧ r.startLine = 1 ∧ E r.block r'.block := by
  have hx : x ≠ [] := by
    intro e; rw [e] at hfirst; simp [isBlankLine] at hfirst
  have hmx : memParser x = { buf := x, err := some .eof, lineno := 1 } := memParser_noNul hnn.left
  let q : BP := firstLineBP x
  have hqbuf : q.buf = x := by show (memParser x).buf = x; rw [hmx]
  -- the run on `x`
  have hlock : Lock t q := by
    refine ⟨?_, rfl, ?_⟩
    · show lineLen x ≤ (memParser x).buf.length
      rw [hmx]; exact lineLen_le x
    · rcases hjoin with h | h
      · exact Or.inl h
      · right; rw [hqbuf]; exact h
  have hpre : Pre S (L.new []) 0 (q.buf.take q.i) := by
    left
    have : q.buf.take q.i = x.take (lineLen x) := by rw [hqbuf]; rfl
    rw [this]
    exact ⟨rfl, rfl, isLine_take hx, hfirst, hnn.left.take _⟩
  obtain ⟨k', hB, hok', hsk', hE, hr⟩ := parseLines_reparse CI fA (bpFuel (memParser x))
    (L.new []) 0 q hlock (Nat.zero_le _) hpre
    (by
      rw [hqbuf]
      have := lineEnd_next x 0 (Nat.zero_le _)
      simp only [List.drop_zero, Nat.zero_add] at this
      exact this)
    (bpFuel_mem_ge q) (by rw [hqbuf]; exact hnn) r pA hA
    (by rw [hend, hqbuf]; show x.length = (memParser x).offset + x.length; rw [hmx]; simp) hgood
    (by rw [hqbuf]; exact hgood2)
  -- the first call on `x`
  have hfB : bpFuel (memParser x) = (bpFuel (memParser x) - 1) + 1 := by simp only [bpFuel]; omega
  have hsB : skipBlank (bpFuel (memParser x)) (memParser x) = (some q, q) := by
    rw [hfB, skipBlank_first _ _ rfl rfl (by
      show isBlankLine ((memParser x).buf.take (lineLen (memParser x).buf)) = false
      rw [hmx]; exact hfirst)]
    have : lineLen (memParser x).buf = lineLen x := by rw [hmx]
    rw [this]
    rfl
  have hnB : nextBlock L (memParser x) = (.block (rootOf q k'), afterRoot { q with i := q.buf.length } k' []) := by
    rw [nextBlock_eq_F, nextBlock_memParser, hsB]
    simp only [afterSkip]
    exact hB
  -- the state after the root: nothing left
  have hstop : k'.label.stop.toNat = x.length := by rw [← hqbuf]; exact hsk'
  obtain ⟨q2, hn2⟩ := nextBlock_err_eof L (afterRoot { q with i := q.buf.length } k' [])
    (by
      show q.buf.drop k'.label.stop.toNat = []
      rw [hstop, hqbuf]; simp)
    (by show offsetPBs (-(k'.label.stop.toNat : Int)) [] = []; simp [offsetPBs])
    (by show (memParser x).err = some .eof; rw [hmx])
    (by
      rw [afterRoot_panic_eq _ _ _ (by show k'.label.stop.toNat ≤ q.buf.length; rw [hstop, hqbuf]; exact Nat.le_refl _)
        (by show k'.label.stop.toNat ≤ q.buf.length; rw [hstop, hqbuf]; exact Nat.le_refl _)]
      show (memParser x).panic = none
      rw [hmx])
  refine ⟨rootOf q k', q2, ?_, ?_, ?_, ?_, ?_, ?_, ?_, ?_, hE⟩
  · simp only [drain, hnB, hn2, List.reverse_cons, List.reverse_nil, List.nil_append]
  · rw [← hr, rootOf_source q _ (by rw [hqbuf]; exact hnn.left), hqbuf]
    have h1 := rootOf_endOffset q r.block (by rw [hqbuf]; exact hnn.left)
    rw [hr, hend, hqbuf] at h1
    have : (memParser x).offset = 0 := by rw [hmx]
    have h0 : q.offset = 0 := this
    rw [h0] at h1
    rw [List.take_of_length_le (by omega)]
  · rw [rootOf_source q _ (by rw [hqbuf]; exact hnn.left), hqbuf]
    unfold stopOf; rw [hstop]; exact List.take_length
  · show (memParser x).offset = 0; rw [hmx]
  · rw [rootOf_endOffset q _ (by rw [hqbuf]; exact hnn.left), hqbuf]
    have : q.offset = 0 := by show (memParser x).offset = 0; rw [hmx]
    rw [this]; unfold stopOf; rw [hstop]; simp
  · show (memParser x).lineno = 1; rw [hmx]
  · rw [← hr]; show (memParser x).offset = 0; rw [hmx]
  · rw [← hr]; show (memParser x).lineno = 1; rw [hmx]

/-- **Layer U** (`NextBlock` form): the hypothesis is the first `NextBlock` call on `x ++ t`. -/
theorem reparse_first (CI : CloseIndep L S Good Good2 E) (x t : Bytes) (hnn : NoNul (x ++ t))
    (hfirst : isBlankLine (x.take (lineLen x)) = false)
    (hjoin : t = [] ∨ (terminated x = true ∧ ¬ CRLFSplit x t))
    (r : Root) (pA : BP) (hA : nextBlock L (memParser (x ++ t)) = (.block r, pA)) (hend : r.endOffset = x.length)
    (hgood : Good r.block) (hgood2 : Good2 x r.block) (f : Nat) :
    ∃ r' pB, drain L (f + 2) (memParser x) [] = ([r'], .err .eof, pB) ∧
      r.source = x ∧ r'.source = x ∧ r'.startOffset = 0 ∧ r'.endOffset = x.length ∧ r'.startLine = 1 ∧
      r.startOffset = 0 ∧ r.startLine = 1 ∧ E r.block r'.block := by
  have hx : x ≠ [] := by
    intro e; rw [e] at hfirst; simp [isBlankLine] at hfirst
  have hmx : memParser x = { buf := x, err := some .eof, lineno := 1 } := memParser_noNul hnn.left
  have hll : lineLen (x ++ t) = lineLen x := by
    rcases hjoin with rfl | ⟨h1, h2⟩
    · rw [List.append_nil]
    · exact lineLen_append_terminated t x hx h1 h2
  have hfirstA : isBlankLine ((x ++ t).take (lineLen (x ++ t))) = false := by
    rw [hll, List.take_append_of_le_length (lineLen_le x)]; exact hfirst
  rw [nextBlock_eq_F, nextBlock_memParser, memParser_ext hnn] at hA
  have hfA : bpFuel (extBP t (memParser x)) = (bpFuel (extBP t (memParser x)) - 1) + 1 := by
    simp only [bpFuel]; omega
  have hsA : skipBlank (bpFuel (extBP t (memParser x))) (extBP t (memParser x)) =
      (some (extBP t (firstLineBP x)), extBP t (firstLineBP x)) := by
    rw [hfA, skipBlank_first _ _ rfl rfl (by
      show isBlankLine (((memParser x).buf ++ t).take (lineLen ((memParser x).buf ++ t))) = false
      rw [hmx]; exact hfirstA)]
    have : lineLen (extBP t (memParser x)).buf = lineLen x := by
      show lineLen ((memParser x).buf ++ t) = _
      rw [hmx]; exact hll
    rw [this]
    rfl
  rw [hsA] at hA
  simp only [afterSkip] at hA
  have hblA : (extBP t (firstLineBP x)).blocks = [] := rfl
  rw [hblA] at hA
  exact reparse_first_core CI x t hnn hfirst hjoin r pA _ hA hend hgood hgood2 f

end

end CM.Proofs.Rp
