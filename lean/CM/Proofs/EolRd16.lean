import CM.Proofs.EolRd15
import CM.Proofs.EolCollect
/-
C14 (a), the paragraph hook under the position map — part 16: the character-reference branch and the simulation of
`collectTextNodes` (`collect_sim`).
-/
namespace CM.Proofs.ERd
open CM CM.Model CM.Gen CM.Proofs CM.Proofs.RDS CM.Proofs.BSp

/-- The `&` branch of `collectTextNodes.collectStep`. -/
def ampF (ext : Ext) (src : Bytes) (stop tk : Nat) (esc : Bool) (f : Nat) (r : Rd) (ps : Nat) (acc : List Tree) : List Tree :=
  match Rd.remainingNodeBytes src r with
  | (rest, r) =>
    match parseCharacterEscape ext rest with
    | Int.ofNat n =>
      match Rd.next src (List.foldl (fun r _ => (Rd.next src r).snd) r (List.range (n - 1))) with
      | (ok, r') =>
        if (!ok) = true then collectTextNodes.finish stop tk (r.pos + n)
          ((if r.pos > ps then acc ++ [mkInline tk (ps : Int) (r.pos : Int)] else acc) ++
            [mkInline IK.charRef (r.pos : Int) ((r.pos : Int) + (n : Int))])
        else collectTextNodes ext src stop tk esc f r' (r.pos + n)
          ((if r.pos > ps then acc ++ [mkInline tk (ps : Int) (r.pos : Int)] else acc) ++
            [mkInline IK.charRef (r.pos : Int) ((r.pos : Int) + (n : Int))])
    | _ => goF ext src stop tk esc f r ps acc

theorem collectStep_eq' (ext : Ext) (src : Bytes) (stop tk : Nat) (esc : Bool) (cn : Tree) (r : Rd) (ps : Nat)
    (acc : List Tree) (f : Nat) :
    collectTextNodes.collectStep ext src stop tk esc cn r ps acc f =
      if (esc && isUnparsed cn) = true then
        match Rd.current src r with
        | (c, r) =>
          if (c == 92) = true then
            match Rd.next src r with
            | (ok, r) =>
              match (if ok = true then Rd.current src r else (0, r)) with
              | (c2, r) =>
                if (ok && decide (r.pos < stop) && isASCIIPunctuation c2) = true then
                  goF ext src stop tk esc f r r.pos (if r.prev > (ps : Int) then acc ++ [mkInline tk (ps : Int) r.prev] else acc)
                else goF ext src stop tk esc f r ps acc
          else
            if (c == 38) = true then ampF ext src stop tk esc f r ps acc
            else goF ext src stop tk esc f r ps acc
      else goF ext src stop tk esc f r ps acc := by
  rw [collectStep_eq]
  rfl

section
variable {e X : Bytes} {k : Nat} {is : List Tree} {r : Rd}

theorem take_drop_len {l : Bytes} {a b : Nat} (hb : b ≤ l.length) (hab : a ≤ b) : ((l.drop a).take (b - a)).length = b - a := by
  simp only [List.length_take, List.length_drop]; omega

theorem getD_take_drop (l : Bytes) (a m j : Nat) (hj : j < m) : ((l.drop a).take m).getD j 0 = l.getD (a + j) 0 := by
  simp only [List.getD_eq_getElem?_getD, List.getElem?_take, List.getElem?_drop, hj, if_true]

/-- **The character-reference branch.** -/
theorem amp_sim (he : StdEol e) (hcr : NoCR X) (hc : Ctx (X.take k) is) (htab : TabsOK (X.take k) is)
    (ext : Ext) (stop tk : Nat) (esc : Bool) (f g : Nat) (ih : CollIH e X k is ext stop tk esc f)
    (h : RJ (X.take k) is r) {t : Tree} {rest : List Tree} (hs : r.spans = t :: rest) (hi : isIndent t = false)
    (hm : mu (X.take k) r ≤ f) (hm' : mu (toEol e (X.take k)) (mapRd e X r) ≤ g) (ps : Nat) (acc : List Tree) :
    ampF ext (toEol e (X.take k)) (eolPos e X stop) tk esc g (mapRd e X r) (eolPos e X ps) (mapTrees (eolPosZ e X) acc) =
      mapTrees (eolPosZ e X) (ampF ext (X.take k) stop tk esc f r ps acc) := by
  obtain ⟨hmem, hp, n1, n2, n3⟩ := live_facts hc h.1 hs
  obtain ⟨rm1, rm2⟩ := remaining_map (e := e) he hcr hc htab h.1 hs
  unfold ampF
  rw [rm1, rm2]
  simp only []
  have hstopN : t.label.stop = (t.label.stop.toNat : Int) := (Int.toNat_of_nonneg (by omega)).symm
  have hlen : (((X.take k).drop r.pos).take (t.label.stop.toNat - r.pos)).length = t.label.stop.toNat - r.pos :=
    take_drop_len (by omega) (by omega)
  have hend : ∀ j, j < (((X.take k).drop r.pos).take (t.label.stop.toNat - r.pos)).length →
      (((X.take k).drop r.pos).take (t.label.stop.toNat - r.pos)).getD j 0 = LF →
      j + 1 = (((X.take k).drop r.pos).take (t.label.stop.toNat - r.pos)).length := by
    intro j hj hb
    rw [hlen] at hj ⊢
    rw [getD_take_drop _ _ _ _ hj] at hb
    have := ((hc.ok t hmem).2.2.2 hi (r.pos + j) (by omega) (by omega)).1 hb
    omega
  rw [pce_toEol ext he _ hend]
  cases hp' : parseCharacterEscape ext (((X.take k).drop r.pos).take (t.label.stop.toNat - r.pos)) with
  | negSucc n =>
    simp only []
    exact goF_sim he hcr hc htab ext stop tk esc f g ih r h hm hm' ps acc
  | ofNat n =>
    simp only []
    obtain ⟨hn1, hlast⟩ := pce_last ext _ n hp'
    have hnb := parseCharacterEscape_bound ext _ n hp'
    rw [hlen] at hnb
    rw [getD_take_drop _ _ _ _ (by omega)] at hlast
    have hsemi : (X.take k).getD (r.pos + n - 1) 0 = 0x3B := by
      rw [show r.pos + n - 1 = r.pos + (n - 1) by omega]; exact hlast
    obtain ⟨a1, a2, a3, a4, a5, a6⟩ := iter_within (e := e) he hcr hc htab (n - 1) r h t rest hs hi (by omega)
    have hphi := pos_add_noLF (e := e) he hc h.1 hs hi n hn1 (by omega) (by rw [hsemi]; decide)
    rw [a1]
    generalize List.foldl (fun r _ => (Rd.next (X.take k) r).snd) r (List.range (n - 1)) = r2 at a2 a3 a4 a5 a6
    have hs2 : r2.spans = t :: rest := by rw [a4]; exact hs
    have hne2 : (r2.current (X.take k)).1 ≠ LF := by
      apply cur_ne_LF_of_byte hc a2.1 hs2 hi
      rw [a3, show r.pos + (n - 1) = r.pos + n - 1 by omega, hsemi]; decide
    obtain ⟨p1, p2, p3⟩ := plain_pack (e := e) he hcr hc htab a2 hne2
    rw [p1]
    rcases hn : r2.next (X.take k) with ⟨ok, r3⟩
    rw [hn] at p2 p3
    simp only [] at p2 p3 ⊢
    -- the accumulated children
    have hacc : ((if (mapRd e X r).pos > eolPos e X ps then
          mapTrees (eolPosZ e X) acc ++ [mkInline tk ((eolPos e X ps : Nat) : Int) ((mapRd e X r).pos : Int)]
          else mapTrees (eolPosZ e X) acc) ++
        [mkInline IK.charRef ((mapRd e X r).pos : Int) (((mapRd e X r).pos : Int) + (n : Int))]) =
        mapTrees (eolPosZ e X) ((if r.pos > ps then acc ++ [mkInline tk (ps : Int) (r.pos : Int)] else acc) ++
          [mkInline IK.charRef (r.pos : Int) ((r.pos : Int) + (n : Int))]) := by
      rw [mapTrees_append, mapTrees_singleton, mapTree_mkInline, eolPosZ_ofNat]
      have e1 : ((r.pos : Int) + (n : Int)) = ((r.pos + n : Nat) : Int) := by omega
      rw [e1, eolPosZ_ofNat, hphi]
      have e2 : (((mapRd e X r).pos : Int) + (n : Int)) = ((eolPos e X r.pos + n : Nat) : Int) := by
        show ((eolPos e X r.pos : Nat) : Int) + (n : Int) = _; omega
      rw [e2]
      congr 1
      by_cases hgt : r.pos > ps
      · rw [if_pos hgt, if_pos (show (mapRd e X r).pos > eolPos e X ps from (eolPos_lt_iff e X).2 hgt), mapTrees_append,
          mapTrees_singleton, mapTree_mkInline, eolPosZ_ofNat, eolPosZ_ofNat]
        rfl
      · rw [if_neg hgt, if_neg (show ¬ (mapRd e X r).pos > eolPos e X ps from fun hh => hgt ((eolPos_lt_iff e X).1 hh))]
    have hps : (mapRd e X r).pos + n = eolPos e X (r.pos + n) := by
      show eolPos e X r.pos + n = _; omega
    rw [hacc, hps]
    cases ok with
    | false =>
      simp only [Bool.not_false, if_true]
      exact finish_map stop tk (r.pos + n) _
    | true =>
      simp only [Bool.not_true, Bool.false_eq_true, if_false]
      obtain ⟨q1, q2⟩ := p3 rfl
      exact ih g r3 (r.pos + n) _ p2 (by omega) (by omega)

end

end CM.Proofs.ERd
