import CM.Proofs.EolLabel1
/-
C14 (a) is FALSE at block level for inputs with `[` — the CRLF half of the witness and the refutation of the general target.
-/
namespace CM.Proofs
open CM CM.Model

/-- With CRLF line endings the same text is one paragraph. -/
theorem labelWitness_crlf :
    rootKinds (drain (blocksLP eolDemoX) 3 (memParser (toCRLF labelWitness)) []).1 = [BK.paragraph] := by
  set_option maxRecDepth 100000 in decide +kernel

theorem labelWitness_facts : NoCR labelWitness ∧ NoNul labelWitness ∧ labelWitness.length = 1000 := by
  set_option maxRecDepth 100000 in decide +kernel

/-- `blocks_eol_sim_plain` without the hypothesis `NoBracket` (equivalently `blocks_eol_sim'` without `ParaSimAll`). -/
def blocks_eol_sim_general_target : Prop :=
  ∀ (x : PExt) (inp : Bytes), NoCR inp → NoNul inp → ∀ n : Nat,
    (∃ er, (drain (blocksLP x) n (memParser inp) []).2.1 = .err er) →
    (drain (blocksLP x) n (memParser (toCRLF inp)) []).1 =
      (drain (blocksLP x) n (memParser inp) []).1.map (mapRoot [CR, LF] inp)

theorem rootKinds_map (e inp : Bytes) (rs : List Root) : rootKinds (rs.map (mapRoot e inp)) = rootKinds rs := by
  unfold rootKinds
  rw [List.map_map]
  apply List.map_congr_left
  intro r _
  show (mapPB _ r.block).kind = r.block.kind
  exact mapPB_kind _ _

/-- **The general block-level form of C14 (a) is false**: the kinds of the top-level blocks differ. -/
theorem blocks_eol_sim_general_target_false : ¬ blocks_eol_sim_general_target := by
  intro h
  have h1 := h eolDemoX labelWitness labelWitness_facts.1 labelWitness_facts.2.1 3
    (exists_err_of_outIsErr labelWitness_lf.2)
  have h2 := congrArg rootKinds h1
  rw [rootKinds_map, labelWitness_crlf, labelWitness_lf.1] at h2
  exact absurd h2 (by decide)

end CM.Proofs
