import CM.Proofs.BlocksCursor
/-
The last-child spine of the tree under construction: `spineGet` / `spineModify` / `spineReplaceLast` /
`setBlankFlags`, and the tree operations of the line parser (`closeContainer`, `closeLastChild`, `openBlock`,
`modifyContainer`, `setContainerIndent`, `collectInline`, `endBlock`).

The tree invariant `TreeOK`: the root is the document block and the container depth is a position on the spine.
-/
namespace CM.Proofs.BT
open CM CM.Model CM.Gen

/-! ### spineGet / spineModify -/

theorem spineGet_zero (b : PB) : spineGet b 0 = some b := by
  cases b; rfl

theorem spineGet_succ (l : PLabel) (bs : List PB) (is : List Tree) (d : Nat) :
    spineGet (.mk l bs is) (d + 1) = match bs.getLast? with
      | some c => spineGet c d
      | none => none := rfl

theorem spineModify_zero (f : PB → PB) (b : PB) : spineModify f b 0 = f b := by
  cases b; rfl

theorem spineModify_succ (f : PB → PB) (l : PLabel) (bs : List PB) (is : List Tree) (d : Nat) :
    spineModify f (.mk l bs is) (d + 1) = match bs.getLast? with
      | some c => .mk l (bs.dropLast ++ [spineModify f c d]) is
      | none => .mk l bs is := rfl

/-- The label of the block at depth `d` of the spine. -/
def labelAt (b : PB) (d : Nat) : Option PLabel := (spineGet b d).map PB.label

theorem spineGet_isSome_of_le : ∀ (d : Nat) (b : PB) (d' : Nat), d' ≤ d → (spineGet b d).isSome → (spineGet b d').isSome := by
  intro d
  induction d with
  | zero => intro b d' h hs; have : d' = 0 := by omega
            subst this; exact hs
  | succ d ih =>
    intro b d' h hs
    cases d' with
    | zero => rw [spineGet_zero]; rfl
    | succ d' =>
      obtain ⟨l, bs, is⟩ := b
      rw [spineGet_succ] at hs ⊢
      cases hgl : bs.getLast? with
      | none => rw [hgl] at hs; cases hs
      | some c => rw [hgl] at hs; exact ih c d' (by omega) hs

/-- Below the modified depth the blocks of the spine keep their labels. -/
theorem labelAt_modify_lt (f : PB → PB) : ∀ (d : Nat) (b : PB) (d' : Nat), d' < d →
    labelAt (spineModify f b d) d' = labelAt b d' := by
  intro d
  induction d with
  | zero => intro b d' h; omega
  | succ d ih =>
    intro b d' h
    obtain ⟨l, bs, is⟩ := b
    rw [spineModify_succ]
    cases hgl : bs.getLast? with
    | none => rfl
    | some c =>
      cases d' with
      | zero => simp [labelAt, spineGet_zero, PB.label]
      | succ d' =>
        simp only [labelAt]
        rw [spineGet_succ, spineGet_succ, hgl]
        simp only [List.getLast?_append, List.getLast?_singleton, Option.some_or]
        exact ih c d' (by omega)

/-- At and below the modified depth: the result of `f` on the old block. -/
theorem spineGet_modify_add (f : PB → PB) : ∀ (d : Nat) (b : PB) (k : Nat),
    spineGet (spineModify f b d) (d + k) = (spineGet b d).bind (fun c => spineGet (f c) k) := by
  intro d
  induction d with
  | zero => intro b k; rw [spineModify_zero, spineGet_zero, Nat.zero_add]; rfl
  | succ d ih =>
    intro b k
    obtain ⟨l, bs, is⟩ := b
    have e : d + 1 + k = (d + k) + 1 := by omega
    rw [spineModify_succ, spineGet_succ, e]
    cases hgl : bs.getLast? with
    | none => simp only []; rw [spineGet_succ, hgl]; rfl
    | some c =>
      simp only []
      rw [spineGet_succ]
      simp only [List.getLast?_append, List.getLast?_singleton, Option.some_or]
      exact ih c k

theorem spineGet_modify_self (f : PB → PB) (d : Nat) (b : PB) :
    spineGet (spineModify f b d) d = (spineGet b d).map f := by
  have := spineGet_modify_add f d b 0
  rw [Nat.add_zero] at this
  rw [this]
  cases spineGet b d with
  | none => rfl
  | some c => simp [spineGet_zero]

theorem labelAt_modify_self (f : PB → PB) (hf : ∀ c, (f c).label = c.label) (d : Nat) (b : PB) :
    labelAt (spineModify f b d) d = labelAt b d := by
  simp only [labelAt, spineGet_modify_self]
  cases spineGet b d with
  | none => rfl
  | some c => simp [hf]

theorem labelAt_modify_le (f : PB → PB) (hf : ∀ c, (f c).label = c.label) (d : Nat) (b : PB) (d' : Nat) (h : d' ≤ d) :
    labelAt (spineModify f b d) d' = labelAt b d' := by
  rcases Nat.lt_or_ge d' d with h' | h'
  · exact labelAt_modify_lt f d b d' h'
  · have : d' = d := by omega
    subst this; exact labelAt_modify_self f hf d' b

theorem labelAt_zero (b : PB) : labelAt b 0 = some b.label := by simp [labelAt, spineGet_zero]

theorem spineModify_label (f : PB → PB) (hf : ∀ c, (f c).label = c.label) (d : Nat) (b : PB) :
    (spineModify f b d).label = b.label := by
  have := labelAt_modify_le f hf d b 0 (Nat.zero_le _)
  rw [labelAt_zero, labelAt_zero] at this
  exact Option.some.inj this

/-- Above the container the root label is untouched, whatever `f` does. -/
theorem spineModify_label_pos (f : PB → PB) (d : Nat) (hd : 0 < d) (b : PB) :
    (spineModify f b d).label = b.label := by
  have := labelAt_modify_lt f d b 0 hd
  rw [labelAt_zero, labelAt_zero] at this
  exact Option.some.inj this

/-- The function `spineReplaceLast` applies to the container. -/
def replaceLastFn (g : PB → List PB) : PB → PB := fun p => match p with
  | .mk l bs is => match bs.getLast? with
    | some c => .mk l (bs.dropLast ++ g c) is
    | none => .mk l bs is

theorem spineReplaceLast_eq (g : PB → List PB) (root : PB) (d : Nat) :
    spineReplaceLast g root d = spineModify (replaceLastFn g) root d := rfl

theorem replaceLastFn_label (g : PB → List PB) (c : PB) : (replaceLastFn g c).label = c.label := by
  obtain ⟨l, bs, is⟩ := c
  simp only [replaceLastFn]
  split <;> rfl

/-! ### setBlankFlags -/

theorem setBlankFlags_kind (v : Bool) : ∀ (d : Nat) (b : PB) (d' : Nat), d' ≤ d →
    (labelAt (setBlankFlags v b d) d').map (·.kind) = (labelAt b d').map (·.kind) := by
  intro d
  induction d with
  | zero =>
    intro b d' h
    have : d' = 0 := by omega
    subst this
    obtain ⟨l, bs, is⟩ := b
    simp [setBlankFlags, labelAt, spineGet_zero, PB.label]
  | succ d ih =>
    intro b d' h
    obtain ⟨l, bs, is⟩ := b
    simp only [setBlankFlags]
    cases hgl : bs.getLast? with
    | none =>
      simp only []
      cases d' with
      | zero => simp [labelAt, spineGet_zero, PB.label]
      | succ d' => simp [labelAt, spineGet_succ, hgl]
    | some c =>
      simp only []
      cases d' with
      | zero => simp [labelAt, spineGet_zero, PB.label]
      | succ d' =>
        simp only [labelAt]
        rw [spineGet_succ, spineGet_succ, hgl]
        simp only [List.getLast?_append, List.getLast?_singleton, Option.some_or]
        exact ih c d' (by omega)

/-! ### closing a document block -/

theorem closeBlock_doc_kind (x : PExt) (src : Bytes) (e : Int) (b : PB) (h : b.kind = BK.document) :
    ((closeBlock x src e b).headD b).kind = BK.document := by
  obtain ⟨l, bs, is⟩ := b
  have hk : l.kind = 13 := h
  rw [closeBlock]
  split
  · exact h
  · simp only [hk, BK.list, BK.paragraph, BK.setextHeading, BK.indentedCode]
    simp
    rfl

/-! ### the tree invariant -/

structure TreeOK (p : LP) : Prop where
  root : p.root.kind = BK.document
  valid : (spineGet p.root p.depth).isSome

theorem TreeOK.of_tree {p q : LP} (h : tree p = tree q) (hq : TreeOK q) : TreeOK p := by
  simp [tree] at h
  exact ⟨by rw [h.2.1]; exact hq.root, by rw [h.2.1, h.2.2.1]; exact hq.valid⟩

theorem container_label (p : LP) (l : PLabel) (h : labelAt p.root p.depth = some l) : p.container.label = l := by
  simp only [labelAt] at h
  simp only [LP.container]
  cases hs : spineGet p.root p.depth with
  | none => rw [hs] at h; cases h
  | some c => rw [hs] at h; simpa using h

theorem containerKind_of_labelAt (p : LP) (l : PLabel) (h : labelAt p.root p.depth = some l) : p.containerKind = l.kind := by
  simp only [LP.containerKind, PB.kind, container_label p l h]

theorem labelAt_container (p : LP) (h : (spineGet p.root p.depth).isSome) : labelAt p.root p.depth = some p.container.label := by
  simp only [labelAt, LP.container]
  cases hs : spineGet p.root p.depth with
  | none => rw [hs] at h; cases h
  | some c => rfl

theorem containerKind_zero (p : LP) (h : p.depth = 0) : p.containerKind = p.root.kind := by
  simp [LP.containerKind, LP.container, h, spineGet_zero]

/-! ### closeContainer -/

structure CCPost (p p' : LP) : Prop where
  panic : p'.panic = p.panic
  cur : cur p' = cur p
  state : p'.state = p.state
  ok : TreeOK p'
  depth : p'.depth = p.depth - 1
  label : 0 < p.depth → labelAt p'.root p'.depth = labelAt p.root (p.depth - 1)

theorem closeContainer_post (x : PExt) (p : LP) (e : Int) (h : TreeOK p) : CCPost p (p.closeContainer x e) := by
  unfold LP.closeContainer
  by_cases hd : p.depth = 0
  · rw [if_pos (by simp [hd])]
    refine ⟨rfl, rfl, rfl, ⟨closeBlock_doc_kind x _ e _ h.root, ?_⟩, by simp [hd], fun h' => by omega⟩
    show (spineGet _ p.depth).isSome
    rw [hd, spineGet_zero]; rfl
  · have hd' : (p.depth == 0) = false := by simp [hd]
    simp only [hd', Bool.false_eq_true, if_false]
    rw [spineReplaceLast_eq]
    have hv : (spineGet p.root (p.depth - 1)).isSome := spineGet_isSome_of_le p.depth p.root _ (by omega) h.valid
    refine ⟨rfl, rfl, rfl, ⟨?_, ?_⟩, rfl, fun _ => ?_⟩
    · show (spineModify _ p.root (p.depth - 1)).kind = _
      simp only [PB.kind]
      rw [spineModify_label _ (replaceLastFn_label _)]
      exact h.root
    · show (spineGet (spineModify _ p.root (p.depth - 1)) (p.depth - 1)).isSome
      rw [spineGet_modify_self]
      cases hs : spineGet p.root (p.depth - 1) with
      | none => rw [hs] at hv; cases hv
      | some c => rfl
    · show labelAt (spineModify _ p.root (p.depth - 1)) (p.depth - 1) = _
      exact labelAt_modify_self _ (replaceLastFn_label _) _ _

/-! ### closeLastChild, modifyContainer -/

theorem modify_ok (p : LP) (f : PB → PB) (hf : ∀ c, (f c).label = c.label) (h : TreeOK p) :
    TreeOK { p with root := spineModify f p.root p.depth } := by
  refine ⟨?_, ?_⟩
  · show (spineModify f p.root p.depth).kind = _
    simp only [PB.kind]; rw [spineModify_label f hf]; exact h.root
  · show (spineGet (spineModify f p.root p.depth) p.depth).isSome
    rw [spineGet_modify_self]
    cases hs : spineGet p.root p.depth with
    | none => have := h.valid; rw [hs] at this; cases this
    | some c => rfl

theorem closeLastChild_ok (x : PExt) (p : LP) (e : Int) (h : TreeOK p) : TreeOK (p.closeLastChild x e) := by
  unfold LP.closeLastChild
  rw [spineReplaceLast_eq]
  exact modify_ok p _ (replaceLastFn_label _) h

theorem closeLastChild_label (x : PExt) (p : LP) (e : Int) (d' : Nat) (h : d' ≤ p.depth) :
    labelAt (p.closeLastChild x e).root d' = labelAt p.root d' := by
  unfold LP.closeLastChild
  rw [spineReplaceLast_eq]
  exact labelAt_modify_le _ (replaceLastFn_label _) _ _ _ h

theorem modifyContainer_ok (p : LP) (f : PB → PB) (hf : ∀ c, (f c).label = c.label) (h : TreeOK p) :
    TreeOK (p.modifyContainer f) := modify_ok p f hf h

theorem modifyContainer_label (p : LP) (f : PB → PB) (hf : ∀ c, (f c).label = c.label) (d' : Nat) (h : d' ≤ p.depth) :
    labelAt (p.modifyContainer f).root d' = labelAt p.root d' :=
  labelAt_modify_le f hf _ _ _ h

theorem appendInline_ok (p : LP) (t : Tree) (h : TreeOK p) : TreeOK (p.appendInline t) := by
  unfold LP.appendInline
  apply modifyContainer_ok _ _ _ h
  intro c; obtain ⟨l, bs, is⟩ := c; rfl

theorem appendInline_label (p : LP) (t : Tree) (d' : Nat) (h : d' ≤ p.depth) :
    labelAt (p.appendInline t).root d' = labelAt p.root d' := by
  unfold LP.appendInline
  apply modifyContainer_label _ _ _ _ h
  intro c; obtain ⟨l, bs, is⟩ := c; rfl

theorem appendInline_containerKind (p : LP) (t : Tree) (h : TreeOK p) : (p.appendInline t).containerKind = p.containerKind := by
  have h1 := appendInline_label p t p.depth (Nat.le_refl _)
  rw [labelAt_container p h.valid] at h1
  rw [containerKind_of_labelAt (p.appendInline t) _ h1]
  rfl

/-! ### openBlockLoop, openBlock -/

structure OLPost (p p' : LP) : Prop where
  panic : p'.panic = p.panic
  cur : cur p' = cur p
  state : p'.state = p.state
  ok : TreeOK p'
  le : p'.depth ≤ p.depth

theorem doc_canContain (kind : Nat) (h : kind ≠ BK.listItem) : canContain BK.document kind = true := by
  simp only [BK.listItem] at h
  simp [canContain, BK.document, h]

theorem openBlockLoop_post (x : PExt) (kind : Nat) : ∀ (fuel : Nat) (p : LP), TreeOK p →
    (kind ≠ BK.listItem ∨ canContain p.containerKind kind = true) → OLPost p (LP.openBlockLoop x kind fuel p) := by
  intro fuel
  induction fuel with
  | zero => intro p h _; exact ⟨rfl, rfl, rfl, h, Nat.le_refl _⟩
  | succ fuel ih =>
    intro p h hk
    unfold LP.openBlockLoop
    split
    · exact ⟨rfl, rfl, rfl, h, Nat.le_refl _⟩
    · rename_i hcc
      have hkind : kind ≠ BK.listItem := by
        rcases hk with hk | hk
        · exact hk
        · exact absurd hk hcc
      split
      · rename_i hd
        have hd0 : p.depth = 0 := by simpa using hd
        rw [containerKind_zero p hd0, h.root, doc_canContain kind hkind] at hcc
        exact absurd rfl hcc
      · have cc := closeContainer_post x p p.lineStart h
        have r := ih (p.closeContainer x p.lineStart) cc.ok (Or.inl hkind)
        refine ⟨?_, ?_, ?_, r.ok, ?_⟩
        · rw [r.panic, cc.panic]
        · rw [r.cur, cc.cur]
        · rw [r.state, cc.state]
        · have := r.le; have := cc.depth; omega

theorem openBlockLoop_of_canContain (x : PExt) (kind : Nat) (fuel : Nat) (p : LP)
    (h : canContain p.containerKind kind = true) : LP.openBlockLoop x kind fuel p = p := by
  cases fuel with
  | zero => rfl
  | succ fuel => unfold LP.openBlockLoop; rw [if_pos h]

structure OBPost (p p' : LP) (kind : Nat) : Prop where
  panic : p'.panic = p.panic
  cur : cur p' = cur p
  state : p'.state = mm p.state
  ok : TreeOK p'
  ckind : p'.containerKind = kind
  depth : canContain p.containerKind kind = true → p'.depth = p.depth + 1
  label : canContain p.containerKind kind = true → labelAt p'.root p.depth = labelAt p.root p.depth

theorem appendChild_label (child : PB) (c : PB) :
    ((fun b => match b with | PB.mk l bs is => PB.mk l (bs ++ [child]) is) c).label = c.label := by
  obtain ⟨l, bs, is⟩ := c; rfl

theorem openBlock_post (x : PExt) (p : LP) (kind : Nat) (setAttrs : PLabel → PLabel)
    (hattr : ∀ l, (setAttrs l).kind = l.kind) (h : TreeOK p) (hst : p.state ≤ 2)
    (hk : kind ≠ BK.listItem ∨ canContain p.containerKind kind = true) :
    OBPost p (p.openBlock x kind setAttrs) kind := by
  unfold LP.openBlock
  have hs : (p.state == stateDescending || p.state == stateDescendTerminated) = false := by
    simp only [stateDescending, stateDescendTerminated]
    have : p.state ≠ 3 := by omega
    have : p.state ≠ 4 := by omega
    simp [*]
  simp only [hs, Bool.false_eq_true, if_false]
  rw [markMatched_eq]
  let p1 : LP := { p with state := mm p.state }
  have h1 : TreeOK p1 := ⟨h.root, h.valid⟩
  have hk1 : kind ≠ BK.listItem ∨ canContain p1.containerKind kind = true := hk
  have ol := openBlockLoop_post x kind (p1.depth + 1) p1 h1 hk1
  generalize hp2 : LP.openBlockLoop x kind (p1.depth + 1) p1 = p2 at ol
  have hcl := closeLastChild_ok x p2 p2.lineStart ol.ok
  have hcl_label := closeLastChild_label x p2 p2.lineStart
  generalize hp3 : p2.closeLastChild x p2.lineStart = p3 at hcl hcl_label
  have hp3d : p3.depth = p2.depth := by rw [← hp3]; rfl
  have hp3c : cur p3 = cur p2 := by rw [← hp3]; rfl
  have hp3s : p3.state = p2.state := by rw [← hp3]; rfl
  have hp3p : p3.panic = p2.panic := by rw [← hp3]; rfl
  let child : PB := .mk (setAttrs { kind := kind, start := p3.lineStart + p3.i }) [] []
  let f : PB → PB := fun b => match b with | .mk l bs is => .mk l (bs ++ [child]) is
  have hf : ∀ c, (f c).label = c.label := appendChild_label child
  show OBPost p { p3 with root := spineModify f p3.root p3.depth, depth := p3.depth + 1 } kind
  have hget : spineGet (spineModify f p3.root p3.depth) (p3.depth + 1) = some child := by
    rw [spineGet_modify_add]
    cases hs3 : spineGet p3.root p3.depth with
    | none => have := hcl.valid; rw [hs3] at this; cases this
    | some c =>
      obtain ⟨l, bs, is⟩ := c
      show spineGet (PB.mk l (bs ++ [child]) is) 1 = some child
      rw [spineGet_succ]
      simp [spineGet_zero]
  refine ⟨?_, ?_, ?_, ⟨?_, ?_⟩, ?_, ?_, ?_⟩
  · show p3.panic = p.panic; rw [hp3p, ol.panic]
  · show cur p3 = cur p; rw [hp3c, ol.cur]; rfl
  · show p3.state = mm p.state; rw [hp3s, ol.state]
  · show (spineModify f p3.root p3.depth).kind = _
    simp only [PB.kind]; rw [spineModify_label f hf]; exact hcl.root
  · show (spineGet (spineModify f p3.root p3.depth) (p3.depth + 1)).isSome
    rw [hget]; rfl
  · show PB.kind ((spineGet (spineModify f p3.root p3.depth) (p3.depth + 1)).getD _) = kind
    rw [hget]
    show (setAttrs _).kind = kind
    rw [hattr]
  · intro hcc
    have : p2 = p1 := by rw [← hp2]; exact openBlockLoop_of_canContain x kind _ p1 hcc
    show p3.depth + 1 = p.depth + 1
    rw [hp3d, this]
  · intro hcc
    have e2 : p2 = p1 := by rw [← hp2]; exact openBlockLoop_of_canContain x kind _ p1 hcc
    show labelAt (spineModify f p3.root p3.depth) p.depth = _
    have e3 : p3.depth = p.depth := by rw [hp3d, e2]
    rw [e3, labelAt_modify_self f hf, hcl_label p.depth (by rw [e2]; exact Nat.le_refl _), e2]

/-! ### setContainerIndent, endBlock, collectInline -/

structure SCPost (p p' : LP) : Prop where
  panic : p'.panic = p.panic
  cur : cur p' = cur p
  state : p'.state = p.state
  ok : TreeOK p'
  kind : p'.containerKind = p.containerKind
  depth : p'.depth = p.depth

theorem setContainerIndent_post (p : LP) (n : Int) (h : TreeOK p) (h1 : 1 ≤ p.state) (h2 : p.state ≤ 2)
    (hk : p.containerKind = BK.listItem ∨ p.containerKind = BK.fencedCode) : SCPost p (p.setContainerIndent n) := by
  unfold LP.setContainerIndent
  have hs : (p.state == stateOpening || p.state == stateDescending || p.state == stateDescendTerminated) = false := by
    simp only [stateOpening, stateDescending, stateDescendTerminated]
    have : p.state ≠ 0 := by omega
    have : p.state ≠ 3 := by omega
    have : p.state ≠ 4 := by omega
    simp [*]
  simp only [hs, Bool.false_eq_true, if_false]
  have hk' : (p.containerKind != BK.listItem && p.containerKind != BK.fencedCode) = false := by
    rcases hk with hk | hk <;> simp [hk]
  simp only [hk', Bool.false_eq_true, if_false]
  have hf : ∀ c : PB, (PB.setLabel (fun l => { l with indent := n }) c).kind = c.kind := by
    intro c; obtain ⟨l, bs, is⟩ := c; rfl
  have hv := h.valid
  cases hsg : spineGet p.root p.depth with
  | none => rw [hsg] at hv; cases hv
  | some c =>
    refine ⟨rfl, rfl, rfl, ⟨?_, ?_⟩, ?_, rfl⟩
    · show (spineModify _ p.root p.depth).kind = _
      by_cases hd : p.depth = 0
      · rw [hd, spineModify_zero, hf]; exact h.root
      · simp only [PB.kind]; rw [spineModify_label_pos _ _ (by omega)]; exact h.root
    · show (spineGet (spineModify _ p.root p.depth) p.depth).isSome
      rw [spineGet_modify_self, hsg]; rfl
    · show PB.kind ((spineGet (spineModify _ p.root p.depth) p.depth).getD _) = PB.kind ((spineGet p.root p.depth).getD _)
      rw [spineGet_modify_self, hsg]
      simp [hf]

theorem endBlock_post (x : PExt) (p : LP) (h : TreeOK p) (hst : p.state ≤ 2) :
    CCPost { p with state := mm p.state } (p.endBlock x) := by
  unfold LP.endBlock
  have hs : (p.state == stateDescending || p.state == stateDescendTerminated) = false := by
    simp only [stateDescending, stateDescendTerminated]
    have : p.state ≠ 3 := by omega
    have : p.state ≠ 4 := by omega
    simp [*]
  simp only [hs, Bool.false_eq_true, if_false]
  rw [markMatched_eq]
  exact closeContainer_post x _ _ ⟨h.root, h.valid⟩

end CM.Proofs.BT
