import CM.Proofs.QuoteGPsi
import CM.Proofs.QuoteStream
/-
C09 (with link reference definitions): the hypothesis `PC` of the simulation of `onCloseParagraph` (`closePara_good`)
from the one-sided invariant `GL` of the bare side and the relation `IR` between the inline children, in the concrete
environments `envOf … D c s s'` of the block-quote simulation.
-/
namespace CM.Proofs.Quote
open CM CM.Model CM.Gen CM.Proofs.BT CM.Proofs.Nest

theorem L2.mem_right {α β : Type} {R : α → β → Prop} {as : List α} {bs : List β} (h : L2 R as bs) {b : β} (hb : b ∈ bs) :
    ∃ a ∈ as, R a b := by
  induction h with
  | nil => cases hb
  | cons r _ ih =>
    rcases List.mem_cons.mp hb with rfl | hb
    · exact ⟨_, List.mem_cons_self, r⟩
    · obtain ⟨a, ha, r2⟩ := ih hb
      exact ⟨a, List.mem_cons_of_mem _ ha, r2⟩

theorem L2.mem_left {α β : Type} {R : α → β → Prop} {as : List α} {bs : List β} (h : L2 R as bs) {a : α} (ha : a ∈ as) :
    ∃ b ∈ bs, R a b := by
  induction h with
  | nil => cases ha
  | cons r _ ih =>
    rcases List.mem_cons.mp ha with rfl | ha
    · exact ⟨_, List.mem_cons_self, r⟩
    · obtain ⟨b, hb, r2⟩ := ih ha
      exact ⟨b, List.mem_cons_of_mem _ hb, r2⟩

section env
variable {DR : List Tree → List Tree → Prop} {D : Bytes} {c s s' : Nat} {done : List Tree}

/-- Corresponding inline children, with the exact position of the image. -/
structure XR (DR : List Tree → List Tree → Prop) (D : Bytes) (c s s' : Nat) (done : List Tree) (t t' : Tree) : Prop where
  nr : NR (envOf DR D c s s' done) t t'
  seg : SegOK ((D.drop c).take s) t
  start : t'.label.start = (psiS D (t.label.start.toNat + c) : Nat)
  stop : t'.label.stop = (psiE D (t.label.stop.toNat + c) : Nat)
  lo' : 0 ≤ t'.label.start
  hi' : t'.label.stop ≤ (((quote D).take s').length : Int)

theorem getD_of_take_eq {l l' : Bytes} {a a' n o : Nat} (h : (l'.drop a').take n = (l.drop a).take n) (ho : o < n) :
    l'.getD (a' + o) 0 = l.getD (a + o) 0 := by
  have := congrArg (fun x => x.getD o 0) h
  simp only [List.getD_eq_getElem?_getD, List.getElem?_take, List.getElem?_drop, ho, if_true] at this ⊢
  exact this

/-- One pair of inline children. -/
theorem xr_of {t t' : Tree} (hir : IR (envOf DR D c s s' done) t t') (hseg : SegOK ((D.drop c).take s) t) :
    XR DR D c s s' done t t' := by
  have hl := hir.label
  obtain ⟨h1, h2, h3, h4, h5, h6⟩ := hseg
  have hsl : ((D.drop c).take s).length ≤ s := by rw [List.length_take]; exact Nat.min_le_left _ _
  -- no line feed inside, in terms of `D`
  have hno : NoLFIn D (t.label.start.toNat + c) ((t.label.stop - t.label.start).toNat - 1) := by
    intro j ha hb hlf
    have hj : j - c < s := by omega
    have := (h5 (j - c) (by omega) (by omega)).2.2
    rw [getD_take_drop D c s (j - c) hj, show c + (j - c) = j by omega] at this
    have := this hlf
    omega
  obtain ⟨hst, hpr⟩ := prabs_exact (D := D) (c := c) hl.start hl.stop h3 hl.len hno
  have hE := psiE_end D (t.label.start.toNat + c) (t.label.stop - t.label.start).toNat (by omega) hno
  have hlen := hl.len
  have hu' : isUnparsed t' = true := by
    unfold isUnparsed at h1 ⊢
    rw [hir.isI]; exact h1
  refine ⟨⟨h1, hu', hlen, ?_, ?_, hpr⟩, ⟨h1, h2, h3, h4, h5, h6⟩, hst, ?_, hl.lo', hl.hi'⟩
  · intro o ho
    exact getD_of_take_eq hl.bytes (by omega)
  · intro o ho
    have := (h5 (t.label.start.toNat + o) (by omega) (by omega)).1
    exact this
  · have e : t.label.stop.toNat + c = (t.label.start.toNat + c) + (t.label.stop - t.label.start).toNat := by omega
    rw [e, hE]
    omega

theorem xr_list {bd : Int} {is is' : List Tree} (hg : GL ((D.drop c).take s) bd is)
    (hir : L2 (IR (envOf DR D c s s' done)) is is') : L2 (XR DR D c s s' done) is is' :=
  hir.mono fun a b ha _ r => xr_of r (hg.2 a ha).1

/-- **`PC` from the one-sided invariant.** -/
theorem pc_of_GL (hcs : c + s ≤ D.length) (hs' : s' ≤ psiE D (c + s)) {bd : Int} {is is' : List Tree}
    (hg : GL ((D.drop c).take s) bd is) (hir : L2 (IR (envOf DR D c s s' done)) is is') :
    PC (envOf DR D c s s' done) is is' := by
  have hx := xr_list hg hir
  have hsrc : ((D.drop c).take s).length = s := by rw [List.length_take, List.length_drop]; omega
  -- facts about one image
  have himg : ∀ t t', XR DR D c s s' done t t' →
      RDS.NodeOK ((quote D).take s') t' ∧ 0 ≤ t'.label.start ∧ EndLF ((quote D).take s') t' := by
    intro t t' x
    obtain ⟨h1, h2, h3, h4, h5, h6⟩ := x.seg
    have hlen := x.nr.len
    have hb := x.nr.bytes
    have hlo := x.lo'
    refine ⟨⟨by omega, x.hi', fun hi => ?_, fun _ => ?_⟩, hlo, ?_⟩
    · rw [unp_not_indent x.nr.unp'] at hi; cases hi
    · intro j ha hb2
      have hbj := hb (j - t'.label.start.toNat) (by omega)
      rw [show t'.label.start.toNat + (j - t'.label.start.toNat) = j by omega] at hbj
      have hD := h5 (t.label.start.toNat + (j - t'.label.start.toNat)) (by omega) (by omega)
      show (((quote D).take s').getD j 0 = LF → _) ∧ (((quote D).take s').getD j 0 = CR → _)
      have hbj' : ((quote D).take s').getD j 0 = ((D.drop c).take s).getD (t.label.start.toNat + (j - t'.label.start.toNat)) 0 := hbj
      rw [hbj']
      refine ⟨fun hlf => ?_, fun hcr => absurd hcr hD.2.1⟩
      have := hD.2.2 hlf
      omega
    · unfold EndLF
      have hbl := hb ((t.label.stop - t.label.start).toNat - 1) (by omega)
      have e1 : t'.label.start.toNat + ((t.label.stop - t.label.start).toNat - 1) = t'.label.stop.toNat - 1 := by omega
      have e2 : t.label.start.toNat + ((t.label.stop - t.label.start).toNat - 1) = t.label.stop.toNat - 1 := by omega
      rw [e1, e2] at hbl
      rcases h6 with h6 | h6
      · left
        have hbl' : ((quote D).take s').getD (t'.label.stop.toNat - 1) 0 = ((D.drop c).take s).getD (t.label.stop.toNat - 1) 0 := hbl
        rw [hbl']; exact h6
      · right
        have hst : t.label.stop.toNat + c = c + s := by omega
        have := x.stop
        rw [hst] at this
        have hl2 : ((quote D).take s').length ≤ s' := by rw [List.length_take]; exact Nat.min_le_left _ _
        show (((quote D).take s').length : Int) ≤ t'.label.stop
        omega
  refine ⟨hg.ctx, ⟨?_, fun t' ht' => ?_, fun t' ht' => ?_⟩, hx.mono fun _ _ _ _ x => x.nr, fun t ht => (hg.2 t ht).1.2.2.2.2.2,
    fun t' ht' => ?_⟩
  · -- sorted images
    have hsort := hg.1
    unfold SortedSpans at hsort ⊢
    clear hg hir
    induction hx with
    | nil => exact List.Pairwise.nil
    | cons x _ ih =>
      rename_i a a' as as' xs
      rw [List.pairwise_cons] at hsort ⊢
      refine ⟨fun u' hu' => ?_, ih hsort.2⟩
      obtain ⟨u, hu, xu⟩ := L2.mem_right xs hu'
      have h1 := hsort.1 u hu
      obtain ⟨_, a2, a3, _⟩ := x.seg
      obtain ⟨_, u2, _⟩ := xu.seg
      have m1 := psiE_le_psiS D (a.label.stop.toNat + c)
      have m2 := psiS_mono D (show a.label.stop.toNat + c ≤ u.label.start.toNat + c by omega)
      rw [x.stop, xu.start]
      omega
  · obtain ⟨t, _, x⟩ := L2.mem_right hx ht'
    exact (himg t t' x).1
  · obtain ⟨t, _, x⟩ := L2.mem_right hx ht'
    exact (himg t t' x).2.1
  · obtain ⟨t, _, x⟩ := L2.mem_right hx ht'
    exact (himg t t' x).2.2

end env

/-! ### the relation between the inline children of corresponding link reference definitions -/

/-- `DRq D`: the children (label, destination, title) are `KidR`-related in the environment of some root offset `c`
    (same kind and normalised label, corresponding ends, the same concatenated text of their own children), up to the
    re-basing of the positions of the bare side that happens when root blocks are delivered. -/
inductive DRq (D : Bytes) : List Tree → List Tree → Prop
  | base (c s s' : Nat) {ks ks' : List Tree} : L2 (KidR (envOf (fun _ _ => True) D c s s' [])) ks ks' → DRq D ks ks'
  | shift (m : Nat) {ks ks' : List Tree} : DRq D ks ks' → DRq D (offsetTrees (-(m : Int)) ks) ks'

theorem DRq_shift (D : Bytes) : DRShift (DRq D) := fun n _ _ h => .shift n h

theorem DRq_intro (D : Bytes) (c s s' : Nat) (done : List Tree) : DRIntro (envOf (DRq D) D c s s' done) := by
  intro ks ks' h
  exact .base c s s' (h.mono fun _ _ _ _ r => ⟨r.label, r.start, r.stop, r.text⟩)

/-- **What the block-quote simulation assumes about the one-sided invariant holds for `GL`.** -/
theorem gok_envOf (x : PExt) (D : Bytes) (c s s' : Nat) (done : List Tree) (bd : Int) (hcs : c + s ≤ D.length)
    (hs' : s' ≤ psiE D (c + s)) : GOK x (envOf (DRq D) D c s s' done) (GL ((D.drop c).take s) bd) := by
  refine ⟨GL_nil _ _, ?_, ?_⟩
  · intro l l' bs bs' is is' hl _ hk hbs hir hg
    apply closePara_good x (DRq_intro D c s s' done) hl (Or.inl hk) hbs hir (pc_of_GL hcs hs' hg hir)
    intro hs
    rw [hk] at hs; cases hs
  · intro l bs is hk hg hbs
    exact GL_keep x _ bd l bs is hk hg hbs

end CM.Proofs.Quote
