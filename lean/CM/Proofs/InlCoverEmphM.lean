import CM.Proofs.InlCoverEmph
/-
C03, inline half — `processEmphasis` keeps the span invariant and the coverage of needed bytes.
-/
namespace CM.Proofs.InlH
open CM CM.Model CM.Model.Inl CM.Gen CM.Spec
open Std.Do

set_option mvcgen.warning false

set_option hygiene false in
/-- `emph_setup` with the coverage part of the invariant -/
macro "emph_setupC" : tactic =>
  `(tactic| (
    obtain ⟨hold, hnn, hkeep⟩ := ‹(SP _ _ _ _ _ _ _ ∧ _ ∧ _ ∧ _ ∧ _) ∧ _ ∧ _›
    obtain ⟨hsp, hbc, hob, hobsz, hpre⟩ := hold
    have hlt14 := openersBottomIndex_lt _ _ ‹openersBottomIndex _ = some _›
    obtain ⟨hs1, hcur0, hfound, -⟩ := ‹_ = _ ∧ _ ≤ _ ∧ (_ = true → _) ∧ _›
    obtain ⟨hs2, hoi⟩ := ‹_ = _ ∧ (_ : Int) ≤ _›
    subst hs2
    subst hs1
    have hge := ‹(_ : Int) ≥ _›
    have hnf := ‹¬(!_) = true›
    simp -failIfUnchanged +zetaDelta only [] at *
    have hcur := hfound (by simpa using hnf)
    have hobp := hob _ (by rw [hobsz]; exact hlt14)))

set_option maxHeartbeats 400000 in
theorem processEmphasis_specC (c : ICtx) (lo hi : Int) (x : Option Nat) (b p : Nat) (F : Int) (s0 : IState) :
    ⦃fun s => ⌜s = s0 ∧ SP lo hi x b p F s ∧ StkNN c s⌝⦄ Inl.processEmphasis b
    ⦃⇓? _ s => ⌜(SP lo hi x b p F s ∧ s.stack = s0.stack.extract 0 b) ∧ StkNN c s ∧ Keep c s0.nodes s.nodes⌝⦄ := by
  mvcgen [Inl.processEmphasis, nodeLen, getNode, modifyNode, delStack, removeNode, setParent,
    -processEmphasis_spec, -processEmphasis_specS, -delStack_spec, -delStack_specS, -removeNode_spec, -removeNode_specS]
  case inv1 =>
    exact PostCond.mayThrow (fun (q : _ × (Nat × Array Nat × Bool)) s =>
      ⌜(SP lo hi x b p F s ∧ b ≤ q.2.1 ∧ (∀ i, i < q.2.2.1.size → b ≤ q.2.2.1[i]!) ∧ q.2.2.1.size = 14 ∧
        s.stack.extract 0 b = s0.stack.extract 0 b) ∧ StkNN c s ∧ Keep c s0.nodes s.nodes⌝)
  case inv2 =>
    have s' : IState := ‹IState›
    exact PostCond.mayThrow (fun (q : _ × (Nat × Bool)) s =>
      ⌜s = s' ∧ (‹Nat × Array Nat × Bool›).1 ≤ q.2.1 ∧ (q.2.2 = true → q.2.1 < (‹Array DelimE›).size) ∧
        (q.1.suffix ≠ [] → q.2.2 = false)⌝)
  case inv3 =>
    have s' : IState := ‹IState›
    exact PostCond.mayThrow (fun (q : _ × Int) s =>
      ⌜s = s' ∧ q.2 ≤ ((‹Nat × Bool›).1 : Int) - 1⌝)
  inl_norm
  -- the arithmetic of the two search loops
  all_goals (try (simp -failIfUnchanged +zetaDelta only [] at *
                  first
                   | omega
                   | (refine ⟨And.left ‹_ = _ ∧ _›, ?_, ?_, ?_⟩ <;> (try intro _) <;> (try simp_all) <;> omega)
                   | (refine ⟨And.left ‹_ = _ ∧ _›, ?_⟩; omega)
                   | (refine ⟨trivial, ?_, ?_, ?_⟩ <;> (try intro _) <;> (try simp_all) <;> omega)
                   | (refine ⟨trivial, ?_⟩; omega)))
  all_goals (try (exact fun h => h))
  all_goals (try (exact ExceptConds.entails.refl _))
  case vc5 =>
    obtain ⟨⟨h1, h2, h3, h4, h5⟩, hnn, hkeep⟩ := ‹(SP _ _ _ _ _ _ _ ∧ _ ∧ _ ∧ _ ∧ _) ∧ _ ∧ _›
    obtain ⟨rfl, hc, -⟩ := ‹_ = _ ∧ _ ≤ _ ∧ _›
    simp -failIfUnchanged +zetaDelta only [] at *
    exact ⟨⟨h1, by omega, h3, h4, h5⟩, hnn, hkeep⟩
  case vc10 =>
    emph_setupC
    refine And.left (emph_wrap_pre' hsp _ _ ?_ ?_ hcur _ _)
    all_goals (try (first | omega | rfl))
  case vc11 =>
    emph_setupC
    refine And.left (And.right (emph_wrap_pre' hsp _ _ ?_ ?_ hcur _ _))
    all_goals (try (first | omega | rfl))
  case vc12 =>
    emph_setupC
    simpa using hsp.2
  case vc13 =>
    emph_setupC
    refine And.right (And.right (And.right (emph_wrap_pre' hsp _ _ ?_ ?_ hcur _ _)))
    all_goals (try (first | omega | rfl))
  case vc110 =>
    obtain ⟨rfl, hsp, hnn⟩ := ‹_ = s0 ∧ _›
    simp -failIfUnchanged +zetaDelta only [] at *
    refine ⟨⟨hsp, Nat.le_refl _, fun i hi => ?_, by simp [openersBottomCount], trivial⟩, hnn, Keep.refl _ _⟩
    rw [getElem!_pos _ i hi]; simp
  case vc114 =>
    obtain ⟨⟨hsp, -, -, -, hpre⟩, hnn, hkeep⟩ := ‹(SP _ _ _ _ _ _ _ ∧ _ ∧ _ ∧ _ ∧ _) ∧ _ ∧ _›
    have hbs := ‹¬(_ || _ || _) = true›
    simp only [Bool.or_eq_true, decide_eq_true_eq, not_or, Nat.not_lt] at hbs
    refine ⟨⟨hsp.delStack b _ (Nat.le_refl _) hbs.1.1, ?_⟩, hnn.delSt _ _, hkeep⟩
    rw [← hpre]
    simp
  case vc105 =>
    obtain ⟨⟨hsp, hbc, hob, hobsz, hpre⟩, hnn, hkeep⟩ := ‹(SP _ _ _ _ _ _ _ ∧ _ ∧ _ ∧ _ ∧ _) ∧ _ ∧ _›
    obtain ⟨hs1, hcur0, hfound, -⟩ := ‹_ = _ ∧ _ ≤ _ ∧ (_ = true → _) ∧ _›
    obtain ⟨hs2, hoi⟩ := ‹_ = _ ∧ (_ : Int) ≤ _›
    subst hs2
    subst hs1
    simp -failIfUnchanged +zetaDelta only [] at *
    exact ⟨⟨hsp, by omega, ob_set _ _ _ _ hob (by omega), by simpa using hobsz, hpre⟩, hnn, hkeep⟩
  case vc104 =>
    obtain ⟨⟨hsp, hbc, hob, hobsz, hpre⟩, hnn, hkeep⟩ := ‹(SP _ _ _ _ _ _ _ ∧ _ ∧ _ ∧ _ ∧ _) ∧ _ ∧ _›
    obtain ⟨hs1, hcur0, hfound, -⟩ := ‹_ = _ ∧ _ ≤ _ ∧ (_ = true → _) ∧ _›
    obtain ⟨hs2, hoi⟩ := ‹_ = _ ∧ (_ : Int) ≤ _›
    subst hs2
    subst hs1
    have hbs := ‹¬(_ || _ || _) = true›
    simp only [Bool.or_eq_true, decide_eq_true_eq, not_or, Nat.not_lt] at hbs
    simp -failIfUnchanged +zetaDelta only [] at *
    refine ⟨⟨hsp.delStack _ _ (by omega) (by omega), by omega, ob_set _ _ _ _ hob (by omega), by simpa using hobsz, ?_⟩,
      hnn.delSt _ _, hkeep⟩
    rw [extract_prefix _ _ _ _ (by omega) (by omega)]; exact hpre
  case vc100 =>
    emph_setupC
    obtain ⟨-, h3n, h3st, -, -, h3s, h3p⟩ := ‹_ = _ ∧ _ = wrapNodes _ _ _ _ _ _ _ _ ∧ _›
    have hbs := ‹¬(_ || _ || _) = true›
    simp only [Bool.or_eq_true, decide_eq_true_eq, not_or, Nat.not_lt] at hbs
    refine ⟨⟨emph_fin_nn hsp _ _ ?_ ?_ hcur _ _ ⟨h3n, h3s, h3p⟩ h3st ‹_› ‹_›, by omega,
      ob_map _ _ _ hob (by omega), by simpa using hobsz, ?_⟩,
      emph_nn_nn hsp hnn _ _ ?_ ?_ hcur _ _ ⟨h3n, h3s, h3p⟩ h3st,
      hkeep.trans (emph_keep_nn hsp hnn _ _ ?_ ?_ hcur _ _ ⟨h3n, h3s, h3p⟩ h3st)⟩
    any_goals omega
    rw [extract_prefix _ _ _ _ (by omega) (by omega), h3st]; exact hpre
  case vc74 =>
    emph_setupC
    obtain ⟨-, h3n, h3st, -, -, h3s, h3p⟩ := ‹_ = _ ∧ _ = wrapNodes _ _ _ _ _ _ _ _ ∧ _›
    simp only [Bool.or_eq_true, decide_eq_true_eq, not_or, Nat.not_lt] at *
    refine ⟨⟨emph_fin_on hsp _ _ ?_ ?_ hcur _ _ ⟨h3n, h3s, h3p⟩ h3st _ ‹_› ‹_›, by omega,
      ob_map _ _ _ hob (by omega), by simpa using hobsz, ?_⟩,
      emph_nn_on hsp hnn _ _ ?_ ?_ hcur _ _ ⟨h3n, h3s, h3p⟩ h3st _ _ _,
      hkeep.trans (emph_keep_on hsp hnn _ _ ?_ ?_ hcur _ _ ⟨h3n, h3s, h3p⟩ h3st _)⟩
    any_goals omega
    rw [extract_prefix _ _ _ _ (by omega) (by omega), extract_prefix _ _ _ _ (by omega) (by omega), h3st]; exact hpre
  case vc95 =>
    emph_setupC
    obtain ⟨-, h3n, h3st, -, -, h3s, h3p⟩ := ‹_ = _ ∧ _ = wrapNodes _ _ _ _ _ _ _ _ ∧ _›
    simp only [Bool.or_eq_true, decide_eq_true_eq, not_or, Nat.not_lt] at *
    refine ⟨⟨emph_fin_nc hsp _ _ ?_ ?_ hcur _ _ ⟨h3n, h3s, h3p⟩ h3st _ ‹_› ‹_›, by omega,
      ob_map _ _ _ hob (by omega), by simpa using hobsz, ?_⟩,
      emph_nn_nc hsp hnn _ _ ?_ ?_ hcur _ _ ⟨h3n, h3s, h3p⟩ h3st _ _ _,
      hkeep.trans (emph_keep_nc hsp hnn _ _ ?_ ?_ hcur _ _ ⟨h3n, h3s, h3p⟩ h3st _)⟩
    any_goals omega
    rw [extract_prefix _ _ _ _ (by omega) (by omega), extract_prefix _ _ _ _ (by omega) (by omega), h3st]; exact hpre
  case vc69 =>
    emph_setupC
    obtain ⟨-, h3n, h3st, -, -, h3s, h3p⟩ := ‹_ = _ ∧ _ = wrapNodes _ _ _ _ _ _ _ _ ∧ _›
    simp only [Bool.or_eq_true, decide_eq_true_eq, not_or, Nat.not_lt] at *
    refine ⟨⟨emph_fin_oc hsp _ _ ?_ ?_ hcur _ _ ⟨h3n, h3s, h3p⟩ h3st _ ‹_› _ ?_ _ ‹_›, by omega,
      ob_map _ _ _ hob (by omega), by simpa using hobsz, ?_⟩,
      emph_nn_oc hsp hnn _ _ ?_ ?_ hcur _ _ ⟨h3n, h3s, h3p⟩ h3st _ _ _ _ _ _,
      hkeep.trans (emph_keep_oc hsp hnn _ _ ?_ ?_ hcur _ _ ⟨h3n, h3s, h3p⟩ h3st _ _)⟩
    any_goals omega
    rw [extract_prefix _ _ _ _ (by omega) (by omega), extract_prefix _ _ _ _ (by omega) (by omega),
      extract_prefix _ _ _ _ (by omega) (by omega), h3st]
    exact hpre

end CM.Proofs.InlH
