import CM.Proofs.ItemStep
import CM.Proofs.QuoteGShift
/-
C09 (list-item half): the bookkeeping of the stream machine (port of `QuoteStream`): a root block is cut off on the bare
side (`rootR_cutI`), the relation when the bare side has no blocks (`rebase_nilI`), the roots already delivered (`DoneI`).
-/
namespace CM.Proofs.Item
open CM CM.Model CM.Gen CM.Proofs.BT CM.Proofs.BSp CM.Proofs.Quote CM.Proofs.Nest

theorem prabsK_shift (k : Nat) (D : Bytes) (c n : Nat) (a a' : Int) (hn : (n : Int) ≤ a) (h : PRabsK k D c a a') :
    PRabsK k D (c + n) (a - n) a' := by
  obtain ⟨h0, hx⟩ := h
  refine ⟨by omega, ?_⟩
  have e : (a - (n : Int)).toNat + (c + n) = a.toNat + c := by omega
  rw [e]
  exact hx

theorem envOfI_shift (DR : List Tree → List Tree → Prop) (hDR : DRShift DR) (m : Bytes) (N : Nat) (D : Bytes) (c i s' n : Nat)
    (done done2 : List Tree) :
    Env.Shift (envOfI DR m N D c i s' done) (envOfI DR m N D (c + n) (i - n) s' done2) n :=
  ⟨fun a a' hn h => prabsK_shift _ D c n a a' hn h,
   by show (D.drop (c + n)).take (i - n) = ((D.drop c).take i).drop n
      rw [take_drop_comm, List.drop_drop],
   rfl, fun is is' h => hDR n is is' h⟩

/-- The relation when the bare side has no blocks does not depend on the coordinates of the bare side. -/
theorem rebase_nilI {F : Nest.Frame} {E E2 : Env} {P P' Q : PB} (h : Nest.RootR F E P Q) (hb : P.blocks = []) (hb' : P'.blocks = [])
    (hk : P'.label.kind = BK.document) (ho : P'.label.stop < 0) (hd : E2.done = E.done) : Nest.RootR F E2 P' Q := by
  refine Wr.mono h fun Qb ht => ?_
  obtain ⟨pre, bs', e1, hpre, hr⟩ := ht.kids
  rw [hb] at hr
  cases hr
  exact ⟨hk, ho, ht.qlab, ht.qinl, pre, [], e1, ⟨hpre.1, by rw [hd]; exact hpre.2⟩, by rw [hb']; exact .nil⟩

/-- **A root block is cut off on the bare side.** Its image moves to the delivered part of the item; the pending
    blocks are re-based. -/
theorem rootR_cutI (F : Nest.Frame) (DR : List Tree → List Tree → Prop) (hDR : DRShift DR) (m : Bytes) (N : Nat) (D : Bytes)
    (c i s' : Nat) (done : List Tree)
    (k : PB) (rest : List PB) (P Q : PB) (hP : P.blocks = k :: rest) (h : Nest.RootR F (envOfI DR m N D c i s' done) P Q)
    (hk : 0 ≤ k.label.stop) {po : Bool} {lo e : Int} (hsp : PBSpansL QT po lo e (k :: rest)) :
    ∃ k', BR (envOfI DR m N D c i s' done) k k' ∧
      Nest.RootR F (envOfI DR m N D (c + k.label.stop.toNat) (i - k.label.stop.toNat) s' (done ++ [pbToTree k']))
        (docRoot (offsetPBs (-(k.label.stop.toNat : Int)) rest)) Q := by
  unfold Nest.RootR at h ⊢
  generalize F.d = n at h ⊢
  induction h with
  | step h1 h2 _ ih =>
    obtain ⟨k', hk', hw⟩ := ih
    exact ⟨k', hk', .step h1 h2 hw⟩
  | base ht =>
    obtain ⟨pre, bs', e1, hpre, hr⟩ := ht.kids
    rw [hP] at hr
    cases hr with
    | cons rk rrest =>
      rename_i k' rest'
      refine ⟨k', rk, .base ?_⟩
      rw [PBSpansL_cons] at hsp
      obtain ⟨s1, s2, s3⟩ := hsp
      have hb := PBSpans_closed_bounds s1 hk
      have hn : ((k.label.stop.toNat : Nat) : Int) = k.label.stop := Int.toNat_of_nonneg hk
      have hsh := envOfI_shift DR hDR m N D c i s' k.label.stop.toNat done (done ++ [pbToTree k'])
      refine ⟨rfl, by show (-1 : Int) < 0; decide, ht.qlab, ht.qinl, pre ++ [k'], rest', ?_, ⟨?_, ?_⟩, ?_⟩
      · rw [e1]; simp
      · intro b hb'
        rcases List.mem_append.mp hb' with hb' | hb'
        · exact hpre.1 b hb'
        · simp only [List.mem_singleton] at hb'
          subst hb'
          have := rk.label.openIff
          by_cases h0 : b.label.stop < 0
          · have := this.mp h0; omega
          · omega
      · show (pre ++ [k']).map pbToTree = done ++ [pbToTree k']
        rw [List.map_append, hpre.2]
        rfl
      · show L2 (BR _) (offsetPBs (-(k.label.stop.toNat : Int)) rest) rest'
        exact BRs.offset hsh rest rest' rrest s3 (by omega)

/-! ### the roots already delivered -/

/-- The trees `done` of the delivered part of the item: the marker, then blocks related to the delivered roots. -/
def DoneI (I : IP) (DR : List Tree → List Tree → Prop) (D : Bytes) (acc : List Root) (done : List Tree) : Prop :=
  ∃ ks : List PB, markerTree I.m.length :: ks.map pbToTree = done ∧
    L2 (fun (r : Root) k => BR (envAtI DR I.m I.N D r.startOffset) r.block k) acc.reverse ks

theorem DoneI.nil (I : IP) (DR : List Tree → List Tree → Prop) (D : Bytes) : DoneI I DR D [] [markerTree I.m.length] :=
  ⟨[], rfl, .nil⟩

theorem DoneI.snoc {I : IP} {DR : List Tree → List Tree → Prop} {D : Bytes} {acc : List Root} {done : List Tree}
    (h : DoneI I DR D acc done) (r : Root) (k' : PB) (hr : BR (envAtI DR I.m I.N D r.startOffset) r.block k') :
    DoneI I DR D (r :: acc) (done ++ [pbToTree k']) := by
  obtain ⟨ks, e, hl⟩ := h
  refine ⟨ks ++ [k'], by rw [List.map_append, ← e]; rfl, ?_⟩
  rw [List.reverse_cons]
  exact hl.concat hr

end CM.Proofs.Item
