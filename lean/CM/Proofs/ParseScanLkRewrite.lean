import CM.Proofs.InlSpanRewrite
import CM.Proofs.ParseScanLkExport

/-
C02, inline half, with `LinkScan2` / `TokScan2` — `rewriteE`.
(Generated from `InlSpanRewrite.lean`: the same proofs with `LinkScan2` in the place of `LinkScan`.)
-/

namespace CM.Proofs.InlH2
open CM CM.Model CM.Model.Inl CM.Gen CM.Spec CM.Proofs CM.Proofs.InlH
open Std.Do

set_option mvcgen.warning false

/-- What the inline phase needs to know about a container with Unparsed children (`InlH.ContOK` with `LinkScan2`). -/
def ContOK2 (x : IExt) (src : Bytes) (srcA : Array UInt8) (matchRef : Bytes → Bool) (u : Tree) : Prop :=
  0 ≤ u.label.start ∧ TokScan2 (inlCtx x src srcA matchRef u.children) u.label.stop ∧
    LinkScan2 (inlCtx x src srcA matchRef u.children) u.label.stop

/-- every container with Unparsed children in `t` is `ContOK2` -/
def ContsOK2 (x : IExt) (src : Bytes) (srcA : Array UInt8) (matchRef : Bytes → Bool) (t : Tree) : Prop :=
  ∀ u ∈ T.nodes t, u.label.isBlock = true → hasUnparsed u.children = true → ContOK2 x src srcA matchRef u

theorem ContsOK.to2 {x : IExt} {src : Bytes} {srcA : Array UInt8} {matchRef : Bytes → Bool} {t : Tree}
    (h : ContsOK x src srcA matchRef t) : ContsOK2 x src srcA matchRef t :=
  fun u hu hb hun => ⟨(h u hu hb hun).1, TokScan.to2 (h u hu hb hun).2.1, LinkScan.to2 (h u hu hb hun).2.2⟩

theorem ContsOK2.child {x : IExt} {src : Bytes} {srcA : Array UInt8} {matchRef : Bytes → Bool} {l : Label}
    {cs : List Tree} (h : ContsOK2 x src srcA matchRef (.node l cs)) {c : Tree} (hc : c ∈ cs) :
    ContsOK2 x src srcA matchRef c := by
  intro u hu
  exact h u (by rw [T.nodes]; exact List.mem_cons_of_mem _ (nodesL_of_mem hc hu))

mutual
/-- `rewriteE` keeps the label of the root and the span discipline. -/
theorem rewriteE_WFT (x : IExt) (src : Bytes) (srcA : Array UInt8) (matchRef : Bytes → Bool) :
    (t : Tree) → WFT t → ContsOK2 x src srcA matchRef t → ∀ t', rewriteE x src srcA matchRef t = .ok t' →
      WFT t' ∧ t'.label = t.label
  | .node l cs, hw, hc, t', h => by
    rw [rewriteE] at h
    split at h
    · cases h; exact ⟨hw, rfl⟩
    · rename_i hb
      have hb' : l.isBlock = true := by simpa using hb
      split at h
      · rename_i hu
        split at h
        · rename_i kids hk
          cases h
          obtain ⟨c0, cT, cS⟩ := hc (.node l cs) (by rw [T.nodes]; exact List.mem_cons_self ..) hb' hu
          rw [WFT_iff] at hw ⊢
          exact ⟨⟨hw.1, parseInlines_spans x src srcA matchRef l.start l.stop cs c0 hw.2 cT cS kids hk⟩, rfl⟩
        · cases h
      · split at h
        · rename_i kids hk
          cases h
          rw [WFT_iff] at hw ⊢
          exact ⟨⟨hw.1, rewriteForestE_WFL x src srcA matchRef cs l.start l.stop hw.2
            (fun c hc' => hc.child hc') kids hk⟩, rfl⟩
        · cases h
theorem rewriteForestE_WFL (x : IExt) (src : Bytes) (srcA : Array UInt8) (matchRef : Bytes → Bool) :
    (ts : List Tree) → ∀ lo hi, WFL lo hi ts → (∀ t ∈ ts, ContsOK2 x src srcA matchRef t) →
      ∀ ts', rewriteForestE x src srcA matchRef ts = .ok ts' → WFL lo hi ts'
  | [], lo, hi, hw, _, ts', h => by
    rw [rewriteForestE] at h
    cases h; exact hw
  | t :: ts, lo, hi, hw, hc, ts', h => by
    rw [rewriteForestE] at h
    split at h
    · cases h
    · rename_i t' ht
      split at h
      · cases h
      · rename_i ts'' hts
        cases h
        rw [WFL_cons] at hw ⊢
        obtain ⟨h1, h2, h3⟩ := hw
        obtain ⟨g1, g2⟩ := rewriteE_WFT x src srcA matchRef t h2 (hc t (List.mem_cons_self ..)) t' ht
        rw [g2]
        exact ⟨h1, g1, rewriteForestE_WFL x src srcA matchRef ts _ _ h3
          (fun c hc' => hc c (List.mem_cons_of_mem _ hc')) ts'' hts⟩
end

mutual
theorem WFT.nodes_ok : (t : Tree) → WFT t → ∀ u ∈ T.nodes t,
    WFT u ∧ t.label.start ≤ u.label.start ∧ u.label.stop ≤ t.label.stop
  | .node l cs, h, u, hu => by
    rw [T.nodes, List.mem_cons] at hu
    rcases hu with rfl | hu
    · exact ⟨h, Int.le_refl _, Int.le_refl _⟩
    · rw [WFT_iff] at h
      exact WFL.nodesL_ok cs l.start l.stop h.2 u hu
theorem WFL.nodesL_ok : (ts : List Tree) → ∀ lo hi, WFL lo hi ts → ∀ u ∈ T.nodesL ts,
    WFT u ∧ lo ≤ u.label.start ∧ u.label.stop ≤ hi
  | [], _, _, _, u, hu => by simp [T.nodesL] at hu
  | t :: ts, lo, hi, h, u, hu => by
    rw [WFL_cons] at h
    obtain ⟨h1, h2, h3⟩ := h
    rw [T.nodesL, List.mem_append] at hu
    have hv := (WFT_iff t).1 h2
    have hle := h3.le
    rcases hu with hu | hu
    · obtain ⟨g1, g2, g3⟩ := WFT.nodes_ok t h2 u hu
      exact ⟨g1, by omega, by omega⟩
    · obtain ⟨g1, g2, g3⟩ := WFL.nodesL_ok ts _ _ h3 u hu
      exact ⟨g1, by omega, g3⟩
end

/-- **C02, inline half, on whole trees.** If the block tree `t` has the span discipline (`WFT`; the block phase
    establishes it: `BlocksSpans*`, `RefDefSpans*`), lies in `[0, n]`, and its containers with Unparsed children
    satisfy the scanner hypotheses (`ContsOK2`), then every node of the tree `rewriteE` returns has a valid span inside
    `[0, n]`, its children lie inside it, and its children are in order and pairwise disjoint. -/
theorem rewriteE_spansOK_nodes (x : IExt) (src : Bytes) (srcA : Array UInt8) (matchRef : Bytes → Bool) (t t' : Tree)
    (n : Nat) (hw : WFT t) (h0 : 0 ≤ t.label.start) (hn : t.label.stop ≤ n) (hc : ContsOK2 x src srcA matchRef t)
    (h : rewriteE x src srcA matchRef t = .ok t') :
    ∀ u ∈ T.nodes t', spanValid n u = true ∧ Spec.childrenInside u = true ∧ siblingsOrdered u.children = true := by
  obtain ⟨g1, g2⟩ := rewriteE_WFT x src srcA matchRef t hw hc t' h
  exact g1.spansOK_nodes n (by rw [g2]; exact h0) (by rw [g2]; exact hn)

end CM.Proofs.InlH2
