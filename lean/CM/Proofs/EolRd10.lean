import CM.Proofs.EolRd9
/-
C14 (a), the paragraph hook under the position map — part 10: `parseLinkTitle` (a title may span lines: the loop steps over
line endings, one iteration more on the CR LF side).
-/
namespace CM.Proofs.ERd
open CM CM.Model CM.Gen CM.Proofs CM.Proofs.RDS CM.Proofs.BSp

section
variable {e X : Bytes} {k : Nat} {is : List Tree} {r : Rd}

theorem titleLoop_sim (he : StdEol e) (hcr : NoCR X) (hc : Ctx (X.take k) is) (htab : TabsOK (X.take k) is)
    (start : Nat) (hst : ((eolPos e X start : Nat) : Int) + 1 = eolPosZ e X ((start : Int) + 1))
    (term : UInt8) (ht0 : term ≠ 0) (ht1 : term ≠ LF) (ht2 : term ≠ CR) (ht3 : term ≠ SP) :
    ∀ (f f' : Nat) (r : Rd), RJ (X.take k) is r → mu (X.take k) r < f →
      mu (toEol e (X.take k)) (mapRd e X r) < f' →
      titleLoop (toEol e (X.take k)) (eolPos e X start) term f' (mapRd e X r) =
        (mapTitle e X (titleLoop (X.take k) start term f r).1, mapRd e X (titleLoop (X.take k) start term f r).2) ∧
      RJ (X.take k) is (titleLoop (X.take k) start term f r).2 := by
  intro f
  induction f with
  | zero => intro f' r _ hm; omega
  | succ f ih =>
    intro f' r h hm hm'
    obtain ⟨g, rfl⟩ : ∃ g, f' = g + 1 := ⟨f' - 1, by omega⟩
    obtain ⟨j1, m1, st⟩ := step_full he hcr hc htab h
    have hlv1 := next_live_after hc h.1
    rcases hn : r.next (X.take k) with ⟨ok, r1⟩
    rw [hn] at j1 m1 st hlv1
    simp only [] at j1 m1 st hlv1
    -- the body of one iteration after the step to `r1`
    have body : ok = true → ∀ g0, mu (toEol e (X.take k)) (mapRd e X r1) < g0 →
        (match Rd.current (toEol e (X.take k)) (mapRd e X r1) with
          | (c, r) =>
            if (c == 0x5C) = true then
              match Rd.next (toEol e (X.take k)) r with
              | (ok, r) => if (!ok) = true then (noTitle, r) else titleLoop (toEol e (X.take k)) (eolPos e X start) term g0 r
            else if (c == term) = true then
              match Rd.next (toEol e (X.take k)) r with
              | (_, r) => (⟨⟨((eolPos e X start : Nat) : Int), r.prev + 1⟩, ⟨((eolPos e X start : Nat) : Int) + 1, r.prev⟩⟩, r)
            else titleLoop (toEol e (X.take k)) (eolPos e X start) term g0 r) =
        (mapTitle e X (match Rd.current (X.take k) r1 with
          | (c, r) =>
            if (c == 0x5C) = true then
              match Rd.next (X.take k) r with
              | (ok, r) => if (!ok) = true then (noTitle, r) else titleLoop (X.take k) start term f r
            else if (c == term) = true then
              match Rd.next (X.take k) r with
              | (_, r) => (⟨⟨(start : Int), r.prev + 1⟩, ⟨(start : Int) + 1, r.prev⟩⟩, r)
            else titleLoop (X.take k) start term f r).1,
         mapRd e X (match Rd.current (X.take k) r1 with
          | (c, r) =>
            if (c == 0x5C) = true then
              match Rd.next (X.take k) r with
              | (ok, r) => if (!ok) = true then (noTitle, r) else titleLoop (X.take k) start term f r
            else if (c == term) = true then
              match Rd.next (X.take k) r with
              | (_, r) => (⟨⟨(start : Int), r.prev + 1⟩, ⟨(start : Int) + 1, r.prev⟩⟩, r)
            else titleLoop (X.take k) start term f r).2) ∧
        RJ (X.take k) is (match Rd.current (X.take k) r1 with
          | (c, r) =>
            if (c == 0x5C) = true then
              match Rd.next (X.take k) r with
              | (ok, r) => if (!ok) = true then (noTitle, r) else titleLoop (X.take k) start term f r
            else if (c == term) = true then
              match Rd.next (X.take k) r with
              | (_, r) => (⟨⟨(start : Int), r.prev + 1⟩, ⟨(start : Int) + 1, r.prev⟩⟩, r)
            else titleLoop (X.take k) start term f r).2 := by
      intro hok g0 hg0
      have hm1 := m1 hok
      have hcur1 := j1.cur hc
      have hcur1' := current_map_eq (e := e) he hcr hc htab j1.1
      rw [hcur1, hcur1']
      simp only []
      generalize hcv : (r1.current (X.take k)).1 = c at hcur1 hcur1'
      rw [trB_beq he c 0x5C (by decide) (by decide), trB_beq he c term ht1 ht2]
      by_cases c1 : (c == 0x5C) = true
      · rw [if_pos c1, if_pos c1]
        have hc5c : c = 0x5C := by simpa using c1
        obtain ⟨p1, p2, p3⟩ := plain_pack (e := e) he hcr hc htab j1 (by rw [hcv, hc5c]; decide)
        rw [p1]
        rcases hn2 : r1.next (X.take k) with ⟨ok2, r2⟩
        rw [hn2] at p2 p3
        simp only [] at p2 p3 ⊢
        cases ok2 with
        | false =>
          simp only [Bool.not_false, if_true]
          exact ⟨by rw [mapTitle_no], p2⟩
        | true =>
          simp only [Bool.not_true, Bool.false_eq_true, if_false]
          obtain ⟨q1, q2⟩ := p3 rfl
          exact ih g0 r2 p2 (by omega) (by omega)
      · rw [if_neg c1, if_neg c1]
        by_cases c2 : (c == term) = true
        · rw [if_pos c2, if_pos c2]
          have hct : c = term := by simpa using c2
          have hstep := step_plain (e := e) he hcr hc htab j1 (by rw [hcv, hct]; exact ht1)
          rw [hstep]
          obtain ⟨v1, v2⟩ := close_vals (e := e) he hc j1.1 (hlv1 hok) (by rw [hcv, hct]; exact ht0)
            (by rw [hcv, hct]; exact ht1) (by rw [hcv, hct]; exact ht3)
          refine ⟨Prod.ext ?_ rfl, j1.next hc⟩
          show (⟨⟨((eolPos e X start : Nat) : Int), (mapRd e X (r1.next (X.take k)).2).prev + 1⟩,
            ⟨((eolPos e X start : Nat) : Int) + 1, (mapRd e X (r1.next (X.take k)).2).prev⟩⟩ : LinkTitle) =
            mapTitle e X ⟨⟨(start : Int), (r1.next (X.take k)).2.prev + 1⟩, ⟨(start : Int) + 1, (r1.next (X.take k)).2.prev⟩⟩
          unfold mapTitle mapSpanI
          simp only []
          rw [v1, v2, hst, eolPosZ_ofNat]
        · rw [if_neg c2, if_neg c2]
          exact ih g0 r1 j1 (by omega) hg0
    rw [titleLoop, titleLoop, hn]
    simp only []
    rcases st with ⟨s, ms⟩ | ⟨_, _, s3, s4, s5, s6, ms1, ms2, _hat⟩
    · rw [s]
      simp only []
      cases ok with
      | false =>
        simp only [Bool.not_false, if_true]
        exact ⟨by rw [mapTitle_no], j1⟩
      | true =>
        simp only [Bool.not_true, Bool.false_eq_true, if_false]
        have := ms rfl
        exact body rfl g (by omega)
    · rw [s3]
      simp only [Bool.not_true, Bool.false_eq_true, if_false]
      rw [s5]
      simp only []
      have t1 : (LF == (0x5C : UInt8)) = false := by decide
      have t2 : (LF == term) = false := by simpa using Ne.symm ht1
      rw [t1, t2]
      simp only [Bool.false_eq_true, if_false]
      obtain ⟨g2, rfl⟩ : ∃ g2, g = g2 + 1 := ⟨g - 1, by omega⟩
      rw [titleLoop, s6]
      simp only []
      cases ok with
      | false =>
        simp only [Bool.not_false, if_true]
        exact ⟨by rw [mapTitle_no], j1⟩
      | true =>
        simp only [Bool.not_true, Bool.false_eq_true, if_false]
        have := ms2 rfl
        exact body rfl g2 (by omega)

theorem parseLinkTitle_sim (he : StdEol e) (hcr : NoCR X) (hc : Ctx (X.take k) is) (htab : TabsOK (X.take k) is)
    (f f' : Nat) (r : Rd) (h : RJ (X.take k) is r) (hm : mu (X.take k) r < f)
    (hm' : mu (toEol e (X.take k)) (mapRd e X r) < f') :
    parseLinkTitle (toEol e (X.take k)) f' (mapRd e X r) =
      (mapTitle e X (parseLinkTitle (X.take k) f r).1, mapRd e X (parseLinkTitle (X.take k) f r).2) ∧
    RJ (X.take k) is (parseLinkTitle (X.take k) f r).2 := by
  have hcur := h.cur hc
  have hcur' := current_map_eq (e := e) he hcr hc htab h.1
  unfold parseLinkTitle
  rw [hcur, hcur']
  simp only []
  generalize hcv : (r.current (X.take k)).1 = c at hcur hcur'
  rw [trB_bne he c 0x27 (by decide) (by decide), trB_bne he c 0x22 (by decide) (by decide),
    trB_bne he c 0x28 (by decide) (by decide), trB_beq he c 0x28 (by decide) (by decide)]
  by_cases c0 : (c != 0x27 && c != 0x22 && c != 0x28) = true
  · rw [if_pos c0, if_pos c0]
    exact ⟨by rw [mapTitle_no], h⟩
  · rw [if_neg c0, if_neg c0]
    have hcc : c = 0x27 ∨ c = 0x22 ∨ c = 0x28 := by
      simp only [Bool.and_eq_true, bne_iff_ne, ne_eq, not_and, Decidable.not_not] at c0
      by_cases h1 : c = 0x27
      · exact Or.inl h1
      · by_cases h2 : c = 0x22
        · exact Or.inr (Or.inl h2)
        · exact Or.inr (Or.inr (c0 ⟨h1, h2⟩))
    have htr : trB e c = c := by
      unfold trB; rw [if_neg]; rcases hcc with h1 | h1 | h1 <;> subst h1 <;> decide
    rw [htr]
    have hst := pos_succ (e := e) he hc h.1 (by rw [hcv]; rcases hcc with h1 | h1 | h1 <;> subst h1 <;> decide)
      (by rw [hcv]; rcases hcc with h1 | h1 | h1 <;> subst h1 <;> decide)
      (by rw [hcv]; rcases hcc with h1 | h1 | h1 <;> subst h1 <;> decide)
    have hterm : ∀ b : UInt8, b ≠ 0 ∧ b ≠ LF ∧ b ≠ CR ∧ b ≠ SP →
        titleLoop (toEol e (X.take k)) (eolPos e X r.pos) b f' (mapRd e X r) =
          (mapTitle e X (titleLoop (X.take k) r.pos b f r).1, mapRd e X (titleLoop (X.take k) r.pos b f r).2) ∧
        RJ (X.take k) is (titleLoop (X.take k) r.pos b f r).2 :=
      fun b hb => titleLoop_sim he hcr hc htab r.pos hst b hb.1 hb.2.1 hb.2.2.1 hb.2.2.2 f f' r h hm hm'
    apply hterm
    rcases hcc with h1 | h1 | h1 <;> subst h1 <;> decide

end

end CM.Proofs.ERd
