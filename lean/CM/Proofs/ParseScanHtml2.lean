import CM.Proofs.ParseScanHtml
/-
C02 / C04, inline halves, for the whole of `Parse` — `parseHTMLTag`, part 2: processing instructions, declarations, comments,
CDATA sections, and the tag scanner from a fresh reader (`html_scan`).  The branches that look ahead in the bytes of the
current node (`-->`, `]]>`, `--`, `[CDATA[`) stay inside that node: an Indent node is one byte long.
-/
namespace CM.Proofs.PSc
open CM CM.Model CM.Gen CM.Proofs CM.Proofs.PS CM.Proofs.InlH

variable {src : Bytes} {L : List Tree} {N m : Nat}

theorem nullSpan_ok (m N start : Nat) : SpanOK m N start nullSpan := Or.inl rfl

theorem spanOK_of_end {start : Nat} {e : Int} (h : EndOK m N e) (hne : e ≠ -1) : SpanOK m N start ⟨start, e⟩ := by
  rcases h with h | h
  · exact absurd h hne
  · exact Or.inr ⟨rfl, h.1, h.2⟩

theorem piLoop_I (hc : RC src L N) (hT : TailSafe src L) (start : Nat) : ∀ (f : Nat) (r : Rd), SI src L m N r →
    SpanOK m N start (piLoop src start f r).1 := by
  intro f
  induction f with
  | zero => intro r _; exact nullSpan_ok _ _ _
  | succ f ih =>
    intro r h
    rw [piLoop, h.current_eq hc]
    simp only []
    split
    · cases hok : (r.next src).1 with
      | false =>
        generalize r.next src = nx at hok
        obtain ⟨ok, r1⟩ := nx
        simp only [] at hok ⊢
        subst hok
        exact nullSpan_ok _ _ _
      | true =>
        have hn := h.next_ok hc hok
        generalize r.next src = nx at hok hn
        obtain ⟨ok, r1⟩ := nx
        simp only [] at hok hn ⊢
        subst hok
        simp only [Bool.not_true, Bool.false_eq_true, if_false]
        exact ih r1 hn
    · rename_i hq
      have he : (r.current src).1 = 0x3F := by simpa using hq
      have hn := h.next_any hc hT (by rw [he]; exact ⟨by decide, by decide, by decide⟩)
      generalize r.next src = nx at hn
      obtain ⟨ok, r1⟩ := nx
      simp only [] at hn ⊢
      split
      · exact nullSpan_ok _ _ _
      · rw [hn.current_eq hc]
        simp only []
        split
        · rename_i hgt
          have hg : (r1.current src).1 = 0x3E := by simpa using hgt
          exact spanOK_of_end (hn.end_ok hc (by rw [hg]; rfl)) (by omega)
        · exact ih r1 hn

theorem declLoop_I (hc : RC src L N) (start : Nat) : ∀ (f : Nat) (r : Rd), SI src L m N r →
    SpanOK m N start (declLoop src start f r).1 := by
  intro f
  induction f with
  | zero => intro r _; exact nullSpan_ok _ _ _
  | succ f ih =>
    intro r h
    rw [declLoop, h.current_eq hc]
    simp only []
    split
    · rename_i hgt
      have hg : (r.current src).1 = 0x3E := by simpa using hgt
      exact spanOK_of_end (h.end_ok hc (by rw [hg]; rfl)) (by omega)
    · cases hok : (r.next src).1 with
      | false =>
        generalize r.next src = nx at hok
        obtain ⟨ok, r1⟩ := nx
        simp only [] at hok ⊢
        subst hok
        exact nullSpan_ok _ _ _
      | true =>
        have hn := h.next_ok hc hok
        generalize r.next src = nx at hok hn
        obtain ⟨ok, r1⟩ := nx
        simp only [] at hok hn ⊢
        subst hok
        simp only [Bool.not_true, Bool.false_eq_true, if_false]
        exact ih r1 hn

/-! ### looking ahead in the bytes of the current node -/

theorem Live.remaining (hc : RC src L N) {r : Rd} (h : Live L r) :
    ∃ t rest, r.spans = t :: rest ∧ t ∈ L ∧ t.label.start ≤ (r.pos : Int) ∧ (r.pos : Int) < t.label.stop ∧
      r.remainingNodeBytes src = ((src.drop r.pos).take (t.label.stop.toNat - r.pos), r) := by
  obtain ⟨t, rest, hs, htm, h1, h2, hcn⟩ := h.currentNode hc
  refine ⟨t, rest, hs, htm, h1, h2, ?_⟩
  unfold Rd.remainingNodeBytes
  rw [hcn]

theorem SI.remaining_snd (hc : RC src L N) {r : Rd} (h : SI src L m N r) : (r.remainingNodeBytes src).2 = r := by
  rcases h.st with hl | hd
  · obtain ⟨_, _, _, _, _, _, e⟩ := hl.remaining (src := src) hc
    rw [e]
  · rw [dead_remaining hd.1]

theorem SI.remaining_eq (hc : RC src L N) {r : Rd} (h : SI src L m N r) :
    r.remainingNodeBytes src = ((r.remainingNodeBytes src).1, r) := Prod.ext rfl (h.remaining_snd hc)

/-- a look-ahead of `k ≥ 2` bytes succeeded: the reader is live in a node that is not an Indent node, with `k` bytes left -/
theorem SI.lookahead (hc : RC src L N) {r : Rd} (h : SI src L m N r) (pfx : Bytes) (hk : 2 ≤ pfx.length)
    (hp : hasBytePrefix (r.remainingNodeBytes src).1 pfx = true) :
    Live L r ∧ ∃ t rest, r.spans = t :: rest ∧ t ∈ L ∧ isIndent t = false ∧ (r.pos : Int) + pfx.length ≤ t.label.stop := by
  rcases h.st with hl | hd
  · obtain ⟨t, rest, hs, htm, h1, h2, e⟩ := hl.remaining (src := src) hc
    rw [e] at hp
    have hlen := hasBytePrefix_len _ _ hp
    simp only [List.length_take, List.length_drop] at hlen
    have h0 := hc.nn t htm
    refine ⟨hl, t, rest, hs, htm, ?_, by omega⟩
    cases hi : isIndent t with
    | false => rfl
    | true => have := hc.ind1 t htm hi; omega
  · rw [dead_remaining hd.1] at hp
    cases pfx with
    | nil => simp at hk
    | cons a l => simp [hasBytePrefix] at hp

/-- one `next` inside a node that is not an Indent node -/
theorem Live.next_in (hc : RC src L N) {r : Rd} (h : Live L r) {t : Tree} {rest : List Tree} (hs : r.spans = t :: rest)
    (hni : isIndent t = false) (hlt : (r.pos : Int) + 1 < t.label.stop) :
    (r.next src).1 = true ∧ Live L (r.next src).2 ∧ (r.next src).2.spans = t :: rest ∧ (r.next src).2.pos = r.pos + 1 := by
  obtain ⟨t1, rest1, hs1, _, _, _, hcase⟩ := h.next_cases (src := src) hc
  rw [hs] at hs1; cases hs1
  rcases hcase with ⟨hi', _, _⟩ | ⟨_, _, v, e⟩ | ⟨hst, _, _⟩ | ⟨hst, _⟩
  · exact absurd (hi'.symm.trans hni) (by decide)
  · have hl1 : Live L (r.next src).2 := (h.next hc).2.1 (by rw [e])
    rw [e] at hl1 ⊢
    exact ⟨rfl, hl1, hs, rfl⟩
  · omega
  · omega

/-- the end after `k` bytes of the current node, `k − 1` `next`s on -/
theorem SI.after_prefix (hc : RC src L N) {r : Rd} (h : SI src L m N r) (hl : Live L r) {t : Tree} {rest : List Tree}
    (hs : r.spans = t :: rest) (htm : t ∈ L) (hni : isIndent t = false) (hlen : (r.pos : Int) + 3 ≤ t.label.stop) :
    SI src L m N ((r.next src).2.next src).2 ∧ (((r.next src).2.next src).2.pos = r.pos + 2) ∧
      EndOK m N ((((r.next src).2.next src).2.pos : Int) + 1) := by
  obtain ⟨a1, a2, a3, a4⟩ := hl.next_in (src := src) hc hs hni (by omega)
  obtain ⟨b1, b2, b3, b4⟩ := a2.next_in (src := src) hc a3 hni (by rw [a4]; omega)
  have s1 := h.next_ok hc a1
  have s2 := s1.next_ok hc b1
  have hb := hc.bound t htm
  have hlo := h.lo
  refine ⟨s2, by rw [b4, a4], ?_⟩
  right
  rw [b4, a4]
  omega

theorem commentLoop_I (hc : RC src L N) (start : Nat) : ∀ (f : Nat) (r : Rd), SI src L m N r →
    SpanOK m N start (commentLoop src start f r).1 := by
  intro f
  induction f with
  | zero => intro r _; exact nullSpan_ok _ _ _
  | succ f ih =>
    intro r h
    rw [commentLoop, h.remaining_eq hc]
    simp only []
    split
    · rename_i hp
      obtain ⟨hl, t, rest, hs, htm, hni, hlen⟩ := h.lookahead hc _ (by decide) hp
      obtain ⟨_, _, e3⟩ := h.after_prefix hc hl hs htm hni (by simpa using hlen)
      exact spanOK_of_end e3 (by omega)
    · split
      · exact nullSpan_ok _ _ _
      · cases hok : (r.next src).1 with
        | false =>
          generalize r.next src = nx at hok
          obtain ⟨ok, r1⟩ := nx
          simp only [] at hok ⊢
          subst hok
          exact nullSpan_ok _ _ _
        | true =>
          have hn := h.next_ok hc hok
          generalize r.next src = nx at hok hn
          obtain ⟨ok, r1⟩ := nx
          simp only [] at hok hn ⊢
          subst hok
          simp only [Bool.not_true, Bool.false_eq_true, if_false]
          exact ih r1 hn

theorem cdataLoop_I (hc : RC src L N) (start : Nat) : ∀ (f : Nat) (r : Rd), SI src L m N r →
    SpanOK m N start (cdataLoop src start f r).1 := by
  intro f
  induction f with
  | zero => intro r _; exact nullSpan_ok _ _ _
  | succ f ih =>
    intro r h
    rw [cdataLoop, h.remaining_eq hc]
    simp only []
    split
    · rename_i hp
      obtain ⟨hl, t, rest, hs, htm, hni, hlen⟩ := h.lookahead hc _ (by decide) hp
      obtain ⟨_, _, e3⟩ := h.after_prefix hc hl hs htm hni (by simpa [cdataSuffix] using hlen)
      have : (List.range (cdataSuffix.length - 1)).foldl (fun r _ => (r.next src).2) r = ((r.next src).2.next src).2 := rfl
      rw [this]
      exact spanOK_of_end e3 (by omega)
    · cases hok : (r.next src).1 with
      | false =>
        generalize r.next src = nx at hok
        obtain ⟨ok, r1⟩ := nx
        simp only [] at hok ⊢
        subst hok
        exact nullSpan_ok _ _ _
      | true =>
        have hn := h.next_ok hc hok
        generalize r.next src = nx at hok hn
        obtain ⟨ok, r1⟩ := nx
        simp only [] at hok hn ⊢
        subst hok
        simp only [Bool.not_true, Bool.false_eq_true, if_false]
        exact ih r1 hn

theorem advanceN_I (hc : RC src L N) : ∀ (n : Nat) (r : Rd), SI src L m N r → (advanceN src n r).1 = true →
    SI src L m N (advanceN src n r).2 := by
  intro n
  induction n with
  | zero => intro r h _; exact h
  | succ n ih =>
    intro r h
    rw [advanceN]
    cases hok : (r.next src).1 with
    | false =>
      generalize r.next src = nx at hok
      obtain ⟨ok, r1⟩ := nx
      simp only [] at hok ⊢
      subst hok
      intro hh; simp at hh
    | true =>
      have hn := h.next_ok hc hok
      generalize r.next src = nx at hok hn
      obtain ⟨ok, r1⟩ := nx
      simp only [] at hok hn ⊢
      subst hok
      simp only [Bool.not_true, Bool.false_eq_true, if_false]
      exact ih r1 hn

/-- the first byte of the rest of the current node is a letter: the reader sees a byte that is not white space -/
theorem SI.letter_head (hc : RC src L N) {r : Rd} (h : SI src L m N r)
    (hne : (r.remainingNodeBytes src).1.isEmpty = false) (hl : isASCIILetter ((r.remainingNodeBytes src).1.headD 0) = true) :
    NotWs (r.current src).1 := by
  rcases h.st with hlv | hd
  · obtain ⟨t, rest, hs, htm, h1, h2, e⟩ := hlv.remaining (src := src) hc
    obtain ⟨t', rest', hs', _, _, ecur⟩ := hlv.current (src := src) hc
    rw [hs] at hs'; cases hs'
    rw [e] at hne hl
    simp only [] at hne hl
    have h0 := hc.nn t htm
    have hb := hc.bound t htm
    have hlen := hc.len
    have hhd : ((src.drop r.pos).take (t.label.stop.toNat - r.pos)).headD 0 = src.getD r.pos 0 := by
      rw [List.headD_eq_head?_getD, List.head?_take, if_neg (by omega), List.head?_drop, List.getD_eq_getElem?_getD]
    rw [hhd] at hl
    rw [ecur]
    simp only [liveByte]
    cases hi : isIndent t with
    | true =>
      exfalso
      rcases hc.indWS t htm hi r.pos h1 h2 with hw | hw
      · rw [List.getD_eq_getElem?_getD, hw] at hl; revert hl; decide
      · rw [List.getD_eq_getElem?_getD, hw] at hl; revert hl; decide
    | false =>
      simp only [Bool.false_eq_true, if_false]
      have hnz : (src.getD r.pos 0 == 0) = false := by
        cases hz : (src.getD r.pos 0 == 0) with
        | false => rfl
        | true =>
          have : src.getD r.pos 0 = 0 := by simpa using hz
          rw [this] at hl; revert hl; decide
      rw [hnz]
      simp only [Bool.false_eq_true, if_false]
      exact notWs_letter hl
  · rw [dead_remaining hd.1] at hne
    simp at hne

theorem SI_of_live (hc : RC src L N) {r : Rd} (hl : Live L r) (hprev : r.prev = -1) : SI src L r.pos N r := by
  obtain ⟨t, rest, hs, htm, h1, h2, _⟩ := hl.currentNode hc
  obtain ⟨k, hk⟩ := hl.1
  have hb := hc.bound t htm
  refine ⟨⟨false, ?_, ?_, by omega, Nat.le_refl _, by omega, by omega, (fun hh => by cases hh), Or.inl (by omega)⟩,
    Or.inl hl⟩
  · intro v hv'
    rw [hk] at hv'
    have hvm := List.mem_of_mem_drop hv'
    have := hc.bound v hvm; have := hc.le v hvm
    unfold TB; omega
  · rw [hk]; exact hc.sorted.drop k

/-- **`parseHTMLTag` from a fresh reader over the children**: a valid tag starts at the reader's position and ends after it,
    inside the container. -/
theorem html_scan (hc : RC src L N) (hT : TailSafe src L) (p : Nat) (hp : p < src.length) (fl : Nat) (span : SpanI) (r' : Rd)
    (h : parseHTMLTag src fl (newReader L p) = (span, r')) (hv : span.isValid = true) :
    span.start = (p : Int) ∧ (p : Int) < span.stop ∧ span.stop ≤ (N : Int) := by
  have hnr : newReader L p = newReader (L.drop 0) p := by simp
  obtain ⟨q1, q2, q3, hst⟩ := newReader_cn (L := L) 0 p
  have key : SpanOK p N p (parseHTMLTag src fl (newReader L p)).1 := by
    rw [parseHTMLTag, hnr, newReader_current (L := L) 0 p hp]
    rw [← hnr] at hst q1 q2 q3 ⊢
    generalize (newReader L p).currentNode.2 = r1 at hst q1 q2 q3
    simp only []
    split
    · exact nullSpan_ok _ _ _
    · rename_i hlt
      have he : (r1.current src).1 = 0x3C := by simpa using hlt
      rcases hst with hl | ⟨hd, _⟩
      · have hs0 := SI_of_live (src := src) hc hl q2
        rw [q1] at hs0
        rw [q1]
        have h1 := hs0.next_any hc hT (by rw [he]; exact ⟨by decide, by decide, by decide⟩)
        generalize r1.next src = nx at h1
        obtain ⟨ok1, r2⟩ := nx
        simp only [] at h1 ⊢
        split
        · exact nullSpan_ok _ _ _
        · rw [h1.current_eq hc]
          simp only []
          split
          · -- processing instruction
            rename_i hq
            have hq' : (r2.current src).1 = 0x3F := by simpa using hq
            have h2 := h1.next_any hc hT (by rw [hq']; exact ⟨by decide, by decide, by decide⟩)
            generalize r2.next src = nx2 at h2
            obtain ⟨ok2, r3⟩ := nx2
            simp only [] at h2 ⊢
            split
            · exact nullSpan_ok _ _ _
            · exact piLoop_I hc hT p fl r3 h2
          · split
            · -- `<!`
              rename_i hb
              have hb' : (r2.current src).1 = 0x21 := by simpa using hb
              have h2 := h1.next_any hc hT (by rw [hb']; exact ⟨by decide, by decide, by decide⟩)
              generalize r2.next src = nx2 at h2
              obtain ⟨ok2, r3⟩ := nx2
              simp only [] at h2 ⊢
              split
              · exact nullSpan_ok _ _ _
              · rw [h2.remaining_eq hc]
                simp only []
                split
                · -- declaration
                  rename_i hdecl
                  simp only [Bool.and_eq_true, Bool.not_eq_true'] at hdecl
                  have h3 := h2.next_any hc hT (h2.letter_head hc hdecl.1 hdecl.2)
                  generalize r3.next src = nx3 at h3
                  obtain ⟨ok3, r4⟩ := nx3
                  exact declLoop_I hc p fl r4 h3
                · split
                  · -- comment
                    rename_i hp2
                    obtain ⟨hl3, t, rest, hs3, htm, hni, hlen⟩ := h2.lookahead hc _ (by decide) hp2
                    obtain ⟨a1, a2, a3, a4⟩ := hl3.next_in (src := src) hc hs3 hni (by simp at hlen; omega)
                    have h3 := h2.next_ok hc a1
                    generalize r3.next src = nx3 at h3
                    obtain ⟨ok3, r4⟩ := nx3
                    simp only [] at h3 ⊢
                    cases hok : (r4.next src).1 with
                    | false =>
                      generalize r4.next src = nx4 at hok
                      obtain ⟨ok4, r5⟩ := nx4
                      simp only [] at hok ⊢
                      subst hok
                      exact nullSpan_ok _ _ _
                    | true =>
                      have h4 := h3.next_ok hc hok
                      generalize r4.next src = nx4 at hok h4
                      obtain ⟨ok4, r5⟩ := nx4
                      simp only [] at hok h4 ⊢
                      subst hok
                      split
                      · exact nullSpan_ok _ _ _
                      · rw [h4.remaining_eq hc]
                        simp only []
                        split
                        · exact nullSpan_ok _ _ _
                        · exact commentLoop_I hc p fl r5 h4
                  · split
                    · -- CDATA
                      have h3 := advanceN_I hc (cdataPrefix.length - 2) r3 h2
                      generalize advanceN src (cdataPrefix.length - 2) r3 = an at h3
                      obtain ⟨ok3, r4⟩ := an
                      simp only [] at h3 ⊢
                      split
                      · exact nullSpan_ok _ _ _
                      · rename_i hok3
                        exact cdataLoop_I hc p fl r4 (h3 (by simpa using hok3))
                    · exact nullSpan_ok _ _ _
            · split
              · -- closing tag
                have := parseHTMLClosingTag_I hc hT fl r2 h1
                generalize parseHTMLClosingTag src fl r2 = ct at this
                obtain ⟨e, r3⟩ := ct
                simp only [] at this ⊢
                split
                · exact nullSpan_ok _ _ _
                · exact spanOK_of_end this (by omega)
              · have := parseHTMLOpenTag_I hc hT fl r2 h1
                generalize parseHTMLOpenTag src fl r2 = ot at this
                obtain ⟨e, r3⟩ := ot
                simp only [] at this ⊢
                split
                · exact nullSpan_ok _ _ _
                · exact spanOK_of_end this (by omega)
      · -- dead from the start: the first `next` fails
        rw [dead_next hd]
        simp only [Bool.not_false, Bool.true_or, if_true]
        exact nullSpan_ok _ _ _
  rw [h] at key
  simp only [] at key
  rcases key with e | e
  · rw [e] at hv; cases hv
  · exact e

end CM.Proofs.PSc
