import CM.Proofs.ParseWholeRaw
/-
C17 (b) for parser output, part 1 (renderer side) — **fact (3)**: *nothing that starts with a name character is written
after the last node of a tree*.

`rawSeamsOK cx t` follows from `safePre cx.src t` and a source-only condition that is weaker than `rawClosed`:

  `rawClosedButLast src t`:  every RawHTML node of `t` OTHER THAN THE VERY LAST NODE of `t` (in document order,
  `(T.nodes t).dropLast`) has a slice that does not end in an unfinished name candidate `<` nameChar*.

The last node of the tree is exempt because what the renderer writes after it is only the closing segments of its
ancestors (`closeBytes`), and no closing segment starts with a name character: it is empty, or a closing tag `</…>`,
or its escape `&lt;/…>` (`headNC_closeBytes`).  This is exactly the situation of an HTML block whose last line is the
last line of the input and has no line ending (`<div`, `> <div>⏎> <scr`): the RawHTML node of that line is the last
node of the root block.
-/
namespace CM.Proofs.PS
open CM CM.Model CM.Gen CM.Spec Node
open CM.Proofs.FilterSites

/-! ### closing segments never start with a name character -/

theorem headNC_of_cons (c : UInt8) (rest : Bytes) (nc : Bool) : headNC (c :: rest) nc = nameChar c := rfl

theorem headNC_closeTag (cx : RCtx) (name rest : Bytes) (nc : Bool) : headNC (closeTag cx name ++ rest) nc = false := by
  have h1 : str "&lt;/" = 0x26 :: str "lt;/" := by decide +kernel
  have h2 : str "</" = 0x3C :: str "/" := by decide +kernel
  unfold closeTag
  split
  · split
    · simp only [h1, List.cons_append, headNC_of_cons]; decide +kernel
    · simp only [h2, List.cons_append, headNC_of_cons]; decide +kernel
  · simp only [h2, List.cons_append, headNC_of_cons]; decide +kernel

theorem headNC_closeTag' (cx : RCtx) (name : Bytes) (nc : Bool) : headNC (closeTag cx name) nc = false := by
  have := headNC_closeTag cx name [] nc
  simpa using this

/-- What is written after a node's children: empty, or it starts with `<` or `&`. -/
theorem headNC_closeBytes (cx : RCtx) (cur : Cursor) (nc : Bool) : headNC (closeBytes cx cur) nc = nc ∨
    headNC (closeBytes cx cur) nc = false := by
  unfold closeBytes
  split
  · unfold postBlock
    simp only []
    repeat' split
    all_goals first
      | (right; exact headNC_closeTag' _ _ _)
      | (right; exact headNC_closeTag _ _ _ _)
      | (left; rfl)
  · unfold postInline
    simp only []
    repeat' split
    all_goals first
      | (right; exact headNC_closeTag' _ _ _)
      | (left; rfl)

theorem headNC_closeBytes_false (cx : RCtx) (cur : Cursor) : headNC (closeBytes cx cur) false = false := by
  rcases headNC_closeBytes cx cur false with h | h <;> exact h

/-! ### the walk -/

/-- A node that is fine whatever follows it. -/
def ClosedAt (cx : RCtx) (n : Tree) : Prop := ∀ nc, copyOK cx n nc = true

theorem nodes_ne_nil (t : Tree) : T.nodes t ≠ [] := by
  cases t with
  | node l cs => rw [T.nodes]; exact List.cons_ne_nil _ _

theorem dropLast_append_of_ne_nil {α} (a b : List α) (hb : b ≠ []) : (a ++ b).dropLast = a ++ b.dropLast := by
  induction a with
  | nil => rfl
  | cons x a ih =>
    have : a ++ b ≠ [] := by intro h; exact hb (List.append_eq_nil_iff.1 h).2
    cases hab : a ++ b with
    | nil => exact absurd hab this
    | cons y r =>
      rw [List.cons_append, hab, List.dropLast_cons_cons, ← hab, ih]
      rfl

theorem nodesL_ne_nil {cs : List Tree} (h : cs ≠ []) : T.nodesL cs ≠ [] := by
  cases cs with
  | nil => exact absurd rfl h
  | cons c cs =>
    rw [T.nodesL]
    intro h0
    exact nodes_ne_nil c (List.append_eq_nil_iff.1 h0).1

mutual
/-- Every node but the last is fine whatever follows; the last is fine when nothing starting with a name character
    follows — then so is the whole tree. -/
theorem seamsNode_butLast (cx : RCtx) (t : Tree) (parent block : Option Tree) (index : Int)
    (h : ∀ n ∈ (T.nodes t).dropLast, ClosedAt cx n)
    (hlast : ∀ n, (T.nodes t).getLast? = some n → copyOK cx n false = true) :
    seamsNode cx t parent block index false = true := by
  match t with
  | .node l cs =>
    simp only [seamsNode]
    split
    · rw [headNC_closeBytes_false]
      cases hcs : cs with
      | nil => rfl
      | cons c rest =>
        have hne : T.nodesL cs ≠ [] := nodesL_ne_nil (by rw [hcs]; exact List.cons_ne_nil _ _)
        rw [← hcs]
        refine seamsForest_butLast cx _ _ cs 0 ?_ ?_
        · intro n hn
          refine h n ?_
          rw [T.nodes]
          cases hnl : T.nodesL cs with
          | nil => exact absurd hnl hne
          | cons y r =>
            rw [List.dropLast_cons_cons, ← hnl]
            exact List.mem_cons_of_mem _ hn
        · intro n hn
          refine hlast n ?_
          rw [T.nodes, List.getLast?_cons]
          rw [hn]; rfl
    · cases hcs : T.nodesL cs with
      | nil =>
        refine hlast _ ?_
        rw [T.nodes, hcs]; rfl
      | cons y r =>
        refine h _ ?_ false
        rw [T.nodes, hcs, List.dropLast_cons_cons]
        exact List.mem_cons_self ..
theorem seamsForest_butLast (cx : RCtx) (parent : Tree) (block : Option Tree) (cs : List Tree) (i : Nat)
    (h : ∀ n ∈ (T.nodesL cs).dropLast, ClosedAt cx n)
    (hlast : ∀ n, (T.nodesL cs).getLast? = some n → copyOK cx n false = true) :
    seamsForest cx parent block cs i false = true := by
  match cs with
  | [] => rfl
  | c :: rest =>
    simp only [seamsForest, Bool.and_eq_true]
    cases hrest : rest with
    | nil =>
      subst hrest
      have e : T.nodesL [c] = T.nodes c := by rw [T.nodesL, T.nodesL, List.append_nil]
      rw [e] at h hlast
      refine ⟨?_, rfl⟩
      have : renderForest cx parent block [] (i + 1) = [] := by rw [renderForest]
      rw [this]
      exact seamsNode_butLast cx c _ _ _ h hlast
    | cons d rest' =>
      have hne : T.nodesL rest ≠ [] := nodesL_ne_nil (by rw [hrest]; exact List.cons_ne_nil _ _)
      rw [← hrest]
      have e : (T.nodesL (c :: rest)).dropLast = T.nodes c ++ (T.nodesL rest).dropLast := by
        rw [T.nodesL]; exact dropLast_append_of_ne_nil _ _ hne
      rw [e] at h
      refine ⟨?_, ?_⟩
      · exact PW.seamsNode_of_copyOK cx c _ _ _ _ (fun n hn nc => h n (List.mem_append_left _ hn) nc)
      · refine seamsForest_butLast cx parent block rest (i + 1) (fun n hn => h n (List.mem_append_right _ hn)) ?_
        intro n hn
        refine hlast n ?_
        rw [T.nodesL, List.getLast?_append, hn]; rfl
end

/-! ### the source-only condition -/

/-- All RawHTML nodes except the very last node of the tree end outside a name candidate. -/
def rawClosedButLast (src : Bytes) (root : Tree) : Bool :=
  (T.nodes root).dropLast.all fun t => if T.isI t IK.rawHTML then !endsInCandidate (slice src t) else true

/-- `rawClosed` implies it. -/
theorem rawClosedButLast_of_rawClosed (src : Bytes) (t : Tree) (h : rawClosed src t = true) :
    rawClosedButLast src t = true := by
  unfold rawClosed at h
  unfold rawClosedButLast
  rw [List.all_eq_true] at h ⊢
  exact fun n hn => h n (List.dropLast_subset _ hn)

/-- A RawHTML node is fine when nothing starting with a name character follows. -/
theorem copyOK_raw_false (cx : RCtx) (n : Tree) (hr : T.isI n IK.rawHTML = true) : copyOK cx n false = true := by
  unfold copyOK inlineCopyOK
  simp only [T.isI, Bool.and_eq_true, Bool.not_eq_true', beq_iff_eq] at hr
  simp [hr.1, hr.2, IK.rawHTML, IK.charRef]

/-- **Fact (3).** `safePre` and `rawClosedButLast` give the seam condition, in every configuration. -/
theorem rawSeamsOK_of_butLast (cx : RCtx) (t : Tree) (hpre : safePre cx.src t = true)
    (hraw : rawClosedButLast cx.src t = true) : rawSeamsOK cx t = true := by
  unfold safePre at hpre
  unfold rawClosedButLast at hraw
  rw [List.all_eq_true] at hpre hraw
  have hsimple : ∀ n ∈ T.nodes t, (T.isI n IK.rawHTML = true → endsInCandidate (slice cx.src n) = false) →
      ClosedAt cx n := by
    intro n hn hr nc
    apply copyOK_of_simpleAt
    have h1 := hpre n hn
    simp only [safePreAt, Bool.and_eq_true] at h1
    simp only [simpleAt, Bool.and_eq_true]
    refine ⟨?_, ?_⟩
    · cases hraw' : T.isI n IK.rawHTML with
      | true => simp [hr hraw']
      | false => simp
    · cases hc : T.isI n IK.charRef with
      | true =>
        simp only [Bool.true_or, if_true]
        have := h1.1; rw [hc] at this
        exact noLt_of_charRefShape _ this
      | false =>
        cases hs : T.isI n IK.softBreak with
        | true =>
          simp only [Bool.or_true, if_true]
          have := h1.2; rw [hs] at this
          exact noLt_of_eol _ this
        | false => simp
  refine seamsNode_butLast cx t none none (-1) ?_ ?_
  · intro n hn
    refine hsimple n (List.dropLast_subset _ hn) (fun hr => ?_)
    have := hraw n hn
    rw [hr] at this
    simpa using this
  · intro n hn
    have hmem : n ∈ T.nodes t := List.mem_of_getLast? hn
    cases hr : T.isI n IK.rawHTML with
    | true => exact copyOK_raw_false cx n hr
    | false => exact hsimple n hmem (fun h => by rw [hr] at h; cases h) false

/-! ### examples -/

private def bb (s : String) : Bytes := s.toUTF8.toList
private def cxG (src : Bytes) : RCtx := { ext := ⟨id⟩, src := src, filter := some filterTagGFM }
private def I (k : Nat) (a b : Int) (cs : List Tree := []) : Tree :=
  .node { isBlock := false, kind := k, start := a, stop := b } cs
private def B (k : Nat) (a b : Int) (cs : List Tree := []) : Tree :=
  .node { isBlock := true, kind := k, start := a, stop := b } cs

-- the last line of the input without a line ending, inside a block quote: `rawClosed` fails, `rawClosedButLast` holds
private def src3 : Bytes := bb "> <div>\n> <scr"
private def lastLine : Tree := B BK.blockQuote 0 14 [B BK.htmlBlock 2 14 [I IK.rawHTML 2 8, I IK.rawHTML 10 14]]
example : rawClosed src3 lastLine = false ∧ rawClosedButLast src3 lastLine = true ∧ safePre src3 lastLine = true := by
  decide +kernel
example : rawSeamsOK (cxG src3) lastLine = true :=
  rawSeamsOK_of_butLast (cxG src3) lastLine (by decide +kernel) (by decide +kernel)
-- the exemption is for the LAST node only: `<scr` followed by a text node
private def notLast : Tree := B BK.paragraph 0 8 [I IK.rawHTML 0 4, I IK.text 4 8]
example : rawClosedButLast (bb "<script>") notLast = false := by decide +kernel

end CM.Proofs.PS
