import CM.Proofs.GrammarMarkerStream
/-
C05, block half — **the marker of a list item** (`Spec.orderedItemOK`) and the summary of the block half of
`Spec.grammar`.

For every root `r` that `Parse` delivers for an input without NUL bytes:
* `drain_mark_mem`: `PBMark r.source r.block` — at every list item the first child is the item's list marker, closed,
  inside `r.source`, and the bytes of `r.source` under it are, for an ordered item (`char` = `.` or `)`), 1–9 ASCII digits
  followed by the item's `char`, for a bullet item the single byte `char` ∈ {`-`, `+`, `*`};
* `drain_orderedItemOK`: `Spec.orderedItemOK r.source t` at every node `t` of the exported tree; `drain_bulletItemOK`: the
  bullet clause;
* `drain_grammar_phase1`: `Spec.grammar r.source (pbToTree r.block)` with `grammarAt` replaced by `phase1At` (what can hold
  before inline rewriting, file `GrammarLooseSpec`): root kind, every node's local rule (looseness of lists included),
  ordered item numbers, and no link inside a link (there is no link yet).
-/
namespace CM.Proofs
open CM CM.Model CM.Gen
open CM.Proofs.BT CM.Proofs.BG CM.Proofs.GL CM.Proofs.GM

/-- The bullet clause: the marker of a bullet item is the single byte `char`, one of `-`, `+`, `*`. -/
def bulletItemOK (src : Bytes) (t : Tree) : Bool :=
  if Spec.T.isB t BK.listItem && !Spec.isOrderedChar t.label.char then
    match t.children with
    | m :: _ => Spec.T.slice src m == [t.label.char] &&
        (t.label.char == 0x2D || t.label.char == 0x2B || t.label.char == 0x2A)
    | [] => false
  else true

namespace GM

theorem slice_eq_sliceI {src : Bytes} {t : Tree} (h0 : 0 ≤ t.label.start) (h1 : t.label.start ≤ t.label.stop) :
    Spec.T.slice src t = sliceI src t.label.start t.label.stop := by
  unfold Spec.T.slice sliceI
  simp [h0, h1]

theorem pbToTree_span (b : PB) : (pbToTree b).label.start = b.label.start ∧ (pbToTree b).label.stop = b.label.stop := by
  obtain ⟨l, bs, is⟩ := b; exact ⟨rfl, rfl⟩

/-- The two item clauses at an exported block. -/
theorem item_clauses {src : Bytes} (b : PB) (hG : PBGrammar b) (hM : PBMark src b) :
    Spec.orderedItemOK src (pbToTree b) = true ∧ bulletItemOK src (pbToTree b) = true := by
  obtain ⟨l, bs, is⟩ := b
  have hlab : (pbToTree (.mk l bs is)).label.isBlock = true ∧ (pbToTree (.mk l bs is)).label.kind = l.kind ∧
      (pbToTree (.mk l bs is)).label.char = l.char := ⟨rfl, rfl, rfl⟩
  by_cases hk : l.kind = BK.listItem
  · have hloc := ((PBGrammar_mk l bs is).1 hG).1
    obtain ⟨_, _, m, rest, hbs, hm, _⟩ := grammar_item_shape hk hloc
    subst hbs
    have hmk : markOK src m.label l.char = true := by
      have h1 := ((PBMark_mk src l _ is).1 hM).1
      unfold markLocal at h1
      have e1 : (l.kind != BK.listItem) = false := by simp [hk]
      have e2 : (m.kind != BK.listMarker) = false := by simp [hm]
      simpa [e1, e2] using h1
    unfold markOK at hmk
    simp only [Bool.and_eq_true, decide_eq_true_eq] at hmk
    obtain ⟨⟨⟨h0, h1⟩, _⟩, hshape⟩ := hmk
    have hsl : Spec.T.slice src (pbToTree m) = sliceI src m.label.start m.label.stop := by
      rw [slice_eq_sliceI (by rw [(pbToTree_span m).1]; exact h0) (by rw [(pbToTree_span m).1, (pbToTree_span m).2]; exact h1),
        (pbToTree_span m).1, (pbToTree_span m).2]
    have hisB : Spec.T.isB (pbToTree (.mk l (m :: rest) is)) BK.listItem = true := by
      unfold Spec.T.isB; rw [hlab.1, hlab.2.1, hk]; rfl
    have hch : (pbToTree (.mk l (m :: rest) is)).children = pbToTree m :: rest.map pbToTree := by
      rw [pbToTree_children]; rfl
    unfold Spec.orderedItemOK bulletItemOK
    rw [hisB, hch, hlab.2.2]
    simp only [Bool.true_and, hsl]
    unfold markerShape at hshape
    cases ho : Spec.isOrderedChar l.char with
    | true =>
      rw [ho] at hshape
      simp only [if_true] at hshape
      simp only [if_true, Bool.not_true, Bool.false_eq_true, if_false, and_true]
      exact hshape
    | false =>
      rw [ho] at hshape
      simp only [Bool.false_eq_true, if_false] at hshape
      simp only [Bool.false_eq_true, if_false, Bool.not_false, if_true, true_and]
      exact hshape
  · have hisB : Spec.T.isB (pbToTree (.mk l bs is)) BK.listItem = false := by
      unfold Spec.T.isB; rw [hlab.1, hlab.2.1]; simpa using hk
    unfold Spec.orderedItemOK bulletItemOK
    rw [hisB]
    simp

/-- The nodes below the inline children of a block are inline nodes, none of them a link. -/
theorem inline_nodes {l : PLabel} {bs : List PB} {is : List Tree} (h : localOK l bs is = true) :
    ∀ u ∈ is, ∀ t ∈ Spec.T.nodes u, t.label.isBlock = false ∧ t.label.kind ≠ IK.link := by
  have leaf : ∀ (K : List Nat) (u : Tree), inl K u = true → IK.link ∉ K →
      ∀ t ∈ Spec.T.nodes u, t.label.isBlock = false ∧ t.label.kind ≠ IK.link := by
    intro K u hu hK t ht
    unfold inl at hu
    simp only [Bool.and_eq_true, Bool.not_eq_true', List.contains_iff_mem, List.isEmpty_iff] at hu
    rw [nodes_eq, hu.2] at ht
    simp only [Spec.T.nodesL, List.mem_cons, List.not_mem_nil, or_false] at ht
    subst ht
    exact ⟨hu.1.1, fun hk => hK (hk ▸ hu.1.2)⟩
  have leaves : ∀ (K : List Nat) (ts : List Tree), ts.all (inl K) = true → IK.link ∉ K →
      ∀ u ∈ ts, ∀ t ∈ Spec.T.nodes u, t.label.isBlock = false ∧ t.label.kind ≠ IK.link := by
    intro K ts hts hK u hu
    rw [List.all_eq_true] at hts
    exact leaf K u (hts u hu) hK
  have parent : ∀ (K : List Nat) (u : Tree), u.label.isBlock = false → u.label.kind ≠ IK.link → u.children.all (inl K) = true →
      IK.link ∉ K → ∀ t ∈ Spec.T.nodes u, t.label.isBlock = false ∧ t.label.kind ≠ IK.link := by
    intro K u hb hk hc hK t ht
    rw [nodes_eq, List.mem_cons] at ht
    rcases ht with rfl | ht
    · exact ⟨hb, hk⟩
    · obtain ⟨v, hv, htv⟩ := mem_nodesL ht
      exact leaves K _ hc hK v hv t htv
  have hi := ((localOK_iff l bs is).1 h).2
  rcases inlinesOK_cases hi with ⟨_, h0⟩ | ⟨_, hp⟩ | ⟨_, hc⟩ | ⟨_, hf⟩ | ⟨_, hh⟩ | ⟨_, hr⟩
  · subst h0; intro u hu; cases hu
  · exact leaves _ _ hp (by decide)
  · exact leaves _ _ hc (by decide)
  · cases is with
    | nil => intro u hu; cases hu
    | cons c rest =>
      simp only [fencedKids, Bool.and_eq_true, Bool.or_eq_true] at hf
      intro u hu
      rcases List.mem_cons.1 hu with rfl | hu
      · rcases hf.1 with hinfo | hcode
        · unfold infoOK at hinfo
          simp only [Bool.and_eq_true, Bool.not_eq_true', beq_iff_eq] at hinfo
          exact parent _ _ hinfo.1.1 (by rw [hinfo.1.2]; decide) hinfo.2 (by decide)
        · exact leaf _ _ hcode (by decide)
      · exact leaves _ _ hf.2 (by decide) u hu
  · exact leaves _ _ hh (by decide)
  · have lab : ∀ a, labelOK a = true → ∀ t ∈ Spec.T.nodes a, t.label.isBlock = false ∧ t.label.kind ≠ IK.link := by
      intro a ha
      unfold labelOK isInl at ha
      simp only [Bool.and_eq_true, Bool.not_eq_true', beq_iff_eq] at ha
      exact parent _ _ ha.1.1 (by rw [ha.1.2]; decide) ha.2 (by decide)
    have dst : ∀ k a, (k = IK.linkDest ∨ k = IK.linkTitle) → destOK k a = true →
        ∀ t ∈ Spec.T.nodes a, t.label.isBlock = false ∧ t.label.kind ≠ IK.link := by
      intro k a hk ha
      unfold destOK isInl at ha
      simp only [Bool.and_eq_true, Bool.not_eq_true', beq_iff_eq] at ha
      exact parent _ _ ha.1.1 (by rw [ha.1.2]; rcases hk with rfl | rfl <;> decide) ha.2 (by decide)
    match is, hr with
    | [a, b], hr =>
      simp only [refDefKids, Bool.and_eq_true] at hr
      intro u hu
      simp only [List.mem_cons, List.mem_nil_iff, or_false] at hu
      rcases hu with rfl | rfl
      · exact lab _ hr.1
      · exact dst _ _ (Or.inl rfl) hr.2
    | [a, b, c], hr =>
      simp only [refDefKids, Bool.and_eq_true] at hr
      intro u hu
      simp only [List.mem_cons, List.mem_nil_iff, or_false] at hu
      rcases hu with rfl | rfl | rfl
      · exact lab _ hr.1.1
      · exact dst _ _ (Or.inl rfl) hr.1.2
      · exact dst _ _ (Or.inr rfl) hr.2

/-- A node that is not a block satisfies both item clauses. -/
theorem item_clauses_inline {src : Bytes} {t : Tree} (h : t.label.isBlock = false) :
    Spec.orderedItemOK src t = true ∧ bulletItemOK src t = true := by
  have : Spec.T.isB t BK.listItem = false := by unfold Spec.T.isB; rw [h]; rfl
  unfold Spec.orderedItemOK bulletItemOK
  rw [this]
  simp

/-- **Every node of the exported tree**: the item clauses hold, and no node is a link. -/
theorem mark_nodes {src : Bytes} : ∀ b : PB, PBGrammar b → PBMark src b → ∀ t ∈ Spec.T.nodes (pbToTree b),
    (Spec.orderedItemOK src t = true ∧ bulletItemOK src t = true) ∧ Spec.T.isI t IK.link = false := by
  apply PB.ind
  intro l bs is ih hG hM t ht
  have hloc := (PBGrammar_mk l bs is).1 hG
  have hmk := (PBMark_mk src l bs is).1 hM
  rw [nodes_eq, List.mem_cons] at ht
  rcases ht with rfl | ht
  · refine ⟨item_clauses _ hG hM, ?_⟩
    unfold Spec.T.isI
    rw [(pbToTree_label (.mk l bs is)).1]; rfl
  · obtain ⟨v, hv, htv⟩ := mem_nodesL ht
    rw [pbToTree_children] at hv
    split at hv
    · have := inline_nodes hloc.1 v hv t htv
      refine ⟨item_clauses_inline this.1, ?_⟩
      unfold Spec.T.isI
      rw [this.1]
      simpa using this.2
    · rw [List.mem_map] at hv
      obtain ⟨c, hc, rfl⟩ := hv
      exact ih c hc (hloc.2 c hc) (hmk.2 c hc) t htv

end GM

/-! ### the theorems -/

/-- **Every root `Parse` delivers for an input without NUL bytes**: grammar, looseness, and the marker of every list item
    is the item's marker text in the root's own source. -/
theorem drain_mark_mem (x : PExt) (fuel : Nat) (source : Bytes) (hz : ∀ c ∈ source, c ≠ 0) :
    ∀ r ∈ (drain (blocksLP x) fuel (memParser source) []).1,
      (PBGrammar r.block ∧ cck r.block.kind = true ∧ PBLoose r.block) ∧ PBMark r.source r.block := by
  rw [RDS.drain_checked_eq_uncond x source fuel]
  have hbuf : (memParser source).buf = source := CM.Model.padNulls_eq_self hz
  exact RDS.drain_M x fuel (memParser source) []
    ⟨⟨RDS.memParser_inv2 source, fun _ h => (by cases h), fun _ h => (by cases h)⟩,
     (by intro c hc; rw [hbuf] at hc; exact hz c hc), fun _ h => (by cases h)⟩ (fun _ h => by cases h)

/-- `Spec.orderedItemOK` at every node of every delivered tree. -/
theorem drain_orderedItemOK (x : PExt) (fuel : Nat) (source : Bytes) (hz : ∀ c ∈ source, c ≠ 0) :
    ∀ r ∈ (drain (blocksLP x) fuel (memParser source) []).1,
      (Spec.T.nodes (pbToTree r.block)).all (Spec.orderedItemOK r.source) = true := by
  intro r hr
  obtain ⟨⟨hG, _, _⟩, hM⟩ := drain_mark_mem x fuel source hz r hr
  rw [List.all_eq_true]
  exact fun t ht => (mark_nodes r.block hG hM t ht).1.1

/-- The bullet clause at every node of every delivered tree. -/
theorem drain_bulletItemOK (x : PExt) (fuel : Nat) (source : Bytes) (hz : ∀ c ∈ source, c ≠ 0) :
    ∀ r ∈ (drain (blocksLP x) fuel (memParser source) []).1,
      (Spec.T.nodes (pbToTree r.block)).all (bulletItemOK r.source) = true := by
  intro r hr
  obtain ⟨⟨hG, _, _⟩, hM⟩ := drain_mark_mem x fuel source hz r hr
  rw [List.all_eq_true]
  exact fun t ht => (mark_nodes r.block hG hM t ht).1.2

/-- `Spec.grammar` with `grammarAt` restricted to what can hold before inline rewriting. -/
def grammarPhase1 (src : Bytes) (root : Tree) : Bool :=
  Spec.rootKindOK root && (Spec.T.nodes root).all (fun t => phase1At t && Spec.orderedItemOK src t) && Spec.noNestedLink root

/-- **Summary: the block half of `Spec.grammar`** for every root `Parse` delivers (input without NUL bytes). -/
theorem drain_grammar_phase1 (x : PExt) (fuel : Nat) (source : Bytes) (hz : ∀ c ∈ source, c ≠ 0) :
    ∀ r ∈ (drain (blocksLP x) fuel (memParser source) []).1, grammarPhase1 r.source (pbToTree r.block) = true := by
  intro r hr
  obtain ⟨⟨hG, hk, hL⟩, hM⟩ := drain_mark_mem x fuel source hz r hr
  have hp := phase1_nodes r.block hG hL (cck_ne_document hk)
  unfold grammarPhase1
  rw [Bool.and_eq_true, Bool.and_eq_true]
  refine ⟨⟨rootKindOK_pbToTree _ hk, ?_⟩, ?_⟩
  · rw [List.all_eq_true]
    intro t ht
    rw [Bool.and_eq_true]
    exact ⟨hp t ht, (mark_nodes r.block hG hM t ht).1.1⟩
  · unfold Spec.noNestedLink
    rw [List.all_eq_true]
    intro t ht
    rw [(mark_nodes r.block hG hM t ht).2]
    rfl

/-- … and for the streaming parser (input below the block-size limit, any read schedule, any final reader error). -/
theorem drain_grammar_phase1_stream (x : PExt) (inp : Bytes) (sched : List Nat) (eofWith : Bool) (fin : RErr)
    (hsmall : Small inp) (hz : ∀ c ∈ inp, c ≠ 0) (fuel : Nat) :
    ∀ r ∈ (drain (blocksLP x) fuel (newBlockParser { data := inp, sched := sched, eofWith := eofWith, fin := fin }) []).1,
      grammarPhase1 r.source (pbToTree r.block) = true := by
  rw [C08_blocks_roots x inp sched eofWith fin hsmall fuel]
  exact drain_grammar_phase1 x fuel inp hz

section Examples
-- non-vacuity: ordered and bullet items, nested, with two-digit numbers
example : (bgRoots "12. a\n13. b\n- c\n  7) d\n").all (fun r => pbMark r.source r.block) = true := by decide +kernel
example : (bgRoots "12. a\n13. b\n- c\n  7) d\n").map (fun r => (r.block.label.char, r.block.blocks.map (·.label.char))) =
    [(0x2E, [0x2E, 0x2E]), (0x2D, [0x2D])] := by decide +kernel
example : ∀ r ∈ bgRoots "12. a\n13. b\n- c\n  7) d\n", grammarPhase1 r.source (pbToTree r.block) = true :=
  drain_grammar_phase1 btX 60 _ (by decide +kernel)
-- `PBMark` rejects an item whose `char` is not the delimiter in the source, and a marker outside the source
example : pbMark (Bytes.ofString "1. a\n") (.mk { kind := BK.listItem, start := 0, char := 0x29 }
    [.mk { kind := BK.listMarker, start := 0, stop := 2 } [] []] []) = false := by decide +kernel
example : pbMark (Bytes.ofString "1. a\n") (.mk { kind := BK.listItem, start := 0, char := 0x2E }
    [.mk { kind := BK.listMarker, start := 0, stop := 2 } [] []] []) = true := by decide +kernel
example : pbMark (Bytes.ofString "1. a\n") (.mk { kind := BK.listItem, start := 0, char := 0x2E }
    [.mk { kind := BK.listMarker, start := 4, stop := 6 } [] []] []) = false := by decide +kernel
-- the streaming theorem: its hypotheses hold for a concrete input and reader script
example : ∀ r ∈ (drain (blocksLP btX) 60 (newBlockParser (Reader.mk (Bytes.ofString "12. a\n- b\n") [3, 1, 4] true RErr.eof)) []).1,
    grammarPhase1 r.source (pbToTree r.block) = true :=
  drain_grammar_phase1_stream btX _ [3, 1, 4] true RErr.eof (small_of_length (by decide +kernel)) (by decide +kernel) 60
end Examples

end CM.Proofs
