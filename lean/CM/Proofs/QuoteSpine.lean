import CM.Proofs.QuoteRel
import CM.Proofs.BlocksFuel
/-
C09 (block-quote half): the last-child spine of related trees.

`BR`-related blocks have related spines (`BR.spineGet`), modifying the blocks at the same depth by functions that
respect `BR` there gives related blocks (`BR.spineModify`), and the tip (`tipDepth`) is at the same depth.

`TopR E P Qb`: the document block `P` of the bare document corresponds to the open block quote `Qb` of the prefixed
document: the children of `Qb` are some closed blocks (`pre`: the images of the root blocks the stream machine has
already cut off on the bare side) followed by blocks `BR`-related to the children of `P`.
-/
namespace CM.Proofs.Quote
open CM CM.Model CM.Gen CM.Proofs.BT

/-- Two options related. -/
inductive OR {α β : Type} (R : α → β → Prop) : Option α → Option β → Prop
  | nn : OR R none none
  | ss {a : α} {b : β} : R a b → OR R (some a) (some b)

theorem OR.none_left {α β : Type} {R : α → β → Prop} {o : Option β} (h : OR R none o) : o = none := by
  cases h; rfl

theorem OR.some_left {α β : Type} {R : α → β → Prop} {a : α} {o : Option β} (h : OR R (some a) o) :
    ∃ b, o = some b ∧ R a b := by
  cases h with | ss r => exact ⟨_, rfl, r⟩

theorem getLast?_snoc {α : Type} (l : List α) (a : α) : (l ++ [a]).getLast? = some a := by simp
theorem dropLast_snoc {α : Type} (l : List α) (a : α) : (l ++ [a]).dropLast = l := by simp

/-- The last children of related child lists. -/
theorem L2.getLast {α β : Type} {R : α → β → Prop} {as : List α} {bs : List β} (h : L2 R as bs) :
    OR R as.getLast? bs.getLast? ∧ L2 R as.dropLast bs.dropLast := by
  rcases h.last with ⟨rfl, rfl⟩ | ⟨as0, a, bs0, b, rfl, rfl, h1, h2⟩
  · exact ⟨.nn, .nil⟩
  · rw [getLast?_snoc, getLast?_snoc, dropLast_snoc, dropLast_snoc]
    exact ⟨.ss h2, h1⟩

variable {E : Env}

/-! ### spines of `BR`-related blocks -/

theorem BR.spineGet_rel : ∀ (d : Nat) (b b' : PB), BR E b b' → OR (BR E) (spineGet b d) (spineGet b' d) := by
  intro d
  induction d with
  | zero => intro b b' h; rw [spineGet_zero, spineGet_zero]; exact .ss h
  | succ d ih =>
    intro b b' h
    obtain ⟨l, bs, is⟩ := b
    obtain ⟨l', bs', is'⟩ := b'
    rw [spineGet_succ, spineGet_succ]
    have hk := ((BR_mk E _ _ _ _ _ _).mp h).2.1.getLast.1
    cases hc : bs.getLast? with
    | none => rw [hc] at hk; rw [hk.none_left]; exact .nn
    | some c =>
      rw [hc] at hk
      obtain ⟨c', e, r⟩ := hk.some_left
      rw [e]; exact ih _ _ r

/-- Modifying related blocks at the same depth of their spines. -/
theorem BR.spineModify_rel (f f' : PB → PB) : ∀ (d : Nat) (b b' : PB), BR E b b' →
    (∀ c c', spineGet b d = some c → spineGet b' d = some c' → BR E c c' → BR E (f c) (f' c')) →
    BR E (spineModify f b d) (spineModify f' b' d) := by
  intro d
  induction d with
  | zero =>
    intro b b' h hf
    rw [spineModify_zero, spineModify_zero]
    exact hf b b' (spineGet_zero b) (spineGet_zero b') h
  | succ d ih =>
    intro b b' h hf
    obtain ⟨l, bs, is⟩ := b
    obtain ⟨l', bs', is'⟩ := b'
    rw [spineModify_succ, spineModify_succ]
    have hb := (BR_mk E _ _ _ _ _ _).mp h
    obtain ⟨hl, hd⟩ := hb.2.1.getLast
    cases hc : bs.getLast? with
    | none =>
      rw [hc] at hl
      cases hc' : bs'.getLast? with
      | none => exact h
      | some c' => rw [hc'] at hl; cases hl
    | some c =>
      rw [hc] at hl
      cases hc' : bs'.getLast? with
      | none => rw [hc'] at hl; cases hl
      | some c' =>
        rw [hc'] at hl
        cases hl with
        | ss r =>
          simp only []
          rw [BR_mk]
          refine ⟨hb.1, hd.concat ?_, hb.2.2⟩
          apply ih c c' r
          intro x x' hx hx' hr
          exact hf x x' (by rw [spineGet_succ, hc]; exact hx) (by rw [spineGet_succ, hc']; exact hx') hr

theorem tipDepth_mk (l : PLabel) (bs : List PB) (is : List Tree) (d : Nat) :
    tipDepth (.mk l bs is) d = match bs.getLast? with
      | some c => if c.isOpen then tipDepth c (d + 1) else d
      | none => d := by
  rw [tipDepth]
  split <;> rename_i h <;> simp [h]

theorem BR.tipDepth_eq : ∀ (n : Nat) (b b' : PB) (d : Nat), sizeOf b ≤ n → BR E b b' → tipDepth b' d = tipDepth b d := by
  intro n
  induction n with
  | zero => intro b b' d hs; obtain ⟨l, bs, is⟩ := b; simp at hs
  | succ n ih =>
    intro b b' d hs h
    obtain ⟨l, bs, is⟩ := b
    obtain ⟨l', bs', is'⟩ := b'
    rw [tipDepth_mk, tipDepth_mk]
    have hb := (BR_mk E _ _ _ _ _ _).mp h
    obtain ⟨hl, _⟩ := hb.2.1.getLast
    cases hc : bs.getLast? with
    | none =>
      rw [hc] at hl
      cases hc' : bs'.getLast? with
      | none => rfl
      | some c' => rw [hc'] at hl; cases hl
    | some c =>
      rw [hc] at hl
      cases hc' : bs'.getLast? with
      | none => rw [hc'] at hl; cases hl
      | some c' =>
        rw [hc'] at hl
        cases hl with
        | ss r =>
          simp only []
          rw [r.isOpen]
          have hsz : sizeOf c ≤ n := by
            have := List.sizeOf_lt_of_mem (List.mem_of_getLast? hc)
            simp at hs
            omega
          rw [ih c c' (d + 1) hsz r]

theorem BR.spineLength_eq : ∀ (n : Nat) (b b' : PB), sizeOf b ≤ n → BR E b b' → spineLength b' = spineLength b := by
  intro n
  induction n with
  | zero => intro b b' hs; obtain ⟨l, bs, is⟩ := b; simp at hs
  | succ n ih =>
    intro b b' hs h
    obtain ⟨l, bs, is⟩ := b
    obtain ⟨l', bs', is'⟩ := b'
    rw [spineLength_mk, spineLength_mk]
    have hb := (BR_mk E _ _ _ _ _ _).mp h
    obtain ⟨hl, _⟩ := hb.2.1.getLast
    cases hc : bs.getLast? with
    | none =>
      rw [hc] at hl
      cases hc' : bs'.getLast? with
      | none => rfl
      | some c' => rw [hc'] at hl; cases hl
    | some c =>
      rw [hc] at hl
      cases hc' : bs'.getLast? with
      | none => rw [hc'] at hl; cases hl
      | some c' =>
        rw [hc'] at hl
        cases hl with
        | ss r =>
          simp only []
          have hsz : sizeOf c ≤ n := by
            have := List.sizeOf_lt_of_mem (List.mem_of_getLast? hc)
            simp at hs
            omega
          rw [ih c c' hsz r]

/-- Changing only the label, compatibly. -/
theorem BR.setLabel {b b' : PB} (g : PLabel → PLabel) (h : BR E b b') (hg : LR E (g b.label) (g b'.label))
    (hk : (g b.label).kind = b.label.kind) : BR E (b.setLabel g) (b'.setLabel g) := by
  obtain ⟨l, bs, is⟩ := b
  obtain ⟨l', bs', is'⟩ := b'
  have hb := (BR_mk E _ _ _ _ _ _).mp h
  show BR E (.mk (g l) bs is) (.mk (g l') bs' is')
  rw [BR_mk]
  refine ⟨hg, hb.2.1, ?_⟩
  have : (g l).kind = l.kind := hk
  rw [this]; exact hb.2.2

theorem setBlankFlags_zero (v : Bool) (l : PLabel) (bs : List PB) (is : List Tree) :
    setBlankFlags v (.mk l bs is) 0 = .mk { l with lastLineBlank := v } bs is := rfl

theorem setBlankFlags_succ (v : Bool) (l : PLabel) (bs : List PB) (is : List Tree) (d : Nat) :
    setBlankFlags v (.mk l bs is) (d + 1) = match bs.getLast? with
      | some c => .mk { l with lastLineBlank := v } (bs.dropLast ++ [setBlankFlags v c d]) is
      | none => .mk { l with lastLineBlank := v } bs is := rfl

theorem LR.setBlank {l l' : PLabel} (h : LR E l l') (v : Bool) :
    LR E { l with lastLineBlank := v } { l' with lastLineBlank := v } :=
  ⟨h.kind, h.n, h.char, h.indent, h.loose, rfl, h.start, h.openIff, h.stop⟩

theorem BR.setBlankFlags_rel (v : Bool) : ∀ (d : Nat) (b b' : PB), BR E b b' →
    BR E (setBlankFlags v b d) (setBlankFlags v b' d) := by
  intro d
  induction d with
  | zero =>
    intro b b' h
    obtain ⟨l, bs, is⟩ := b
    obtain ⟨l', bs', is'⟩ := b'
    have hb := (BR_mk E _ _ _ _ _ _).mp h
    rw [setBlankFlags_zero, setBlankFlags_zero, BR_mk]
    exact ⟨hb.1.setBlank v, hb.2.1, hb.2.2⟩
  | succ d ih =>
    intro b b' h
    obtain ⟨l, bs, is⟩ := b
    obtain ⟨l', bs', is'⟩ := b'
    have hb := (BR_mk E _ _ _ _ _ _).mp h
    rw [setBlankFlags_succ, setBlankFlags_succ]
    obtain ⟨hl, hd⟩ := hb.2.1.getLast
    cases hc : bs.getLast? with
    | none =>
      rw [hc] at hl
      cases hc' : bs'.getLast? with
      | none => simp only []; rw [BR_mk]; exact ⟨hb.1.setBlank v, hb.2.1, hb.2.2⟩
      | some c' => rw [hc'] at hl; cases hl
    | some c =>
      rw [hc] at hl
      cases hc' : bs'.getLast? with
      | none => rw [hc'] at hl; cases hl
      | some c' =>
        rw [hc'] at hl
        cases hl with
        | ss r =>
          simp only []
          rw [BR_mk]
          exact ⟨hb.1.setBlank v, hd.concat (ih c c' r), hb.2.2⟩

/-! ### the document of the bare side and the block quote of the prefixed side -/

/-- The label of the block quote that contains the whole prefixed document. -/
structure QLab (l : PLabel) : Prop where
  kind : l.kind = BK.blockQuote
  start : l.start = 0
  stop : l.stop < 0
  n : l.n = 0
  char : l.char = 0
  indent : l.indent = 0
  loose : l.loose = false

/-- The children of the block quote that belong to root blocks already delivered on the bare side: closed, and (as
    trees, i.e. up to the blank-line flags) the ones recorded in the environment. -/
def PreOK (E : Env) (pre : List PB) : Prop := (∀ b ∈ pre, 0 ≤ b.label.stop) ∧ pre.map pbToTree = E.done

structure TopR (E : Env) (P Qb : PB) : Prop where
  pkind : P.label.kind = BK.document
  popen : P.label.stop < 0
  qlab : QLab Qb.label
  qinl : Qb.inlines = []
  kids : ∃ pre bs', Qb.blocks = pre ++ bs' ∧ PreOK E pre ∧ L2 (BR E) P.blocks bs'

theorem getLast?_append_ne' {α : Type} (a b : List α) (hb : b ≠ []) : (a ++ b).getLast? = b.getLast? := by
  rw [List.getLast?_append]
  cases h : b.getLast? with
  | none => exact absurd (List.getLast?_eq_none_iff.mp h) hb
  | some x => rfl

theorem dropLast_append_ne' {α : Type} (a b : List α) (hb : b ≠ []) : (a ++ b).dropLast = a ++ b.dropLast := by
  induction a with
  | nil => rfl
  | cons x t ih =>
    cases h : t ++ b with
    | nil =>
      have : b = [] := (List.append_eq_nil_iff.mp h).2
      exact absurd this hb
    | cons y r =>
      rw [List.cons_append, h, List.dropLast_cons_cons, ← h, ih]
      rfl

/-- Below the top: the spine of the document of the bare side is matched on the prefixed side. -/
theorem TopR.spineGet_succ {P Qb : PB} (h : TopR E P Qb) (d : Nat) {c : PB} (hc : spineGet P (d + 1) = some c) :
    ∃ c', spineGet Qb (d + 1) = some c' ∧ BR E c c' := by
  obtain ⟨lp, bs, isP⟩ := P
  obtain ⟨lq, bq, isq⟩ := Qb
  obtain ⟨pre, bs', e, _, hr⟩ := h.kids
  simp only [PB.blocks] at e hr
  rw [BT.spineGet_succ] at hc ⊢
  cases hl : bs.getLast? with
  | none => rw [hl] at hc; cases hc
  | some x =>
    rw [hl] at hc
    have hne : bs ≠ [] := by intro e0; rw [e0] at hl; cases hl
    have hne' : bs' ≠ [] := fun e0 => hne (hr.nil_iff.mpr e0)
    obtain ⟨hg, _⟩ := hr.getLast
    rw [e, getLast?_append_ne' _ _ hne']
    rw [hl] at hg
    cases hx : bs'.getLast? with
    | none => rw [hx] at hg; cases hg
    | some x' =>
      rw [hx] at hg
      cases hg with
      | ss r =>
        have := BR.spineGet_rel d x x' r
        simp only [] at hc ⊢
        rw [hc] at this
        cases hx2 : Model.spineGet x' d with
        | none => rw [hx2] at this; cases this
        | some c' => rw [hx2] at this; cases this with | ss r2 => exact ⟨c', rfl, r2⟩

/-- When the document of the bare side has no open child at depth 1, neither has the block quote. -/
theorem TopR.spineGet_one_none {P Qb : PB} (h : TopR E P Qb) (hc : spineGet P 1 = none) :
    spineGet Qb 1 = none ∨ ∃ c', spineGet Qb 1 = some c' ∧ c'.isOpen = false := by
  obtain ⟨lp, bs, isP⟩ := P
  obtain ⟨lq, bq, isq⟩ := Qb
  obtain ⟨pre, bs', e, hpre, hr⟩ := h.kids
  simp only [PB.blocks] at e hr
  rw [BT.spineGet_succ] at hc ⊢
  cases hl : bs.getLast? with
  | some x => rw [hl] at hc; simp only [spineGet_zero] at hc; cases hc
  | none =>
    have hnil : bs = [] := List.getLast?_eq_none_iff.mp hl
    have hnil' : bs' = [] := hr.nil_iff.mp hnil
    rw [e, hnil', List.append_nil]
    cases hp : pre.getLast? with
    | none => left; rfl
    | some c' =>
      right
      refine ⟨c', by simp only [spineGet_zero], ?_⟩
      have := hpre.1 c' (List.mem_of_getLast? hp)
      simp only [PB.isOpen, decide_eq_false_iff_not]
      omega

/-- Modifying below the top. -/
theorem TopR.spineModify_succ {P Qb : PB} (h : TopR E P Qb) (f f' : PB → PB) (d : Nat)
    (hv : (spineGet P (d + 1)).isSome)
    (hf : ∀ c c', spineGet P (d + 1) = some c → spineGet Qb (d + 1) = some c' → BR E c c' → BR E (f c) (f' c')) :
    TopR E (spineModify f P (d + 1)) (spineModify f' Qb (d + 1)) := by
  obtain ⟨lp, bs, isP⟩ := P
  obtain ⟨lq, bq, isq⟩ := Qb
  obtain ⟨pre, bs', e, hpre, hr⟩ := h.kids
  simp only [PB.blocks] at e hr
  subst e
  rw [BT.spineGet_succ] at hv
  cases hl : bs.getLast? with
  | none => rw [hl] at hv; cases hv
  | some x =>
    have hne : bs ≠ [] := by intro e0; rw [e0] at hl; cases hl
    have hne' : bs' ≠ [] := fun e0 => hne (hr.nil_iff.mpr e0)
    obtain ⟨hg, hd⟩ := hr.getLast
    rw [hl] at hg
    cases hx : bs'.getLast? with
    | none => rw [hx] at hg; cases hg
    | some x' =>
      rw [hx] at hg
      cases hg with
      | ss r =>
        have hlq : (pre ++ bs').getLast? = some x' := by rw [getLast?_append_ne' _ _ hne', hx]
        rw [BT.spineModify_succ, BT.spineModify_succ, hl, hlq]
        simp only []
        refine ⟨h.pkind, h.popen, h.qlab, h.qinl, pre, bs'.dropLast ++ [spineModify f' x' d], ?_, hpre, ?_⟩
        · simp only [PB.blocks]
          rw [dropLast_append_ne' _ _ hne', List.append_assoc]
        · simp only [PB.blocks]
          apply hd.concat
          apply BR.spineModify_rel f f' d x x' r
          intro c c' hc hc' hcc
          exact hf c c' (by rw [BT.spineGet_succ, hl]; exact hc) (by rw [BT.spineGet_succ, hlq]; exact hc') hcc

end CM.Proofs.Quote
