import CM.Proofs.QuoteSim
import CM.Proofs.BlocksSpansOps
/-
C09 (block-quote half), step (2) for the tree operations of the line parser: `closeContainer`, `closeLastChild`,
`openBlock` (with `openBlockLoop`), `appendInline`, label modifications (`setContainerIndent`, the setext morph),
`collectInline`, `endBlock` take `Sim`-related parsers to `Sim`-related parsers.
-/
namespace CM.Proofs.Quote
open CM CM.Model CM.Gen CM.Proofs.BT

variable {E : Env} {k : Nat} {p q : LP}

/-! ### closing the last child -/

theorem BR.replaceLast_close {x : PExt} (HC : CloseParaSim x E) {e e' : Int} (he : 0 ≤ e) (he' : 0 ≤ e') (hp : E.PR e e')
    {c c' : PB} (h : BR E c c') :
    BR E (replaceLastFn (closeBlock x E.src e) c) (replaceLastFn (closeBlock x E.src' e') c') := by
  obtain ⟨l, bs, is⟩ := c
  obtain ⟨l', bs', is'⟩ := c'
  have hb := (BR_mk E _ _ _ _ _ _).mp h
  obtain ⟨hl, hd⟩ := hb.2.1.getLast
  simp only [replaceLastFn]
  cases hc : bs.getLast? with
  | none =>
    rw [hc] at hl; rw [hl.none_left]
    exact h
  | some a =>
    rw [hc] at hl
    obtain ⟨a', ea, r⟩ := hl.some_left
    rw [ea]
    simp only []
    rw [BR_mk]
    exact ⟨hb.1, hd.append (closeBlock_rel HC he he' hp a a' r), hb.2.2⟩

theorem TopR.closeLast0 {x : PExt} (HC : CloseParaSim x E) {e e' : Int} (he : 0 ≤ e) (he' : 0 ≤ e') (hp : E.PR e e')
    {P Qb : PB} (h : TopR E P Qb) :
    TopR E (replaceLastFn (closeBlock x E.src e) P) (replaceLastFn (closeBlock x E.src' e') Qb) := by
  obtain ⟨lp, bs, isP⟩ := P
  obtain ⟨lq, bq, isq⟩ := Qb
  obtain ⟨pre, bs', ebq, hpre, hr⟩ := h.kids
  simp only [PB.blocks] at ebq hr
  subst ebq
  simp only [replaceLastFn]
  obtain ⟨hl, hd⟩ := hr.getLast
  cases hc : bs.getLast? with
  | none =>
    have hnil : bs = [] := List.getLast?_eq_none_iff.mp hc
    have hnil' : bs' = [] := hr.nil_iff.mp hnil
    subst hnil'
    rw [List.append_nil]
    cases hp2 : pre.getLast? with
    | none =>
      show TopR E (PB.mk lp bs isP) (PB.mk lq pre isq)
      exact ⟨h.pkind, h.popen, h.qlab, h.qinl, pre, [], by simp [PB.blocks], hpre, by simp only [PB.blocks, hnil]; exact .nil⟩
    | some c' =>
      simp only []
      have hcl : 0 ≤ c'.label.stop := hpre.1 c' (List.mem_of_getLast? hp2)
      rw [BSp.closeBlock_closed x _ e' c' hcl]
      have hne : pre ≠ [] := by intro e0; rw [e0] at hp2; cases hp2
      have : pre.dropLast ++ [c'] = pre := by
        have h1 := List.dropLast_concat_getLast hne
        rw [List.getLast?_eq_some_getLast hne] at hp2
        cases hp2
        exact h1
      rw [this]
      exact ⟨h.pkind, h.popen, h.qlab, h.qinl, pre, [], by simp [PB.blocks], hpre, by simp only [PB.blocks, hnil]; exact .nil⟩
  | some a =>
    rw [hc] at hl
    obtain ⟨a', ea, r⟩ := hl.some_left
    have hne : bs ≠ [] := by intro e0; rw [e0] at hc; cases hc
    have hne' : bs' ≠ [] := fun e0 => hne (hr.nil_iff.mpr e0)
    rw [getLast?_append_ne' _ _ hne', ea]
    simp only []
    refine ⟨h.pkind, h.popen, h.qlab, h.qinl, pre, bs'.dropLast ++ closeBlock x E.src' e' a', ?_, hpre, ?_⟩
    · simp only [PB.blocks]
      rw [dropLast_append_ne' _ _ hne', List.append_assoc]
    · simp only [PB.blocks]
      exact hd.append (closeBlock_rel HC he he' hp a a' r)

/-- Closing the last child of the blocks at depth `d` / `d + 1`. -/
theorem RootR.closeLast {x : PExt} (HC : CloseParaSim x E) {e e' : Int} (he : 0 ≤ e) (he' : 0 ≤ e') (hp : E.PR e e')
    {P Q : PB} (h : RootR E P Q) (d : Nat) (hv : (spineGet P d).isSome) :
    RootR E (spineReplaceLast (closeBlock x E.src e) P d) (spineReplaceLast (closeBlock x E.src' e') Q (d + 1)) := by
  rw [spineReplaceLast_eq, spineReplaceLast_eq]
  apply h.modify _ _ d hv
  · intro _ c c' _ _ r
    exact r.replaceLast_close HC he he' hp
  · intro _ Qb ht
    exact ht.closeLast0 HC he he' hp

theorem Sim.closeLastChild {x : PExt} (HC : CloseParaSim x E) (h : Sim E k p q) {e e' : Int} (he : 0 ≤ e) (he' : 0 ≤ e')
    (hp : E.PR e e') : Sim E k (p.closeLastChild x e) (q.closeLastChild x e') := by
  unfold LP.closeLastChild
  have hr := h.root.closeLast HC he he' hp p.depth h.valid
  have hv : (spineGet (spineReplaceLast (closeBlock x E.src e) p.root p.depth) p.depth).isSome := by
    rw [spineReplaceLast_eq]; exact spineModify_valid _ _ _ h.valid
  rw [← h.srcp, ← h.srcq] at hr
  rw [← h.srcp] at hv
  have := h.setRoot _ _ p.depth hr hv
  rw [h.depth]
  exact this

theorem Sim.closeContainer {x : PExt} (HC : CloseParaSim x E) (h : Sim E k p q) (hd : 1 ≤ p.depth) {e e' : Int}
    (he : 0 ≤ e) (he' : 0 ≤ e') (hp : E.PR e e') : Sim E k (p.closeContainer x e) (q.closeContainer x e') := by
  unfold LP.closeContainer
  have hd1 : (p.depth == 0) = false := by simp; omega
  have hd2 : (q.depth == 0) = false := by rw [h.depth]; simp
  simp only [hd1, hd2, Bool.false_eq_true, if_false]
  have hv0 : (spineGet p.root (p.depth - 1)).isSome := spineGet_isSome_of_le p.depth p.root _ (by omega) h.valid
  have hr := h.root.closeLast HC he he' hp (p.depth - 1) hv0
  have hv : (spineGet (spineReplaceLast (closeBlock x E.src e) p.root (p.depth - 1)) (p.depth - 1)).isSome := by
    rw [spineReplaceLast_eq]; exact spineModify_valid _ _ _ hv0
  rw [← h.srcp, ← h.srcq] at hr
  rw [← h.srcp] at hv
  have := h.setRoot _ _ (p.depth - 1) hr hv
  have e1 : q.depth - 1 = p.depth - 1 + 1 := by rw [h.depth]; omega
  rw [e1]
  exact this

/-! ### `openBlock` -/

theorem Sim.openBlockLoop {x : PExt} (HC : CloseParaSim x E) (kind : Nat) : ∀ (fuel fuel' : Nat) {p q : LP}, Sim E k p q →
    fuel ≤ fuel' → p.depth < fuel → (kind ≠ BK.listItem ∨ Gen.canContain p.containerKind kind = true) →
    Sim E k (LP.openBlockLoop x kind fuel p) (LP.openBlockLoop x kind fuel' q) := by
  intro fuel
  induction fuel with
  | zero => intro _ p q _ _ hlt _; omega
  | succ fuel ih =>
    intro fuel' p q h hle hlt hk
    obtain ⟨f', rfl⟩ : ∃ f', fuel' = f' + 1 := ⟨fuel' - 1, by omega⟩
    unfold LP.openBlockLoop
    rw [h.canContain_eq kind]
    by_cases hcc : Gen.canContain p.containerKind kind = true
    · rw [if_pos hcc, if_pos hcc]; exact h
    · rw [if_neg hcc, if_neg hcc]
      have hkind : kind ≠ BK.listItem := by
        rcases hk with hk | hk
        · exact hk
        · exact absurd hk hcc
      have hd : 1 ≤ p.depth := by
        by_cases hd0 : p.depth = 0
        · rw [(h.containerKind_zero hd0).1, doc_canContain kind hkind] at hcc
          exact absurd rfl hcc
        · omega
      have hd1 : (p.depth == 0) = false := by simp; omega
      have hd2 : (q.depth == 0) = false := by rw [h.depth]; simp
      simp only [hd1, hd2, Bool.false_eq_true, if_false]
      have hc := h.closeContainer (x := x) HC hd (Int.natCast_nonneg _) (Int.natCast_nonneg _) h.start
      have hdep : (p.closeContainer x ↑p.lineStart).depth = p.depth - 1 := by
        unfold LP.closeContainer
        rw [if_neg (by simp; omega)]
      exact ih f' hc (by omega) (by rw [hdep]; omega) (Or.inl hkind)

/-- Appending a child. -/
def addChild (child : PB) : PB → PB := fun b => match b with | .mk l bs is => .mk l (bs ++ [child]) is

theorem BR.addChild {c c' child child' : PB} (h : BR E c c') (hc : BR E child child') :
    BR E (addChild child c) (addChild child' c') := by
  obtain ⟨l, bs, is⟩ := c
  obtain ⟨l', bs', is'⟩ := c'
  have hb := (BR_mk E _ _ _ _ _ _).mp h
  show BR E (.mk l (bs ++ [child]) is) (.mk l' (bs' ++ [child']) is')
  rw [BR_mk]
  exact ⟨hb.1, hb.2.1.concat hc, hb.2.2⟩

theorem TopR.addChild {P Qb child child' : PB} (h : TopR E P Qb) (hc : BR E child child') :
    TopR E (addChild child P) (addChild child' Qb) := by
  obtain ⟨lp, bs, isP⟩ := P
  obtain ⟨lq, bq, isq⟩ := Qb
  obtain ⟨pre, bs', ebq, hpre, hr⟩ := h.kids
  simp only [PB.blocks] at ebq hr
  subst ebq
  show TopR E (.mk lp (bs ++ [child]) isP) (.mk lq (pre ++ bs' ++ [child']) isq)
  exact ⟨h.pkind, h.popen, h.qlab, h.qinl, pre, bs' ++ [child'], by simp [PB.blocks], hpre,
    by simp only [PB.blocks]; exact hr.concat hc⟩

theorem Sim.openBlock {x : PExt} (HC : CloseParaSim x E) (h : Sim E k p q) (kind : Nat) (sa : PLabel → PLabel)
    (hsa : ∀ l l', LR E l l' → LR E (sa l) (sa l')) (hsk : ∀ l, (sa l).kind = l.kind)
    (hk : kind ≠ BK.listItem ∨ Gen.canContain p.containerKind kind = true) (hk2 : kind ≠ BK.linkRefDef) :
    Sim E k (p.openBlock x kind sa) (q.openBlock x kind sa) := by
  unfold LP.openBlock
  rw [h.cur.state]
  split
  · exact h.setPanic _
  · simp only []
    have h1 := h.markMatched
    have hk1 : kind ≠ BK.listItem ∨ Gen.canContain p.markMatched.containerKind kind = true := by
      rw [containerKind_of_tree (markMatched_tree p)]; exact hk
    have h2 := Sim.openBlockLoop HC kind (p.markMatched.depth + 1) (q.markMatched.depth + 1) h1
      (by rw [h1.depth]; omega) (by omega) hk1
    generalize LP.openBlockLoop x kind (p.markMatched.depth + 1) p.markMatched = p2 at h2 ⊢
    generalize LP.openBlockLoop x kind (q.markMatched.depth + 1) q.markMatched = q2 at h2 ⊢
    have h3 := h2.closeLastChild (x := x) HC (Int.natCast_nonneg _) (Int.natCast_nonneg _) h2.start
    generalize p2.closeLastChild x ↑p2.lineStart = p3 at h3 ⊢
    generalize q2.closeLastChild x ↑q2.lineStart = q3 at h3 ⊢
    -- the new child
    have hchild : BR E (.mk (sa { kind := kind, start := p3.lineStart + p3.i }) [] [])
        (.mk (sa { kind := kind, start := q3.lineStart + q3.i }) [] []) := by
      rw [BR_mk]
      refine ⟨hsa _ _ ⟨rfl, rfl, rfl, rfl, rfl, rfl, h3.pos, by simp, fun h0 => by simp at h0⟩, .nil, ?_⟩
      unfold InlR
      rw [hsk, if_neg hk2]
      exact .nil
    have hr := h3.root.modify (addChild _) (addChild _) p3.depth h3.valid
      (fun _ c c' _ _ r => r.addChild hchild) (fun _ Qb ht => ht.addChild hchild)
    have hv : (spineGet (spineModify (addChild (.mk (sa { kind := kind, start := p3.lineStart + p3.i }) [] [])) p3.root p3.depth)
        (p3.depth + 1)).isSome := by
      rw [spineGet_modify_add]
      cases hs3 : spineGet p3.root p3.depth with
      | none => have := h3.valid; rw [hs3] at this; cases this
      | some c =>
        obtain ⟨l, bs, is⟩ := c
        show (spineGet (PB.mk l (bs ++ [_]) is) 1).isSome
        rw [spineGet_succ]
        simp [spineGet_zero]
    have := h3.setRoot _ _ (p3.depth + 1) hr hv
    rw [h3.depth]
    exact this

theorem openBlock_depth_pos (x : PExt) (p : LP) (kind : Nat) (sa : PLabel → PLabel) (hs : p.state ≠ 3 ∧ p.state ≠ 4) :
    1 ≤ (p.openBlock x kind sa).depth := by
  unfold LP.openBlock
  have : (p.state == stateDescending || p.state == stateDescendTerminated) = false := by
    simp only [stateDescending, stateDescendTerminated]
    simp [hs.1, hs.2]
  simp only [this, Bool.false_eq_true, if_false]
  show 1 ≤ _ + 1
  omega

/-! ### `appendInline`, label modifications -/

/-- Appending an inline child. -/
def addInl (t : Tree) : PB → PB := fun b => match b with | .mk l bs is => .mk l bs (is ++ [t])

theorem BR.addInl {c c' : PB} {t t' : Tree} (h : BR E c c') (hk : c.kind ≠ BK.linkRefDef) (ht : IR E t t') :
    BR E (addInl t c) (addInl t' c') := by
  obtain ⟨l, bs, is⟩ := c
  obtain ⟨l', bs', is'⟩ := c'
  have hb := (BR_mk E _ _ _ _ _ _).mp h
  show BR E (.mk l bs (is ++ [t])) (.mk l' bs' (is' ++ [t']))
  rw [BR_mk]
  refine ⟨hb.1, hb.2.1, ?_⟩
  have hi := hb.2.2
  have hk' : l.kind ≠ BK.linkRefDef := hk
  unfold InlR at hi ⊢
  rw [if_neg hk'] at hi ⊢
  exact hi.concat ht

theorem container_of_spineGet {p : LP} {c : PB} (h : spineGet p.root p.depth = some c) : p.container = c := by
  simp only [LP.container, h, Option.getD_some]

/-- Modifying the containers (below the top) by functions that respect `BR` there. -/
theorem Sim.modifyContainer (h : Sim E k p q) (hd : 1 ≤ p.depth) (f f' : PB → PB)
    (hf : BR E p.container q.container → BR E (f p.container) (f' q.container)) :
    Sim E k (p.modifyContainer f) (q.modifyContainer f') := by
  unfold LP.modifyContainer
  have hr := h.root.modify f f' p.depth h.valid
    (fun _ c c' hc hc' r => by
      have e1 := container_of_spineGet hc
      have e2 : q.container = c' := by apply container_of_spineGet; rw [h.depth]; exact hc'
      rw [e1, e2] at hf
      exact hf r)
    (fun h0 => by omega)
  have := h.setRoot _ _ p.depth hr (spineModify_valid _ _ _ h.valid)
  rw [h.depth]
  exact this

theorem Sim.container_pos (h : Sim E k p q) (hd : 1 ≤ p.depth) : BR E p.container q.container := by
  rcases h.container with ⟨h0, _⟩ | ⟨_, r⟩
  · omega
  · exact r

theorem Sim.appendInline (h : Sim E k p q) (hd : 1 ≤ p.depth) (hk : p.containerKind ≠ BK.linkRefDef) {t t' : Tree}
    (ht : IR E t t') : Sim E k (p.appendInline t) (q.appendInline t') := by
  unfold LP.appendInline
  exact h.modifyContainer hd _ _ fun r => BR.addInl r hk ht

/-- A label modification that keeps `LR` and does not make (or unmake) a link reference definition. -/
theorem BR.setLabel' {b b' : PB} (g : PLabel → PLabel) (h : BR E b b') (hg : LR E (g b.label) (g b'.label))
    (hk : b.label.kind ≠ BK.linkRefDef) (hk' : (g b.label).kind ≠ BK.linkRefDef) : BR E (b.setLabel g) (b'.setLabel g) := by
  obtain ⟨l, bs, is⟩ := b
  obtain ⟨l', bs', is'⟩ := b'
  have hb := (BR_mk E _ _ _ _ _ _).mp h
  show BR E (.mk (g l) bs is) (.mk (g l') bs' is')
  rw [BR_mk]
  refine ⟨hg, hb.2.1, ?_⟩
  have hi := hb.2.2
  have hk1 : l.kind ≠ BK.linkRefDef := hk
  have hk2 : (g l).kind ≠ BK.linkRefDef := hk'
  unfold InlR at hi ⊢
  rw [if_neg hk1] at hi
  rw [if_neg hk2]
  exact hi

theorem Sim.setLabel (h : Sim E k p q) (hd : 1 ≤ p.depth) (g : PLabel → PLabel)
    (hg : ∀ l l', LR E l l' → LR E (g l) (g l')) (hk : p.containerKind ≠ BK.linkRefDef)
    (hk' : (g p.container.label).kind ≠ BK.linkRefDef) :
    Sim E k (p.modifyContainer (PB.setLabel g)) (q.modifyContainer (PB.setLabel g)) :=
  h.modifyContainer hd _ _ fun r => r.setLabel' g (hg _ _ r.label) hk hk'

theorem LR.setIndent {l l' : PLabel} (h : LR E l l') (n : Int) : LR E { l with indent := n } { l' with indent := n } :=
  ⟨h.kind, h.n, h.char, rfl, h.loose, h.blank, h.start, h.openIff, h.stop⟩

theorem Sim.setContainerIndent (h : Sim E k p q) (n : Int) : Sim E k (p.setContainerIndent n) (q.setContainerIndent n) := by
  unfold LP.setContainerIndent
  rw [h.cur.state]
  split
  · exact h.setPanic _
  · by_cases hk : p.containerKind = BK.listItem ∨ p.containerKind = BK.fencedCode
    · have hd : 1 ≤ p.depth := by
        by_cases hd0 : p.depth = 0
        · have := (h.containerKind_zero hd0).1
          rcases hk with hk | hk <;> rw [hk] at this <;> cases this
        · omega
      have e : q.containerKind = p.containerKind := h.containerKind_pos hd
      rw [e]
      split
      · exact h.setPanic _
      · apply h.setLabel hd
        · intro l l' r; exact r.setIndent n
        · rcases hk with hk | hk <;> rw [hk] <;> decide
        · show p.container.label.kind ≠ _
          have : p.container.label.kind = p.containerKind := rfl
          rw [this]
          rcases hk with hk | hk <;> rw [hk] <;> decide
    · have hkq : ¬ (q.containerKind = BK.listItem ∨ q.containerKind = BK.fencedCode) := by
        rw [h.containerKind_eq_iff _ (by decide) (by decide), h.containerKind_eq_iff _ (by decide) (by decide)]
        exact hk
      have c1 : (p.containerKind != BK.listItem && p.containerKind != BK.fencedCode) = true := by
        simp only [Bool.and_eq_true, bne_iff_ne, ne_eq]
        exact ⟨fun e => hk (Or.inl e), fun e => hk (Or.inr e)⟩
      have c2 : (q.containerKind != BK.listItem && q.containerKind != BK.fencedCode) = true := by
        simp only [Bool.and_eq_true, bne_iff_ne, ne_eq]
        exact ⟨fun e => hkq (Or.inl e), fun e => hkq (Or.inr e)⟩
      rw [if_pos c1, if_pos c2]
      exact h.setPanic _

/-! ### `endBlock` -/

theorem Sim.endBlock {x : PExt} (HC : CloseParaSim x E) (h : Sim E k p q) (hd : 1 ≤ p.depth) :
    Sim E k (p.endBlock x) (q.endBlock x) := by
  unfold LP.endBlock
  rw [h.cur.state]
  split
  · exact h.setPanic _
  · simp only []
    have h1 := h.markMatched
    have hd1 : 1 ≤ p.markMatched.depth := by
      have := markMatched_tree p
      simp only [tree, Prod.mk.injEq] at this
      rw [this.2.2.1]; exact hd
    exact h1.closeContainer HC hd1 (by omega) (by omega) h1.pos

end CM.Proofs.Quote
