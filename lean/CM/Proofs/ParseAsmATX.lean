import CM.Proofs.ParseScanRd
/-
C02 / C04, inline halves — towards `TailSafe` for ATX headings: **`parseATXHeading` cuts the content before white space, a
`#`, or the end of the line** (the recognizer's half of `TailSafe`; `startATX` collects the Unparsed run
`[start, stop)` of `bytesAfterIndent`).  Carrying this through the line parser to the delivered root (a third block-phase
invariant next to `PS.PP` / `PSh.PQ`) is NOT done here.
-/
namespace CM.Proofs.PSc
open CM CM.Model CM.Gen CM.Spec

/-- `r` is `n`, or below `n` at a byte satisfying `P`. -/
def CutAt (line : Bytes) (P : UInt8 → Prop) (n r : Nat) : Prop := r = n ∨ (r < n ∧ P (line.getD r 0))

def IsWS (c : UInt8) : Prop := c = SP ∨ c = TAB ∨ c = LF ∨ c = CR

theorem atxScanBack_cut (line : Bytes) (start : Nat) : ∀ n : Nat, CutAt line IsWS n (atxScanBack line start n).1 := by
  intro n
  induction n with
  | zero => left; rfl
  | succ e ih =>
    unfold atxScanBack
    split
    · left; rfl
    · split
      · left; rfl
      · rename_i c hc
        have hgd : line.getD e 0 = c := by simp only [List.getD_eq_getElem?_getD, hc, Option.getD_some]
        have hstep : IsWS c → CutAt line IsWS (e + 1) (atxScanBack line start e).1 := by
          intro hw
          rcases ih with h | ⟨h1, h2⟩
          · right; rw [h]; exact ⟨Nat.lt_succ_self _, by rw [hgd]; exact hw⟩
          · right; exact ⟨by omega, h2⟩
        split
        · rename_i hcl
          apply hstep
          simp only [Bool.or_eq_true, beq_iff_eq] at hcl
          rcases hcl with h | h
          · exact Or.inr (Or.inr (Or.inr h))
          · exact Or.inr (Or.inr (Or.inl h))
        · split
          · rename_i hsp
            split
            · left; rfl
            · apply hstep
              simp only [Bool.or_eq_true, beq_iff_eq] at hsp
              rcases hsp with h | h
              · exact Or.inl h
              · exact Or.inr (Or.inl h)
          · split <;> (left; rfl)

theorem atxScanBack_hit (line : Bytes) (start : Nat) : ∀ n : Nat, (atxScanBack line start n).2 = true →
    start < (atxScanBack line start n).1 := by
  intro n
  induction n with
  | zero => intro h; simp [atxScanBack] at h
  | succ e ih =>
    unfold atxScanBack
    split
    · intro h; cases h
    · split
      · intro h; cases h
      · split
        · exact ih
        · split
          · split
            · intro h; cases h
            · exact ih
          · split
            · intro _; show start < e + 1; omega
            · intro h; cases h

theorem atxScanHashes_cut (line : Bytes) (start : Nat) : ∀ (n e : Nat), start ≤ n → atxScanHashes line start n = some e →
    CutAt line (· = 0x23) n e := by
  intro n
  induction n with
  | zero =>
    intro e hs h
    unfold atxScanHashes at h
    simp only [Option.some.injEq] at h
    left; omega
  | succ i ih =>
    intro e hs h
    unfold atxScanHashes at h
    split at h
    · simp only [Option.some.injEq] at h
      left; omega
    · split at h
      · cases h
      · rename_i c hc
        have hgd : line.getD i 0 = c := by simp only [List.getD_eq_getElem?_getD, hc, Option.getD_some]
        split at h
        · rename_i hh
          have hh' : c = 0x23 := by simpa using hh
          rcases ih e (by omega) h with h' | ⟨h1, h2⟩
          · right; rw [h']; exact ⟨Nat.lt_succ_self _, by rw [hgd, hh']⟩
          · right; exact ⟨by omega, h2⟩
        · split at h
          · simp only [Option.some.injEq] at h
            left; omega
          · cases h

theorem atxTrim_cut (line : Bytes) (start : Nat) : ∀ n : Nat, CutAt line (fun c => c = SP ∨ c = TAB) n (atxTrim line start n) := by
  intro n
  induction n with
  | zero => left; rfl
  | succ e ih =>
    unfold atxTrim
    split
    · left; rfl
    · split
      · left; rfl
      · rename_i b hb
        have hgd : line.getD e 0 = b := by simp only [List.getD_eq_getElem?_getD, hb, Option.getD_some]
        split
        · left; rfl
        · rename_i hcond
          have hsp : b = SP ∨ b = TAB := by
            cases hq : (b == SP || b == TAB) with
            | true => simpa using hq
            | false => rw [hq] at hcond; simp at hcond
          rcases ih with h | ⟨h1, h2⟩
          · right; rw [h]; exact ⟨Nat.lt_succ_self _, by rw [hgd]; exact hsp⟩
          · right; exact ⟨by omega, h2⟩

theorem SafeAt.cut {line : Bytes} {P : UInt8 → Prop} {n r : Nat} (hn : PSc.SafeAt line n)
    (hP : ∀ c, P c → c = SP ∨ c = TAB ∨ c = LF ∨ c = CR ∨ c = 0x23) (h : CutAt line P n r) : PSc.SafeAt line r := by
  rcases h with h | ⟨_, h2⟩
  · rw [h]; exact hn
  · exact Or.inr (hP _ h2)

/-- **The content of an ATX heading is followed by the end of the line, white space, or `#`.** -/
theorem parseATXHeading_stop_safe (line : Bytes) (h : 1 ≤ (parseATXHeading line).level) :
    PSc.SafeAt line (parseATXHeading line).stop := by
  unfold parseATXHeading at h ⊢
  simp only [] at h ⊢
  generalize countPrefix 0x23 line = level at h ⊢
  split
  · rename_i hbad; rw [if_pos hbad] at h; simp at h
  · split
    · rename_i hnone
      left
      have : line.length ≤ level := by simpa using hnone
      exact this
    · rename_i c hc
      have hgd : line.getD level 0 = c := by simp [List.getD_eq_getElem?_getD, hc]
      split
      · rename_i hnl
        right
        show line.getD level 0 = SP ∨ _
        rw [hgd]
        simp only [Bool.or_eq_true, beq_iff_eq] at hnl
        rcases hnl with e | e
        · exact Or.inr (Or.inr (Or.inl e))
        · exact Or.inr (Or.inr (Or.inr (Or.inl e)))
      · split
        · rename_i _ hbad; rw [if_neg (by assumption), hc] at h; simp only [] at h
          rw [if_neg (by assumption), if_pos hbad] at h; simp at h
        · generalize level + 1 + skipSpTab (line.drop (level + 1)) = start
          have h1 : PSc.SafeAt line (atxScanBack line start line.length).1 :=
            SafeAt.cut (Or.inl (Nat.le_refl _))
              (fun c hc => by
                rcases hc with e | e | e | e
                · exact Or.inl e
                · exact Or.inr (Or.inl e)
                · exact Or.inr (Or.inr (Or.inl e))
                · exact Or.inr (Or.inr (Or.inr (Or.inl e))))
              (atxScanBack_cut line start line.length)
          have h2 := atxScanBack_hit line start line.length
          generalize atxScanBack line start line.length = sb at h1 h2
          obtain ⟨e, hit⟩ := sb
          simp only [] at h1 h2 ⊢
          split
          · exact h1
          · split
            · exact h1
            · rename_i e' he'
              rename_i hh _
              have hhit : hit = true := by simpa using hh
              have h3 : PSc.SafeAt line e' :=
                SafeAt.cut h1 (fun c hc => Or.inr (Or.inr (Or.inr (Or.inr hc))))
                  (atxScanHashes_cut line start e e' (Nat.le_of_lt (h2 hhit)) he')
              exact SafeAt.cut h3
                (fun c hc => by
                  rcases hc with e | e
                  · exact Or.inl e
                  · exact Or.inr (Or.inl e))
                (atxTrim_cut line start e')

/-- Non-vacuity: `# H *a* ##⏎` — the content `[2, 7)` is followed by a space; `# a\ ⏎` keeps the escaped space. -/
example : (parseATXHeading (Bytes.ofString "# H *a* ##\n")) = ⟨1, 2, 7⟩ := by decide +kernel
example : (parseATXHeading (Bytes.ofString "## a\\ \n")) = ⟨2, 3, 6⟩ := by decide +kernel
example : (parseATXHeading (Bytes.ofString "# ###\n")) = ⟨1, 2, 2⟩ := by decide +kernel

end CM.Proofs.PSc

#print axioms CM.Proofs.PSc.parseATXHeading_stop_safe
