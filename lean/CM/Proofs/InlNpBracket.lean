import CM.Proofs.InlNpFinish
/-
C04, inline half — `parseEndBracket` does not panic.
-/
namespace CM.Proofs.InlH
open CM CM.Model CM.Model.Inl CM.Gen
open Std.Do

set_option mvcgen.warning false

theorem lookForLinkOrImage_np0 (s0 : IState) :
    ⦃fun s => ⌜s = s0⌝⦄ lookForLinkOrImage ⦃⇓! _ _ => ⌜True⌝⦄ := by
  mvcgen [lookForLinkOrImage, delStack, -lookForLinkOrImage_spec, -lookForLinkOrImage_specS, -lookForLinkOrImage_specP,
    -delStack_spec, -delStack_specS]
  case inv1 =>
    exact PostCond.np (fun (q : _ × (Option Int × Int)) s =>
      ⌜(q.1.suffix ≠ [] → q.2.1 = none) ∧
        (q.2.1 = none → s = s0 ∧ q.2.2 = (s0.stack.size : Int) - 1 - q.1.prefix.length)⌝)
  np_norm
  all_goals (try trivial)
  all_goals (try (exact fun h => h))
  all_goals (try (exact ExceptConds.entails.refl _))
  all_goals (
    have hlen : ∀ (pref suff : List Nat) (cur n : Nat), [:n].toList = pref ++ cur :: suff → pref.length < n := by
      intro pref suff cur n h
      have := congrArg List.length h
      simp at this
      omega)
  · -- the bounds of `delStack`
    obtain ⟨h0, h1⟩ := ‹(_ ≠ [] → _) ∧ (_ = none → _)›
    obtain ⟨hs, hi⟩ := h1 (h0 (by simp))
    subst hs
    subst_vars
    have hl := hlen _ _ _ _ ‹_›
    have hbs := ‹(_ || _ || _) = true›
    simp only [Bool.or_eq_true, decide_eq_true_eq] at hbs
    simp -failIfUnchanged +zetaDelta only [] at *
    omega
  · exact ⟨fun h => absurd rfl h, fun h => by cases h⟩
  · exact ⟨fun h => absurd rfl h, fun h => by cases h⟩
  · obtain ⟨h0, h1⟩ := ‹(_ ≠ [] → _) ∧ (_ = none → _)›
    obtain ⟨hs, hi⟩ := h1 (h0 (by simp))
    refine ⟨fun _ => trivial, fun _ => ⟨hs, ?_⟩⟩
    simp -failIfUnchanged +zetaDelta only [List.length_append, List.length_cons, List.length_nil] at *
    omega
  · refine ⟨fun _ => trivial, fun _ => ⟨‹_›, ?_⟩⟩
    subst_vars
    simp -failIfUnchanged +zetaDelta only [List.length_nil]
    omega

@[spec 30000]
theorem lookForLinkOrImage_np (s0 : IState) :
    ⦃fun s => ⌜s = s0⌝⦄ lookForLinkOrImage
    ⦃⇓! r s => ⌜(0 ≤ r ∧ r.toNat < s0.stack.size ∧ s = s0) ∨
        (r = -1 ∧ (s = s0 ∨ ∃ i, i < s0.stack.size ∧ s = delSt s0 i (i + 1)))⌝⦄ :=
  np_of_post (lookForLinkOrImage_np0 s0) (lookForLinkOrImage_specP s0)

theorem parseInlineLink_np0 (c : ICtx) (start : Int) (s0 : IState) :
    ⦃fun s => ⌜s = s0 ∧ s0.unparsedPos ≤ c.unparsed.size⌝⦄ parseInlineLink c start ⦃⇓! _ _ => ⌜True⌝⦄ := by
  mvcgen [parseInlineLink, setUnparsedPos, -parseInlineLink_spec, -parseInlineLink_specS, -parseInlineLink_specP]
  all_goals (first | trivial | (obtain ⟨rfl, h2⟩ := ‹_ = s0 ∧ _›; exact ⟨trivial, h2⟩))

@[spec 30000]
theorem parseInlineLink_np (c : ICtx) (hc : c.unparsed = c.unparsedL.toArray) (start : Int) (s0 : IState) :
    ⦃fun s => ⌜s = s0 ∧ s0.unparsedPos ≤ c.unparsed.size⌝⦄ parseInlineLink c start
    ⦃⇓! r s => ⌜(parseInlineLink c start).run s0 = .ok (r, s) ∧ s.nodes = s0.nodes ∧ s.stack = s0.stack ∧
        s.parentMap = s0.parentMap ∧ s.ignoreNextIndent = s0.ignoreNextIndent ∧
        (r.span.isValid = true → PosOK c s r.span.stop) ∧ (r.span.isValid = false → s = s0)⌝⦄ :=
  np_of_post (parseInlineLink_np0 c start s0)
    (by
      have := parseInlineLink_specP c hc start s0
      apply Post.triple
      intro s hs
      exact Post.of_triple this s hs.1)

end CM.Proofs.InlH
