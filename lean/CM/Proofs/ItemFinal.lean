import CM.Proofs.ItemMain
import CM.Proofs.QuoteGFinal
/-
C09, list-item half, block phase — the stream-level theorem.

`blocks_item_sim`: let `m` be a list marker (`IP`: recognised in full when a space follows, first byte none of
space `>` `#` backtick `~` `<`, no tab / CR / LF / NUL), `1 ≤ N ≤ 4`, and `D` a document without tab, carriage return
and NUL, not empty, that begins with a non-space, has no blank line, none of whose lines is (or ends with) a setext
heading underline, and such that the first line of `item m N D` is not a thematic break.  Then `item m N D` parses to
exactly one root spanning the whole input: a list whose only child is a list item (content offset `|m| + N`), whose
children are — as trees — the list marker followed by blocks related one by one (`BR`) to the root blocks of `D`.
-/
namespace CM.Proofs.Item
open CM CM.Model CM.Gen CM.Proofs.BT CM.Proofs.BSp CM.Proofs.Quote CM.Proofs.Nest

/-! ### the hypothesis on blank lines, as a Boolean check -/

/-- No line of `D` is blank. -/
def noBlankDB (D : Bytes) : Bool :=
  (List.range D.length).all fun i =>
    !(i == 0 || D.getD (i - 1) 0 == LF) || !isBlankLine ((D.drop i).take (lineLen (D.drop i)))

theorem noBlankD_of_check {D : Bytes} (h : noBlankDB D = true) : NoBlankD D := by
  intro a b hD hw hb
  unfold noBlankDB at h
  rw [List.all_eq_true] at h
  have hlen : a.length < D.length := by
    rw [hD, List.length_append]
    have : 0 < b.length := List.length_pos_iff.mpr hb
    omega
  have := h a.length (List.mem_range.mpr hlen)
  have hdrop : D.drop a.length = b := by rw [hD, List.drop_left]
  rw [hdrop] at this
  have hstart : (a.length == 0 || D.getD (a.length - 1) 0 == LF) = true := by
    rcases hw with hw | hw
    · rw [hw]; rfl
    · have hne : a ≠ [] := by intro e; rw [e] at hw; cases hw
      have hpos : 0 < a.length := List.length_pos_iff.mpr hne
      rw [List.getLast?_eq_getElem?] at hw
      have : D.getD (a.length - 1) 0 = LF := by
        rw [hD, List.getD_eq_getElem?_getD, List.getElem?_append_left (by omega), hw]; rfl
      rw [this]
      simp
  rw [hstart] at this
  simpa using this

/-! ### the theorem -/

/-- **C09, list-item half, block phase.** -/
theorem blocks_item_sim (x : PExt) (I : IP) (D : Bytes) (hc : Clean D) (hne : D ≠ []) (hul : NoULD D) (hnb : NoBlankD D)
    (h0 : D.getD 0 0 ≠ SP) (htb : parseThematicBreak (I.m ++ (spaces I.N ++ D.take (lineLen D))) < 0) :
    ∃ (rq : Root) (pQ : BP),
      drain (blocksLP x) ((item I.m I.N D).length + 8) (memParser (item I.m I.N D)) [] = ([rq], .err .eof, pQ) ∧
      rq.source = item I.m I.N D ∧ rq.startOffset = 0 ∧ rq.endOffset = (item I.m I.N D).length ∧
      ItemRelatedS (DRi I.m I.N D) I D (drain (blocksLP x) (D.length + 8) (memParser D) []).1 rq.block :=
  blocks_item_simI (I := I) (x := x) ⟨hc, hne, hul, hnb, h0, htb⟩ (run_ends_eof' x D)

/-! ### markers -/

/-- A bullet list marker `-`, `+` or `*`. -/
def ipBullet (c : UInt8) (hc : c = 0x2D ∨ c = 0x2B ∨ c = 0x2A) (N : Nat) (h1 : 1 ≤ N) (h4 : N ≤ 4) : IP where
  m := [c]
  N := N
  dl := c
  nn := 0
  mlen := by simp
  n1 := h1
  n4 := h4
  m0 := by rcases hc with rfl | rfl | rfl <;> decide
  mclean := by
    intro y hy
    rw [List.mem_singleton] at hy
    subst hy
    rcases hc with rfl | rfl | rfl <;> decide
  parse := by
    intro rest
    rcases hc with rfl | rfl | rfl <;> rfl

/-- The ordered list marker `12)`. -/
def ip12 (N : Nat) (h1 : 1 ≤ N) (h4 : N ≤ 4) : IP where
  m := [0x31, 0x32, 0x29]
  N := N
  dl := 0x29
  nn := 12
  mlen := by simp
  n1 := h1
  n4 := h4
  m0 := by decide
  mclean := by decide
  parse := by intro rest; rfl

/-- A document with a link reference definition (with a two-line title), a paragraph that uses it, a heading, a nested
    list, a block quote and a fenced code block; no blank line. -/
def iDoc : Bytes :=
  Bytes.ofString "[foo]: /url 'two\nlines'\nsee [foo]\n# h\n- a\n- b\n> q\n```\ncode [x]\n```\n"

example : Clean iDoc ∧ iDoc ≠ [] ∧ noULB iDoc = true ∧ noBlankDB iDoc = true ∧ (0x5B : UInt8) ∈ iDoc := by decide +kernel

-- `- ` in front of `iDoc`
example (x : PExt) : ∃ (rq : Root) (pQ : BP),
    drain (blocksLP x) ((item [0x2D] 1 iDoc).length + 8) (memParser (item [0x2D] 1 iDoc)) [] = ([rq], .err .eof, pQ) ∧
    rq.source = item [0x2D] 1 iDoc ∧ rq.startOffset = 0 ∧ rq.endOffset = (item [0x2D] 1 iDoc).length ∧
    ItemRelatedS (DRi [0x2D] 1 iDoc) (ipBullet 0x2D (Or.inl rfl) 1 (by decide) (by decide)) iDoc
      (drain (blocksLP x) (iDoc.length + 8) (memParser iDoc) []).1 rq.block :=
  blocks_item_sim x (ipBullet 0x2D (Or.inl rfl) 1 (by decide) (by decide)) iDoc (by decide +kernel) (by decide +kernel)
    (noULD_of_check (by decide +kernel)) (noBlankD_of_check (by decide +kernel)) (by decide +kernel) (by decide +kernel)

-- `12)   ` in front of `iDoc`
example (x : PExt) : ∃ (rq : Root) (pQ : BP),
    drain (blocksLP x) ((item [0x31, 0x32, 0x29] 3 iDoc).length + 8) (memParser (item [0x31, 0x32, 0x29] 3 iDoc)) [] =
      ([rq], .err .eof, pQ) ∧
    rq.source = item [0x31, 0x32, 0x29] 3 iDoc ∧ rq.startOffset = 0 ∧ rq.endOffset = (item [0x31, 0x32, 0x29] 3 iDoc).length ∧
    ItemRelatedS (DRi [0x31, 0x32, 0x29] 3 iDoc) (ip12 3 (by decide) (by decide)) iDoc
      (drain (blocksLP x) (iDoc.length + 8) (memParser iDoc) []).1 rq.block :=
  blocks_item_sim x (ip12 3 (by decide) (by decide)) iDoc (by decide +kernel) (by decide +kernel)
    (noULD_of_check (by decide +kernel)) (noBlankD_of_check (by decide +kernel)) (by decide +kernel) (by decide +kernel)

end CM.Proofs.Item
