import CM.Proofs.GrammarMarkerOps
import CM.Proofs.GrammarLooseStarts
/-
C05, block half — the list marker of an item: the block starts other than `startListItem` keep `PBMark src` of the root
(they create no list item and no list marker). Mechanical copy of `GrammarLooseStarts.lean` (`MT src` for `LT`).
-/
namespace CM.Proofs.GM
open CM CM.Model CM.Gen
open CM.Proofs.BT CM.Proofs.BG CM.Proofs.GL

variable {src : Bytes}

/-- The marker part of the working invariant. -/
def MT (src : Bytes) (p : LP) : Prop := PBMark src p.root

theorem MT.of_root {p q : LP} (h : MT src p) (hr : q.root = p.root) : MT src q := by unfold MT; rw [hr]; exact h
theorem MT.of_tree {p q : LP} (h : MT src p) (ht : tree q = tree p) : MT src q := h.of_root (tree_root ht)
theorem MT.advance {p : LP} (h : MT src p) (n : Nat) : MT src (p.advance n) := h.of_root (advance_root p n).1
theorem MT.consumeIndentN {p : LP} (h : MT src p) (n : Nat) : MT src (p.consumeIndentN n) := h.of_root (consumeIndent_root _ p n).1
theorem MT.consumeLine {p : LP} (h : MT src p) : MT src p.consumeLine := h.of_root (consumeLine_rd p).1
theorem MT.ofCI {p p' : LP} {n : Nat} (h : MT src p) (c : CIPost p p' n) : MT src p' := h.of_tree c.tree
theorem MT.ofAdv {p p' : LP} {n : Nat} (h : MT src p) (a : AdvPost p p' n) : MT src p' := h.of_tree a.tree
theorem MT.ofCL {p p' : LP} (h : MT src p) (c : CLPost p p') : MT src p' := h.of_tree c.tree

/- The operations, with the argument lists of their `LT` counterparts. -/
theorem openBlock_MT (x : PExt) (p : LP) (kind : Nat) (attrs : PLabel → PLabel) (hT : TreeOK p) (hG : PBGrammar p.root)
    (h : MT src p) (hst : p.state ≤ 2) (hk : cck kind = true) (hattr : ∀ l, (attrs l).kind = l.kind)
    (_hstop : ∀ l, (attrs l).stop = l.stop) : MT src (p.openBlock x kind attrs) :=
  openBlock_M x p kind attrs hT hG h hst hk hattr
theorem endBlock_MT (x : PExt) (p : LP) (hG : PBGrammar p.root) (h : MT src p) : MT src (p.endBlock x) := endBlock_M x p hG h
theorem setContainerIndent_MT (p : LP) (n : Int) (hT : TreeOK p) (hG : PBGrammar p.root) (h : MT src p) :
    MT src (p.setContainerIndent n) := setContainerIndent_M p n hT hG h
theorem collectInline_MT_free (x : PExt) (p : LP) (kind n : Nat) (ks : List Nat) (hT : TreeOK p) (hG : PBGrammar p.root)
    (h : MT src p) (hst : p.state ≠ 4) (hf : freeKinds p.containerKind = some ks) (hi : ks.contains IK.indent = true) :
    MT src (p.collectInline x kind n) := collectInline_M_free x p kind n ks hT hG h hst hf hi
theorem collectInline_MT_info (x : PExt) (p : LP) (kind n : Nat) (hT : TreeOK p) (hG : PBGrammar p.root)
    (h : MT src p) (hst : p.state ≠ 4) (hind : p.indent = 0) : MT src (p.collectInline x kind n) :=
  collectInline_M_info x p kind n hT hG h hst hind
theorem appendInline_MT (p : LP) (t : Tree) (hT : TreeOK p) (hG : PBGrammar p.root) (h : MT src p) : MT src (p.appendInline t) :=
  appendInline_M p t hT hG h
theorem closeContainer_MT (x : PExt) (p : LP) (e : Int) (hG : PBGrammar p.root) (h : MT src p) : MT src (p.closeContainer x e) :=
  closeContainer_M x p e hG h
theorem closeLastChild_MT (x : PExt) (p : LP) (e : Int) (hG : PBGrammar p.root) (h : MT src p) : MT src (p.closeLastChild x e) :=
  closeLastChild_M x p e hG h

/-! ### block quote, thematic break, indented code -/

theorem startBlockQuote_MT (x : PExt) (p : LP) (h : GI p) (hl : MT src p) (hs : p.state = 0) : MT src (startBlockQuote x p) := by
  unfold startBlockQuote
  simp only []
  split
  · exact hl
  split
  · exact hl
  obtain ⟨ci, _, _⟩ := consumeAll p h.inv
  generalize p.consumeIndentN p.indent = p1 at ci ⊢
  have g1 := h.ofCI ci
  have l1 := hl.ofCI ci
  have s1 := ci.st (by omega)
  have obL := openBlock_MT x p1 BK.blockQuote id g1.inv.tree g1.g l1 s1.2 (by decide) (fun _ => rfl) (fun _ => rfl)
  split
  · exact (obL.advance _).consumeIndentN _
  · exact obL.advance _

theorem startThematicBreak_MT (x : PExt) (p : LP) (h : GI p) (hl : MT src p) (hs : p.state = 0) :
    MT src (startThematicBreak x p) := by
  unfold startThematicBreak
  simp only []
  split
  · exact hl
  split
  · exact hl
  obtain ⟨ci, _, _⟩ := consumeAll p h.inv
  generalize p.consumeIndentN p.indent = p1 at ci ⊢
  have g1 := h.ofCI ci
  have l1 := hl.ofCI ci
  have s1 := ci.st (by omega)
  have obG := openBlock_G x p1 BK.thematicBreak id g1.inv.tree g1.g s1.2 (by decide) id_kind (fun _ => rfl)
  have obL := openBlock_MT x p1 BK.thematicBreak id g1.inv.tree g1.g l1 s1.2 (by decide) (fun _ => rfl) (fun _ => rfl)
  apply endBlock_MT
  · rw [consumeLine_root, (advance_root _ _).1]; exact obG.1
  · exact (obL.advance _).consumeLine

theorem startIndentedCode_MT (x : PExt) (p : LP) (h : GI p) (hl : MT src p) (hs : p.state = 0) :
    MT src (startIndentedCode x p) := by
  unfold startIndentedCode
  split
  · exact hl
  rename_i hc
  simp only [Bool.or_eq_true, decide_eq_true_eq, not_or, Nat.not_lt] at hc
  have hind : codeBlockIndentLimit ≤ p.indent := hc.1.1
  simp only []
  have ci := consumeIndentN_post p codeBlockIndentLimit h.inv.cur hind
  generalize p.consumeIndentN codeBlockIndentLimit = p1 at ci
  have g1 := h.ofCI ci
  have l1 := hl.ofCI ci
  have s1 : p1.state = 1 := by rw [ci.state, hs]; rfl
  exact openBlock_MT x p1 BK.indentedCode id g1.inv.tree g1.g l1 (by omega) (by decide) (fun _ => rfl) (fun _ => rfl)

/-! ### ATX heading -/

theorem startATX_MT (x : PExt) (p : LP) (h : GI p) (hl : MT src p) (hs : p.state = 0) : MT src (startATX x p) := by
  unfold startATX
  simp only []
  split
  · exact hl
  split
  · exact hl
  rename_i _ hlev
  have hb := parseATXHeading_bound p.bytesAfterIndent
  have h6 := parseATXHeading_level_le p.bytesAfterIndent
  generalize parseATXHeading p.bytesAfterIndent = hd at hb hlev h6 ⊢
  obtain ⟨hb1, hb2, hb3⟩ := hb
  have hb3 := hb3 (by omega)
  obtain ⟨ci, hdrop, hil⟩ := consumeAll p h.inv
  generalize p.consumeIndentN p.indent = p1 at ci hdrop hil ⊢
  have g1 := h.ofCI ci
  have l1 := hl.ofCI ci
  have i1 := g1.inv
  have s1 := ci.st (by omega)
  have ob := openBlock_inv x p1 BK.atxHeading (fun l => { l with n := hd.level }) (fun _ => rfl) i1 s1.2 (Or.inl (by decide))
  have obG := openBlock_G x p1 BK.atxHeading (fun l => { l with n := hd.level }) i1.tree g1.g s1.2 (by decide) (fun _ => rfl)
    (fun s => localOK_atx s _ (by omega) (by omega))
  have obL := openBlock_MT x p1 BK.atxHeading (fun l => { l with n := hd.level }) i1.tree g1.g l1 s1.2 (by decide)
    (fun _ => rfl) (fun _ => rfl)
  generalize p1.openBlock x BK.atxHeading (fun l => { l with n := hd.level }) = p2 at ob obG obL
  have i2 := ob.inv i1
  have s2 := ob.st s1.2
  have e2i : p2.i = p1.i := cur_i ob.cur
  have e2l : p2.line = p1.line := cur_line ob.cur
  have ad := advance_post p2 hd.start i2.cur (by rw [e2i, e2l, ci.line]; omega)
  generalize p2.advance hd.start = p3 at ad
  have g3 : GI p3 := GI.ofAdv ⟨i2, obG.1⟩ ad
  have l3 := obL.ofAdv ad
  have s3 := ad.st s2.2.1
  have hf : freeKinds p3.containerKind = some paraKinds := by rw [ad.ckind, ob.ckind]; rfl
  have coG := collectInline_G_free x p3 IK.unparsed (hd.stop - hd.start) paraKinds g3.inv.tree g3.g (by omega) hf
    (by rfl) (by rfl) (by decide)
  have coL := collectInline_MT_free x p3 IK.unparsed (hd.stop - hd.start) paraKinds g3.inv.tree g3.g l3 (by omega) hf (by rfl)
  apply endBlock_MT
  · rw [consumeLine_root]; exact coG
  · exact coL.consumeLine

/-! ### fenced code -/

theorem startFenced_MT (x : PExt) (p : LP) (h : GI p) (hl : MT src p) (hs : p.state = 0) : MT src (startFenced x p) := by
  unfold startFenced
  simp only []
  split
  · exact hl
  split
  · exact hl
  rename_i _ hn0
  have hb := parseCodeFence_bound p.bytesAfterIndent
  have hr := parseCodeFence_range p.bytesAfterIndent (by simpa using hn0)
  generalize parseCodeFence p.bytesAfterIndent = fc at hb hr ⊢
  obtain ⟨ci, hdrop, hil⟩ := consumeAll p h.inv
  generalize p.consumeIndentN p.indent = p1 at ci hdrop hil ⊢
  have g1 := h.ofCI ci
  have l1 := hl.ofCI ci
  have i1 := g1.inv
  have s1 := ci.st (by omega)
  have ob := openBlock_inv x p1 BK.fencedCode (fun l => { l with char := fc.char, n := fc.n }) (fun _ => rfl) i1 s1.2
    (Or.inl (by decide))
  have obG := openBlock_G x p1 BK.fencedCode (fun l => { l with char := fc.char, n := fc.n }) i1.tree g1.g s1.2 (by decide)
    (fun _ => rfl) (fun s => localOK_fenced s _ _ (by omega) hr.2)
  have obL := openBlock_MT x p1 BK.fencedCode (fun l => { l with char := fc.char, n := fc.n }) i1.tree g1.g l1 s1.2 (by decide)
    (fun _ => rfl) (fun _ => rfl)
  generalize p1.openBlock x BK.fencedCode (fun l => { l with char := fc.char, n := fc.n }) = p2 at ob obG obL
  have i2 := ob.inv i1
  have s2 := ob.st s1.2
  have sc := setContainerIndent_post p2 (↑p.indent) i2.tree s2.2.2 s2.2.1 (Or.inr ob.ckind)
  have scG := setContainerIndent_G p2 (↑p.indent) i2.tree obG.1
  have scL := setContainerIndent_MT p2 (↑p.indent) i2.tree obG.1 obL
  generalize p2.setContainerIndent (↑p.indent) = p3 at sc scG scL
  have i3 := sc.inv i2
  have e3i : p3.i = p1.i := by rw [cur_i sc.cur, cur_i ob.cur]
  have e3l : p3.line = p1.line := by rw [cur_line sc.cur, cur_line ob.cur]
  have s3 : 1 ≤ p3.state ∧ p3.state ≤ 2 := by rw [sc.state]; omega
  apply MT.consumeLine
  split
  · rename_i hcond
    simp only [Bool.and_eq_true, decide_eq_true_eq] at hcond
    obtain ⟨⟨hc1, hc2⟩, hc3⟩ := hcond
    obtain ⟨hb1, hb2, hb3⟩ := hb hc1 hc2
    have ad := advance_post p3 fc.infoStart.toNat i3.cur (by rw [e3i, e3l, ci.line]; omega)
    generalize p3.advance fc.infoStart.toNat = p4 at ad
    have g4 : GI p4 := GI.ofAdv ⟨i3, scG⟩ ad
    have l4 := scL.ofAdv ad
    have s4 := ad.st s3.2
    have hdrop4 : p4.line.getD p4.i 0 = p.bytesAfterIndent.getD fc.infoStart.toNat 0 := by
      rw [ad.i, ad.line, e3i, e3l]; exact getD_of_drop p1 _ _ hdrop
    have hind4 : p4.indent = 0 := indent_zero_of_getD p4 (by rw [hdrop4]; exact hb2) (by rw [hdrop4]; exact hb3)
    exact collectInline_MT_info x p4 _ _ g4.inv.tree g4.g l4 (by omega) hind4
  · exact scL

/-! ### HTML block -/

theorem htmlStartLoop_MT (x : PExt) (line : Bytes) : ∀ (fuel i : Nat) (p : LP), GI p → MT src p → p.state = 0 →
    MT src (htmlStartLoop x line fuel i p) := by
  intro fuel
  induction fuel with
  | zero => intro i p _ hl _; exact hl
  | succ fuel ih =>
    intro i p h hl hs
    unfold htmlStartLoop
    split
    · exact hl
    rename_i hi7
    split
    · split
      · exact hl
      have ob := openBlock_inv x p BK.htmlBlock (fun l => { l with n := i }) (fun _ => rfl) h.inv (by omega) (Or.inl (by decide))
      have obG := openBlock_G x p BK.htmlBlock (fun l => { l with n := i }) h.inv.tree h.g (by omega) (by decide) (fun _ => rfl)
        (fun s => localOK_html s _ (by omega) (by omega))
      have obL := openBlock_MT x p BK.htmlBlock (fun l => { l with n := i }) h.inv.tree h.g hl (by omega) (by decide)
        (fun _ => rfl) (fun _ => rfl)
      simp only []
      generalize p.openBlock x BK.htmlBlock (fun l => { l with n := i }) = p2 at ob obG obL
      have i2 := ob.inv h.inv
      have s2 : p2.state = 1 := by rw [ob.state, hs]; rfl
      split
      · have hf : freeKinds p2.containerKind = some htmlKinds := by rw [ob.ckind]; rfl
        have coG := collectInline_G_free x p2 IK.rawHTML p2.bytesAfterIndent.length htmlKinds i2.tree obG.1 (by omega) hf
          (by rfl) (by rfl) (by decide)
        have coL := collectInline_MT_free x p2 IK.rawHTML p2.bytesAfterIndent.length htmlKinds i2.tree obG.1 obL (by omega) hf
          (by rfl)
        apply endBlock_MT
        · rw [consumeLine_root]; exact coG
        · exact coL.consumeLine
      · exact obL
    · exact ih (i + 1) p h hl hs

theorem startHTML_MT (x : PExt) (p : LP) (h : GI p) (hl : MT src p) (hs : p.state = 0) : MT src (startHTML x p) := by
  unfold startHTML
  simp only []
  split
  · exact hl
  split
  · exact hl
  exact htmlStartLoop_MT x _ 8 0 p h hl hs

/-! ### setext heading -/

theorem setext_relabel_M {c : PB} (n : Nat) (hk : c.kind = BK.paragraph) (h : PBMark src c) :
    PBMark src (c.setLabel fun l => { l with kind := BK.setextHeading, n := n }) ∧
    MRes c [c.setLabel fun l => { l with kind := BK.setextHeading, n := n }] := by
  obtain ⟨l, bs, is⟩ := c
  have hk' : l.kind = BK.paragraph := hk
  refine ⟨?_, ?_⟩
  · show PBMark src (.mk { l with kind := BK.setextHeading, n := n } bs is)
    rw [PBMark_mk] at h ⊢
    exact ⟨markLocal_of_ne _ (show BK.setextHeading ≠ BK.listItem by decide), h.2⟩
  · intro hm
    have : l.kind = BK.listMarker := hm
    rw [hk'] at this
    exact absurd this (by decide)

theorem startSetext_MT (x : PExt) (p : LP) (h : GI p) (hl : MT src p) (_hs : p.state = 0) : MT src (startSetext x p) := by
  unfold startSetext
  simp only []
  split
  · exact hl
  rename_i hck
  split
  · exact hl
  split
  · exact hl
  rename_i _ hlev
  have hck' : p.containerKind = BK.paragraph := by simpa using hck
  have h2 := parseSetext_le p.bytesAfterIndent
  have h1 : 1 ≤ parseSetextHeadingUnderline p.bytesAfterIndent := by
    have : parseSetextHeadingUnderline p.bytesAfterIndent ≠ 0 := by simpa using hlev
    omega
  have mG : PBGrammar (p.modifyContainer (PB.setLabel fun l =>
      { l with kind := BK.setextHeading, n := parseSetextHeadingUnderline p.bytesAfterIndent })).root :=
    modifyContainer_G p _ h.inv.tree h.g (fun hc => setext_relabel _ hck' hc h1 h2)
  have mL : MT src (p.modifyContainer (PB.setLabel fun l =>
      { l with kind := BK.setextHeading, n := parseSetextHeadingUnderline p.bytesAfterIndent })) :=
    modifyContainer_M p _ h.inv.tree h.g hl (fun _ hc => setext_relabel_M _ hck' hc)
  apply endBlock_MT
  · rw [consumeLine_root]; exact mG
  · exact mL.consumeLine

end CM.Proofs.GM
