import CM.Proofs.BlocksGrammar
import CM.Spec.TreeWF
/-
C05, block half — relation of `PBGrammar` to the executable statement `Spec.grammar` (CM/Spec/TreeWF.lean).
-/
namespace CM.Proofs
open CM CM.Model CM.Gen
open CM.Proofs.BT CM.Proofs.BG

/-! ### relation to the executable statement `Spec.grammar` (CM/Spec/TreeWF.lean)

`Spec.grammar` is about fully parsed trees. For the block kinds whose children are final after the block phase —
thematic break, block quote, list item, list marker, indented code, fenced code, HTML block, link reference
definition — `PBGrammar` gives `Spec.grammarAt` of the exported tree `pbToTree b`; and every delivered root satisfies
`Spec.rootKindOK`. (Paragraphs and headings still hold `Unparsed` runs, which `Spec.grammarAt` rejects by design; the
looseness clause of lists is not part of `PBGrammar`.) -/

theorem pbsToTrees_eq_map (bs : List PB) : pbToTree.pbsToTrees bs = bs.map pbToTree := by
  induction bs with
  | nil => rfl
  | cons b bs ih => rw [pbToTree.pbsToTrees, ih]; rfl

theorem pbToTree_label (b : PB) : (pbToTree b).label.isBlock = true ∧ (pbToTree b).label.kind = b.kind := by
  obtain ⟨l, bs, is⟩ := b
  exact ⟨rfl, rfl⟩

theorem pbToTree_children (l : PLabel) (bs : List PB) (is : List Tree) :
    (pbToTree (.mk l bs is)).children = if bs.isEmpty then is else bs.map pbToTree := by
  rw [pbToTree, pbsToTrees_eq_map]; rfl

theorem isContainerChild_pbToTree (c : PB) (h : cck c.kind = true) : Spec.isContainerChild (pbToTree c) = true := by
  unfold Spec.isContainerChild Spec.T.isBlock Spec.T.kind
  rw [(pbToTree_label c).1, (pbToTree_label c).2]
  exact h

theorem inlineOf_of_inl (ks : List Nat) (t : Tree) (h : inl ks t = true) : Spec.inlineOf ks t = true := by
  unfold inl at h
  unfold Spec.inlineOf Spec.T.isBlock Spec.T.kind
  simp only [Bool.and_eq_true] at h ⊢
  exact h.1

theorem isI_of_isInl (k : Nat) (t : Tree) (h : isInl k t = true) : Spec.T.isI t k = true := h

/-- Every delivered root is container content (`Spec.rootKindOK`). -/
theorem rootKindOK_pbToTree (b : PB) (h : cck b.kind = true) : Spec.rootKindOK (pbToTree b) = true :=
  isContainerChild_pbToTree b h

/-- `Spec.grammarAt` holds at the exported block for the kinds whose children are final after the block phase. -/
theorem spec_grammarAt_of_PBGrammar (b : PB) (h : PBGrammar b)
    (hk0 : b.kind = BK.thematicBreak ∨ b.kind = BK.blockQuote ∨ b.kind = BK.listItem ∨ b.kind = BK.listMarker ∨
      b.kind = BK.indentedCode ∨ b.kind = BK.fencedCode ∨ b.kind = BK.htmlBlock ∨ b.kind = BK.linkRefDef) :
    Spec.grammarAt (pbToTree b) = true := by
  obtain ⟨l, bs, is⟩ := b
  have hloc := ((PBGrammar_mk l bs is).1 h).1
  have hL := grammar_leaf_inlines hloc
  have hkids : ∀ (cs : List PB), (∀ c ∈ cs, cck c.kind = true) → (cs.map pbToTree).all Spec.isContainerChild = true := by
    intro cs hcs
    rw [List.all_eq_true]
    intro t ht
    rw [List.mem_map] at ht
    obtain ⟨c, hc, rfl⟩ := ht
    exact isContainerChild_pbToTree c (hcs c hc)
  have hall : ∀ (ks : List Nat) (ts : List Tree), (∀ t ∈ ts, inl ks t = true) → ts.all (Spec.inlineOf ks) = true := by
    intro ks ts hts
    rw [List.all_eq_true]
    exact fun t ht => inlineOf_of_inl ks t (hts t ht)
  unfold Spec.grammarAt
  simp only []
  rw [pbToTree_children]
  have hlab : (pbToTree (.mk l bs is)).label.isBlock = true ∧ (pbToTree (.mk l bs is)).label.kind = l.kind := ⟨rfl, rfl⟩
  rw [hlab.1, hlab.2]
  simp only [if_true]
  have hk' : l.kind = BK.thematicBreak ∨ l.kind = BK.blockQuote ∨ l.kind = BK.listItem ∨ l.kind = BK.listMarker ∨
      l.kind = BK.indentedCode ∨ l.kind = BK.fencedCode ∨ l.kind = BK.htmlBlock ∨ l.kind = BK.linkRefDef := hk0
  clear hk0
  rcases hk' with hk | hk | hk | hk | hk | hk | hk | hk
  · -- thematic break
    obtain ⟨hb, hi⟩ := hL.2.1 (Or.inl hk)
    subst hb; subst hi
    rw [hk]; rfl
  · -- block quote
    obtain ⟨hi, hb⟩ := grammar_container_shape (Or.inr hk) hloc
    subst hi
    rw [hk]
    simp only [BK.blockQuote, BK.paragraph, BK.thematicBreak, BK.atxHeading, BK.setextHeading, BK.indentedCode, BK.fencedCode,
      BK.htmlBlock, BK.linkRefDef, Nat.reduceBEq, Bool.false_eq_true, if_false, if_true]
    split
    · rfl
    · exact hkids bs hb
  · -- list item
    obtain ⟨hi, _, m, rest, hbs, hm, hrest⟩ := grammar_item_shape hk hloc
    subst hi; subst hbs
    rw [hk]
    simp only [BK.listItem, BK.blockQuote, BK.paragraph, BK.thematicBreak, BK.atxHeading, BK.setextHeading, BK.indentedCode,
      BK.fencedCode, BK.htmlBlock, BK.linkRefDef, Nat.reduceBEq, Bool.false_eq_true, if_false, if_true,
      List.isEmpty_cons, List.map_cons, Bool.and_eq_true]
    refine ⟨?_, hkids rest (fun c hc => (hrest c hc).1)⟩
    unfold Spec.T.isB
    rw [(pbToTree_label m).1, (pbToTree_label m).2, hm]
    rfl
  · -- list marker
    obtain ⟨hb, hi⟩ := hL.2.1 (Or.inr hk)
    subst hb; subst hi
    rw [hk]; rfl
  · -- indented code
    have hbs : bs = [] := by
      rcases grammar_xor hloc with hb | hi
      · exact hb
      · have hb := ((localOK_iff l bs is).1 hloc).1
        unfold blocksOK at hb
        rw [hk] at hb
        simpa [BK.indentedCode, BK.document, BK.blockQuote, BK.listItem, BK.list] using hb
    subst hbs
    rw [hk]
    simp only [BK.indentedCode, BK.paragraph, BK.thematicBreak, BK.atxHeading, BK.setextHeading, Nat.reduceBEq,
      Bool.false_eq_true, if_false, if_true, List.isEmpty_nil]
    exact hall _ is (hL.2.2.1 hk)
  · -- fenced code
    have hbs : bs = [] := by
      have hb := ((localOK_iff l bs is).1 hloc).1
      unfold blocksOK at hb
      rw [hk] at hb
      simpa [BK.fencedCode, BK.document, BK.blockQuote, BK.listItem, BK.list] using hb
    subst hbs
    rw [hk]
    simp only [BK.indentedCode, BK.fencedCode, BK.paragraph, BK.thematicBreak, BK.atxHeading, BK.setextHeading, Nat.reduceBEq,
      Bool.false_eq_true, if_false, if_true, List.isEmpty_nil]
    have hf := hL.2.2.2.1 hk
    cases is with
    | nil => rfl
    | cons c rest =>
      simp only [fencedKids, Bool.and_eq_true, Bool.or_eq_true, List.all_eq_true] at hf
      simp only [Bool.and_eq_true, Bool.or_eq_true]
      refine ⟨?_, hall _ rest hf.2⟩
      rcases hf.1 with hinfo | hcode
      · left
        unfold infoOK at hinfo
        simp only [Bool.and_eq_true] at hinfo
        show (!c.label.isBlock && c.label.kind == IK.infoString) = true
        rw [Bool.and_eq_true]
        exact hinfo.1
      · right; exact inlineOf_of_inl _ c hcode
  · -- HTML block
    have hbs : bs = [] := by
      have hb := ((localOK_iff l bs is).1 hloc).1
      unfold blocksOK at hb
      rw [hk] at hb
      simpa [BK.htmlBlock, BK.document, BK.blockQuote, BK.listItem, BK.list] using hb
    subst hbs
    rw [hk]
    simp only [BK.indentedCode, BK.fencedCode, BK.htmlBlock, BK.paragraph, BK.thematicBreak, BK.atxHeading, BK.setextHeading,
      Nat.reduceBEq, Bool.false_eq_true, if_false, if_true, List.isEmpty_nil]
    exact hall _ is (hL.2.2.2.2.1 hk)
  · -- link reference definition
    have hbs : bs = [] := by
      have hb := ((localOK_iff l bs is).1 hloc).1
      unfold blocksOK at hb
      rw [hk] at hb
      simpa [BK.linkRefDef, BK.document, BK.blockQuote, BK.listItem, BK.list] using hb
    subst hbs
    rw [hk]
    simp only [BK.indentedCode, BK.fencedCode, BK.htmlBlock, BK.linkRefDef, BK.paragraph, BK.thematicBreak, BK.atxHeading,
      BK.setextHeading, Nat.reduceBEq, Bool.false_eq_true, if_false, if_true, List.isEmpty_nil]
    have hr := hL.2.2.2.2.2 hk
    match is, hr with
    | [a, b], hr =>
      simp only [refDefKids, labelOK, destOK, Bool.and_eq_true] at hr
      show (Spec.T.isI a IK.linkLabel && Spec.T.isI b IK.linkDest) = true
      rw [Bool.and_eq_true]
      exact ⟨hr.1.1, hr.2.1⟩
    | [a, b, c], hr =>
      simp only [refDefKids, labelOK, destOK, Bool.and_eq_true] at hr
      show (Spec.T.isI a IK.linkLabel && Spec.T.isI b IK.linkDest && Spec.T.isI c IK.linkTitle) = true
      rw [Bool.and_eq_true, Bool.and_eq_true]
      exact ⟨⟨hr.1.1.1, hr.1.2.1⟩, hr.2.1⟩

/-- `Spec.grammarAt` at a leaf of kind Text / SoftLineBreak / Indent / CharacterReference / RawHTML. -/
theorem spec_grammarAt_leaf (K : List Nat) (t : Tree) (h : inl K t = true)
    (hk : t.label.kind = IK.text ∨ t.label.kind = IK.softBreak ∨ t.label.kind = IK.indent ∨ t.label.kind = IK.charRef ∨
      t.label.kind = IK.rawHTML) : Spec.grammarAt t = true := by
  unfold inl at h
  simp only [Bool.and_eq_true, Bool.not_eq_true'] at h
  unfold Spec.grammarAt
  simp only []
  rw [h.1.1]
  simp only [Bool.false_eq_true, if_false]
  rcases hk with hk | hk | hk | hk | hk <;> rw [hk] <;>
    simp only [IK.text, IK.softBreak, IK.hardBreak, IK.indent, IK.charRef, IK.rawHTML, Nat.reduceBEq, Bool.or_true, Bool.true_or,
      Bool.or_false, Bool.or_self, if_true] <;>
    exact h.2

theorem spec_grammarAt_leaves (K : List Nat) (ts : List Tree) (h : ts.all (inl K) = true)
    (hK : ∀ k ∈ K, k = IK.text ∨ k = IK.softBreak ∨ k = IK.indent ∨ k = IK.charRef ∨ k = IK.rawHTML) :
    ∀ t ∈ ts, Spec.grammarAt t = true := by
  intro t ht
  rw [List.all_eq_true] at h
  have hi := h t ht
  apply spec_grammarAt_leaf K t hi
  unfold inl at hi
  simp only [Bool.and_eq_true, List.contains_iff_mem] at hi
  exact hK _ hi.1.2

/-- `Spec.grammarAt` at an info string and at its children. -/
theorem spec_grammarAt_info (t : Tree) (h : infoOK t = true) :
    Spec.grammarAt t = true ∧ ∀ u ∈ t.children, Spec.grammarAt u = true := by
  unfold infoOK at h
  simp only [Bool.and_eq_true, Bool.not_eq_true', beq_iff_eq] at h
  refine ⟨?_, spec_grammarAt_leaves _ _ h.2 (by intro k hk; simp at hk; rcases hk with rfl | rfl <;> simp)⟩
  unfold Spec.grammarAt
  simp only []
  rw [h.1.1, h.1.2]
  simp only [IK.text, IK.softBreak, IK.hardBreak, IK.indent, IK.charRef, IK.rawHTML, IK.infoString, Nat.reduceBEq, Bool.or_self,
    Bool.false_eq_true, if_false, if_true]
  rw [List.all_eq_true] at h ⊢
  exact fun u hu => inlineOf_of_inl _ u (h.2 u hu)

/-- `Spec.grammarAt` at the LinkLabel of a link reference definition and at its children. -/
theorem spec_grammarAt_label (t : Tree) (h : labelOK t = true) :
    Spec.grammarAt t = true ∧ ∀ u ∈ t.children, Spec.grammarAt u = true := by
  unfold labelOK isInl at h
  simp only [Bool.and_eq_true, Bool.not_eq_true', beq_iff_eq] at h
  refine ⟨?_, spec_grammarAt_leaves _ _ h.2 (by intro k hk; simp at hk; rcases hk with rfl | rfl <;> simp)⟩
  unfold Spec.grammarAt
  simp only []
  rw [h.1.1, h.1.2]
  simp only [IK.text, IK.softBreak, IK.hardBreak, IK.indent, IK.charRef, IK.rawHTML, IK.infoString, IK.emphasis, IK.strong, IK.link,
    IK.image, IK.linkDest, IK.linkTitle, IK.linkLabel, Nat.reduceBEq, Bool.or_self, Bool.false_eq_true, if_false, if_true]
  rw [List.all_eq_true] at h ⊢
  exact fun u hu => inlineOf_of_inl _ u (h.2 u hu)

/-- `Spec.grammarAt` at the LinkDestination / LinkTitle of a link reference definition and at its children. -/
theorem spec_grammarAt_dest (k : Nat) (hk : k = IK.linkDest ∨ k = IK.linkTitle) (t : Tree) (h : destOK k t = true) :
    Spec.grammarAt t = true ∧ ∀ u ∈ t.children, Spec.grammarAt u = true := by
  unfold destOK isInl at h
  simp only [Bool.and_eq_true, Bool.not_eq_true', beq_iff_eq] at h
  refine ⟨?_, spec_grammarAt_leaves _ _ h.2 (by intro k hk; simp at hk; rcases hk with rfl | rfl | rfl <;> simp)⟩
  unfold Spec.grammarAt
  simp only []
  rw [h.1.1, h.1.2]
  rcases hk with rfl | rfl <;>
    simp only [IK.text, IK.softBreak, IK.hardBreak, IK.indent, IK.charRef, IK.rawHTML, IK.infoString, IK.emphasis, IK.strong, IK.link,
      IK.image, IK.linkDest, IK.linkTitle, IK.linkLabel, Nat.reduceBEq, Bool.or_self, Bool.or_true, Bool.true_or, Bool.false_eq_true,
      if_false, if_true] <;>
    (rw [List.all_eq_true] at h ⊢; exact fun u hu => inlineOf_of_inl _ u (h.2 u hu))

/-! ### every node of the exported tree -/

/-- The nodes at which `Spec.grammarAt` is not expected to hold after the block phase: paragraphs and headings (they
    still hold `Unparsed` runs), the `Unparsed` runs themselves, lists (the looseness clause is not part of
    `PBGrammar`) and the document block (not a node of a delivered tree). -/
def blockPhaseExempt (t : Tree) : Bool :=
  if t.label.isBlock then
    t.label.kind == BK.paragraph || t.label.kind == BK.atxHeading || t.label.kind == BK.setextHeading ||
      t.label.kind == BK.list || t.label.kind == BK.document
  else t.label.kind == IK.unparsed

/-- `Spec.grammarAt` holds at the node, or the node is exempt. -/
def Fine (t : Tree) : Prop := blockPhaseExempt t = true ∨ Spec.grammarAt t = true

/-- … at every node of the tree. -/
def AllFine (u : Tree) : Prop := ∀ t ∈ Spec.T.nodes u, Fine t

theorem nodes_eq (t : Tree) : Spec.T.nodes t = t :: Spec.T.nodesL t.children := by
  obtain ⟨l, cs⟩ := t
  rw [Spec.T.nodes]; rfl

theorem mem_nodesL {t : Tree} : ∀ {cs : List Tree}, t ∈ Spec.T.nodesL cs → ∃ c ∈ cs, t ∈ Spec.T.nodes c := by
  intro cs
  induction cs with
  | nil => intro h; simp [Spec.T.nodesL] at h
  | cons c rest ih =>
    intro h
    rw [Spec.T.nodesL, List.mem_append] at h
    rcases h with h | h
    · exact ⟨c, List.mem_cons_self .., h⟩
    · obtain ⟨c', hc', ht⟩ := ih h
      exact ⟨c', List.mem_cons_of_mem _ hc', ht⟩

theorem allFine_of_parts (u : Tree) (h1 : Fine u) (h2 : ∀ v ∈ u.children, AllFine v) : AllFine u := by
  intro t ht
  rw [nodes_eq, List.mem_cons] at ht
  rcases ht with rfl | ht
  · exact h1
  · obtain ⟨v, hv, htv⟩ := mem_nodesL ht
    exact h2 v hv t htv

/-- A leaf of kind Unparsed / Text / SoftLineBreak / Indent / CharacterReference / RawHTML. -/
theorem allFine_leaf (K : List Nat) (u : Tree) (h : inl K u = true)
    (hK : ∀ k ∈ K, k = IK.unparsed ∨ k = IK.text ∨ k = IK.softBreak ∨ k = IK.indent ∨ k = IK.charRef ∨ k = IK.rawHTML) :
    AllFine u := by
  have h' := h
  unfold inl at h'
  simp only [Bool.and_eq_true, Bool.not_eq_true', List.contains_iff_mem, List.isEmpty_iff] at h'
  apply allFine_of_parts
  · rcases hK _ h'.1.2 with hk | hk
    · left
      unfold blockPhaseExempt
      rw [h'.1.1, hk]; rfl
    · right
      exact spec_grammarAt_leaf K u h hk
  · rw [h'.2]; intro v hv; cases hv

theorem allFine_leaves (K : List Nat) (ts : List Tree) (h : ts.all (inl K) = true)
    (hK : ∀ k ∈ K, k = IK.unparsed ∨ k = IK.text ∨ k = IK.softBreak ∨ k = IK.indent ∨ k = IK.charRef ∨ k = IK.rawHTML) :
    ∀ u ∈ ts, AllFine u := by
  rw [List.all_eq_true] at h
  exact fun u hu => allFine_leaf K u (h u hu) hK

theorem allFine_info (u : Tree) (h : infoOK u = true) : AllFine u := by
  apply allFine_of_parts u (Or.inr (spec_grammarAt_info u h).1)
  unfold infoOK at h
  simp only [Bool.and_eq_true] at h
  exact allFine_leaves _ _ h.2 (by intro k hk; simp at hk; rcases hk with rfl | rfl <;> decide)

theorem allFine_label (u : Tree) (h : labelOK u = true) : AllFine u := by
  apply allFine_of_parts u (Or.inr (spec_grammarAt_label u h).1)
  unfold labelOK at h
  simp only [Bool.and_eq_true] at h
  exact allFine_leaves _ _ h.2 (by intro k hk; simp at hk; rcases hk with rfl | rfl <;> decide)

theorem allFine_dest (k : Nat) (hk : k = IK.linkDest ∨ k = IK.linkTitle) (u : Tree) (h : destOK k u = true) : AllFine u := by
  apply allFine_of_parts u (Or.inr (spec_grammarAt_dest k hk u h).1)
  unfold destOK at h
  simp only [Bool.and_eq_true] at h
  exact allFine_leaves _ _ h.2 (by intro k hk; simp at hk; rcases hk with rfl | rfl | rfl <;> decide)

/-- The cases of the inline rule. -/
theorem inlinesOK_cases {l : PLabel} {is : List Tree} (h : inlinesOK l is = true) :
    ((l.kind = BK.document ∨ l.kind = BK.blockQuote ∨ l.kind = BK.listItem ∨ l.kind = BK.list ∨ l.kind = BK.listMarker ∨
        l.kind = BK.thematicBreak) ∧ is = []) ∨
    ((l.kind = BK.paragraph ∨ l.kind = BK.atxHeading ∨ l.kind = BK.setextHeading) ∧ is.all (inl paraKinds) = true) ∨
    (l.kind = BK.indentedCode ∧ is.all (inl codeKinds) = true) ∨
    (l.kind = BK.fencedCode ∧ fencedKids is = true) ∨
    (l.kind = BK.htmlBlock ∧ is.all (inl htmlKinds) = true) ∨
    (l.kind = BK.linkRefDef ∧ refDefKids is = true) := by
  unfold inlinesOK at h
  split at h
  · rename_i hk
    simp only [Bool.or_eq_true, beq_iff_eq] at hk
    left
    refine ⟨?_, by simpa using h⟩
    rcases hk with ((((hk | hk) | hk) | hk) | hk) | hk
    · exact Or.inl hk
    · exact Or.inr (Or.inl hk)
    · exact Or.inr (Or.inr (Or.inl hk))
    · exact Or.inr (Or.inr (Or.inr (Or.inl hk)))
    · exact Or.inr (Or.inr (Or.inr (Or.inr (Or.inl hk))))
    · exact Or.inr (Or.inr (Or.inr (Or.inr (Or.inr hk))))
  split at h
  · rename_i hk
    exact Or.inr (Or.inl ⟨Or.inl (by simpa using hk), h⟩)
  split at h
  · rename_i hk
    simp only [Bool.and_eq_true] at h
    exact Or.inr (Or.inl ⟨Or.inr (Or.inl (by simpa using hk)), h.1.1⟩)
  split at h
  · rename_i hk
    simp only [Bool.and_eq_true] at h
    exact Or.inr (Or.inl ⟨Or.inr (Or.inr (by simpa using hk)), h.1.1⟩)
  split at h
  · rename_i hk
    exact Or.inr (Or.inr (Or.inl ⟨by simpa using hk, h⟩))
  split at h
  · rename_i hk
    simp only [Bool.and_eq_true] at h
    exact Or.inr (Or.inr (Or.inr (Or.inl ⟨by simpa using hk, h.1.1⟩)))
  split at h
  · rename_i hk
    simp only [Bool.and_eq_true] at h
    exact Or.inr (Or.inr (Or.inr (Or.inr (Or.inl ⟨by simpa using hk, h.1.1⟩))))
  split at h
  · rename_i hk
    exact Or.inr (Or.inr (Or.inr (Or.inr (Or.inr ⟨by simpa using hk, h⟩))))
  · cases h

/-- The inline children of a block that satisfies the local rule. -/
theorem inlines_allFine {l : PLabel} {bs : List PB} {is : List Tree} (h : localOK l bs is = true) : ∀ u ∈ is, AllFine u := by
  have hi := ((localOK_iff l bs is).1 h).2
  rcases inlinesOK_cases hi with ⟨_, h0⟩ | ⟨_, hp⟩ | ⟨_, hc⟩ | ⟨_, hf⟩ | ⟨_, hh⟩ | ⟨_, hr⟩
  · subst h0; intro u hu; cases hu
  · exact allFine_leaves _ _ hp (by intro k hk; simp [paraKinds] at hk; rcases hk with rfl | rfl <;> decide)
  · exact allFine_leaves _ _ hc (by intro k hk; simp [codeKinds] at hk; rcases hk with rfl | rfl | rfl <;> decide)
  · cases is with
    | nil => intro u hu; cases hu
    | cons c rest =>
      simp only [fencedKids, Bool.and_eq_true, Bool.or_eq_true] at hf
      have hrest := allFine_leaves _ _ hf.2 (by intro k hk; simp [codeKinds] at hk; rcases hk with rfl | rfl | rfl <;> decide)
      intro u hu
      rcases List.mem_cons.1 hu with rfl | hu
      · rcases hf.1 with hinfo | hcode
        · exact allFine_info _ hinfo
        · exact allFine_leaf _ _ hcode (by intro k hk; simp [codeKinds] at hk; rcases hk with rfl | rfl | rfl <;> decide)
      · exact hrest u hu
  · exact allFine_leaves _ _ hh (by intro k hk; simp [htmlKinds] at hk; rcases hk with rfl | rfl <;> decide)
  · match is, hr with
    | [a, b], hr =>
      simp only [refDefKids, Bool.and_eq_true] at hr
      intro u hu
      simp only [List.mem_cons, List.mem_nil_iff, or_false] at hu
      rcases hu with rfl | rfl
      · exact allFine_label _ hr.1
      · exact allFine_dest _ (Or.inl rfl) _ hr.2
    | [a, b, c], hr =>
      simp only [refDefKids, Bool.and_eq_true] at hr
      intro u hu
      simp only [List.mem_cons, List.mem_nil_iff, or_false] at hu
      rcases hu with rfl | rfl | rfl
      · exact allFine_label _ hr.1.1
      · exact allFine_dest _ (Or.inl rfl) _ hr.1.2
      · exact allFine_dest _ (Or.inr rfl) _ hr.2

/-- The block itself. -/
theorem block_fine (b : PB) (h : PBGrammar b) : Fine (pbToTree b) := by
  obtain ⟨l, bs, is⟩ := b
  have hloc := ((PBGrammar_mk l bs is).1 h).1
  have hi := ((localOK_iff l bs is).1 hloc).2
  have hlab : (pbToTree (.mk l bs is)).label.isBlock = true ∧ (pbToTree (.mk l bs is)).label.kind = l.kind := ⟨rfl, rfl⟩
  have ex : ∀ k, l.kind = k → (k == BK.paragraph || k == BK.atxHeading || k == BK.setextHeading || k == BK.list || k == BK.document) = true →
      Fine (pbToTree (.mk l bs is)) := by
    intro k hk hb
    left
    unfold blockPhaseExempt
    rw [hlab.1, hlab.2, hk]
    simpa using hb
  have sp := spec_grammarAt_of_PBGrammar (.mk l bs is) h
  rcases inlinesOK_cases hi with ⟨hk, _⟩ | ⟨hk, _⟩ | ⟨hk, _⟩ | ⟨hk, _⟩ | ⟨hk, _⟩ | ⟨hk, _⟩
  · rcases hk with hk | hk | hk | hk | hk | hk
    · exact ex _ hk (by decide)
    · exact Or.inr (sp (Or.inr (Or.inl hk)))
    · exact Or.inr (sp (Or.inr (Or.inr (Or.inl hk))))
    · exact ex _ hk (by decide)
    · exact Or.inr (sp (Or.inr (Or.inr (Or.inr (Or.inl hk)))))
    · exact Or.inr (sp (Or.inl hk))
  · rcases hk with hk | hk | hk <;> exact ex _ hk (by decide)
  · exact Or.inr (sp (Or.inr (Or.inr (Or.inr (Or.inr (Or.inl hk))))))
  · exact Or.inr (sp (Or.inr (Or.inr (Or.inr (Or.inr (Or.inr (Or.inl hk)))))))
  · exact Or.inr (sp (Or.inr (Or.inr (Or.inr (Or.inr (Or.inr (Or.inr (Or.inl hk))))))))
  · exact Or.inr (sp (Or.inr (Or.inr (Or.inr (Or.inr (Or.inr (Or.inr (Or.inr hk))))))))

/-- **`Spec.grammarAt` holds at every node of the exported block-phase tree, except at the nodes the inline phase still
    has to rewrite (paragraphs, headings, their `Unparsed` runs) and at lists (looseness).** -/
theorem spec_grammarAt_nodes : ∀ b : PB, PBGrammar b → AllFine (pbToTree b) := by
  apply PB.ind
  intro l bs is ih h
  have hloc := ((PBGrammar_mk l bs is).1 h)
  apply allFine_of_parts _ (block_fine _ h)
  rw [pbToTree_children]
  split
  · exact inlines_allFine hloc.1
  · intro v hv
    rw [List.mem_map] at hv
    obtain ⟨c, hc, rfl⟩ := hv
    exact ih c hc (hloc.2 c hc)

/-- … for every root delivered by the stream machine. -/
theorem drain_spec_grammarAt (x : PExt) (fuel : Nat) (p : BP) (hp : KidsOK p.blocks) :
    ∀ r ∈ (drain (blocksLP x) fuel p []).1,
      Spec.rootKindOK (pbToTree r.block) = true ∧
      ∀ t ∈ Spec.T.nodes (pbToTree r.block), blockPhaseExempt t = true ∨ Spec.grammarAt t = true := by
  intro r hr
  have g := drain_grammar x fuel p hp r hr
  exact ⟨rootKindOK_pbToTree _ g.2, spec_grammarAt_nodes _ g.1⟩

end CM.Proofs
