import CM.Proofs.ParseSeamsTree
import CM.Proofs.BlocksWellRd
/-
C17 (b) for parser output, part 8 (inline phase, pure part of **fact (2)**): the children `collectTextNodes` makes for a
raw HTML tag.

The reader runs over the inline children `L` of a container whose text nodes are *lines*: every node that has a
successor, Indent nodes excepted, ends with a line ending (`Lines src L`).  Then every RawHTML node
`collectTextNodes … IK.rawHTML false …` returns ends

  * at `stop` (the end of the tag: a closing end, `CEi src stop`, when the byte before it is `>`), or
  * where the reader left a text node for the next one (a jump over a block-quote marker or list indentation, or an
    Indent node): the end of a node that has a successor, hence right after a line ending;

the other nodes it returns are Indent nodes of `L` (`collect_raw`).
-/
namespace CM.Proofs.PS
open CM CM.Model CM.Gen CM.Spec
open CM.Proofs.BT CM.Proofs.BG CM.Proofs.PW CM.Proofs.InlH

/-! ### closing ends -/

/-- A slice that ends at `e` does not end in an unfinished name candidate: the byte before `e` is neither a name
    character nor `<` (or nothing is selected). -/
def CEi (src : Bytes) (e : Int) : Prop :=
  e ≤ (src.length : Int) ∧
    (e ≤ 0 ∨ (CM.Proofs.nameChar (src.getD (e.toNat - 1) 0) = false ∧ src.getD (e.toNat - 1) 0 ≠ 0x3C))

theorem CEi_of_eolEnd {src : Bytes} {e : Int} (h : EolEnd src e) : CEi src e := by
  refine ⟨h.1, ?_⟩
  rcases h.2 with h2 | h2
  · exact Or.inl h2
  · exact Or.inr (nameChar_eol h2)

theorem not_candidate_of_CEi (src : Bytes) (t : Tree) (h : CEi src t.label.stop) :
    endsInCandidate (Node.slice src t) = false := by
  unfold Node.slice
  split
  · rename_i hv
    simp only [Node.spanValid, Bool.and_eq_true, decide_eq_true_eq] at hv
    by_cases heq : t.label.start = t.label.stop
    · rw [heq, Int.sub_self]; rfl
    · have hlt : t.label.start < t.label.stop := by omega
      rcases h.2 with h2 | ⟨n1, n2⟩
      · omega
      · have e : (t.label.stop - t.label.start).toNat = t.label.stop.toNat - t.label.start.toNat := by omega
        rw [e]
        have hg := slice_getLast src t.label.start.toNat t.label.stop.toNat (by omega) (by have := h.1; omega)
        exact endsInCandidate_of_getLast _ _ hg n1 n2
  · rfl

/-! ### lines -/

/-- Every node that has a successor, Indent nodes excepted, ends with a line ending (or where the source ends). -/
def Lines (src : Bytes) : List Tree → Prop
  | [] => True
  | [_] => True
  | t :: u :: rest => (isIndent t = false → EolEnd src t.label.stop ∨ AtEnd src t.label.stop) ∧ Lines src (u :: rest)

theorem Lines.tail {src : Bytes} : ∀ {t : Tree} {L : List Tree}, Lines src (t :: L) → Lines src L
  | _, [], _ => trivial
  | _, _ :: _, h => h.2

theorem Lines.suffix {src : Bytes} : ∀ {L L' : List Tree}, Lines src L → L' <:+ L → Lines src L' := by
  intro L
  induction L with
  | nil =>
    intro L' _ hs
    have := List.eq_nil_of_suffix_nil hs
    subst this; trivial
  | cons t L ih =>
    intro L' h hs
    rcases List.suffix_cons_iff.1 hs with rfl | hs'
    · exact h
    · exact ih h.tail hs'

theorem Lines.head {src : Bytes} {t u : Tree} {rest : List Tree} (h : Lines src (t :: u :: rest)) (hi : isIndent t = false) :
    EolEnd src t.label.stop ∨ AtEnd src t.label.stop := h.1 hi

/-! ### the reader only moves forward in its list -/

theorem currentNode_suffix (r : Rd) : r.currentNode.2.spans <:+ r.spans := by
  obtain ⟨k, hk⟩ := CM.Proofs.currentNode_spans r
  rw [hk]; exact List.drop_suffix _ _

theorem nextTextNode_suffix : ∀ (l : List Tree) (t : Tree) (sp : List Tree), nextTextNode l = some (t, sp) → sp <:+ l := by
  intro l
  induction l with
  | nil => intro t sp h; simp [nextTextNode] at h
  | cons a rest ih =>
    intro t sp h
    rw [nextTextNode] at h
    split at h
    · cases h; exact List.suffix_refl _
    · exact List.IsSuffix.trans (ih t sp h) (List.suffix_cons _ _)

theorem next_suffix (src : Bytes) (r : Rd) : (r.next src).2.spans <:+ r.spans := by
  have hc := currentNode_suffix r
  unfold Rd.next
  generalize r.currentNode = cn at hc
  obtain ⟨n, r1⟩ := cn
  simp only [] at hc ⊢
  split
  · exact hc
  · split
    · exact hc
    · split
      · exact hc
      · split
        · rename_i t' sp hnt
          exact List.IsSuffix.trans (List.IsSuffix.trans (nextTextNode_suffix _ _ _ hnt) (List.drop_suffix _ _)) hc
        · exact List.nil_suffix

theorem skipNode_suffix (src : Bytes) (curr : Tree) : ∀ (fuel : Nat) (r : Rd), (skipNode src curr fuel r).spans <:+ r.spans := by
  intro fuel
  induction fuel with
  | zero => intro r; exact List.suffix_refl _
  | succ fuel ih =>
    intro r
    rw [skipNode]
    have hn := next_suffix src r
    generalize r.next src = nx at hn
    obtain ⟨ok, r1⟩ := nx
    simp only [] at hn ⊢
    split
    · exact hn
    · have hc := currentNode_suffix r1
      generalize r1.currentNode = cn at hc
      obtain ⟨n, r2⟩ := cn
      simp only [] at hc ⊢
      split
      · exact List.IsSuffix.trans (ih r2) (List.IsSuffix.trans hc hn)
      · exact List.IsSuffix.trans hc hn

/-! ### what the reader leaves behind -/

/-- The reader has left a closing end behind (`prev + 1`), or it has made a plain step inside a text node. -/
def Gp (src : Bytes) (r : Rd) : Prop :=
  CEi src (r.prev + 1) ∨
    ∃ t rest, r.spans = t :: rest ∧ isIndent t = false ∧ spanContains t r.pos = true ∧ (r.pos : Int) = r.prev + 1

/-- The loop invariant of `collectTextNodes`: nothing read since `plainStart`, or `Gp`. -/
def Iv (src : Bytes) (r : Rd) (ps : Nat) : Prop := r.pos = ps ∨ Gp src r

theorem currentNode_head {r : Rd} {t : Tree} {rest : List Tree} (hs : r.spans = t :: rest)
    (hc : spanContains t r.pos = true) : r.currentNode.1 = some t := by
  have hst : ¬ (t.label.start > (r.pos : Int)) := by
    unfold spanContains at hc
    simp only [Bool.and_eq_true, decide_eq_true_eq] at hc
    omega
  have hni : nodeIndexForPosition r.spans r.pos 0 = some 0 := by
    rw [hs, nodeIndexForPosition, if_neg hst, if_pos hc]
  rw [CM.Proofs.currentNode_some_eq hni]
  simp [hs]

theorem next_none (src : Bytes) (r : Rd) (h : r.currentNode.1 = none) : (r.next src).1 = false := by
  unfold Rd.next
  generalize r.currentNode = cn at h
  obtain ⟨n, r1⟩ := cn
  simp only [] at h
  subst h
  rfl

/-- One successful `next` from inside a text node. -/
theorem next_Gp (src : Bytes) (L : List Tree) (hL : Lines src L) (stop : Nat) (hstop : CEi src (stop : Int))
    (r : Rd) (hlt : r.pos < stop) (hs : r.spans <:+ L) (t : Tree)
    (hcur : r.currentNode.1 = some t) (hni : isIndent t = false) (r' : Rd) (hn : r.next src = (true, r')) :
    Gp src r' := by
  obtain ⟨_, hcont, rest, hsp⟩ := CM.Proofs.currentNode_some hcur
  obtain ⟨hpos, _, _⟩ := CM.Proofs.currentNode_pos r
  have hsuf := currentNode_suffix r
  unfold Rd.next at hn
  generalize r.currentNode = cn at hcur hsp hpos hsuf hn
  obtain ⟨n, r1⟩ := cn
  simp only [] at hcur hsp hpos hsuf hn
  subst hcur
  simp only [hni, Bool.false_and, Bool.false_eq_true, if_false, Bool.not_false, Bool.true_and, decide_eq_true_eq] at hn
  rw [← hpos] at hcont
  have hc' := hcont
  unfold spanContains at hc'
  simp only [Bool.and_eq_true, decide_eq_true_eq] at hc'
  split at hn
  · rename_i hlt
    simp only [Prod.mk.injEq, true_and] at hn
    subst hn
    right
    refine ⟨t, rest, hsp, hni, ?_, by simp⟩
    unfold spanContains
    simp only [Bool.and_eq_true, decide_eq_true_eq]
    exact ⟨⟨hc'.1.1, by omega⟩, hlt⟩
  · rename_i hge
    split at hn
    · rename_i t' sp hnt
      simp only [Prod.mk.injEq, true_and] at hn
      subst hn
      left
      show CEi src ((r1.pos : Int) + 1)
      have hstop' : ((r1.pos : Int) + 1) = t.label.stop := by
        have h1 := hc'.2
        have : ¬ (((r1.pos + 1 : Nat) : Int) < t.label.stop) := hge
        omega
      rw [hstop']
      rw [hsp] at hnt hsuf
      simp only [List.drop_succ_cons, List.drop_zero] at hnt
      cases rest with
      | nil => simp [nextTextNode] at hnt
      | cons u rest' =>
        rcases (hL.suffix (List.IsSuffix.trans hsuf hs)).head hni with he | he | he
        · exact CEi_of_eolEnd he
        · -- the node ends where the source ends: so does the tag
          have h1 := hstop.1
          have e : t.label.stop = (stop : Int) := by omega
          rw [e]; exact hstop
        · omega
    · simp at hn

/-! ### `collectTextNodes` for a raw HTML tag -/

/-- What comes out: Indent nodes of the list, and RawHTML leaves with a closing end. -/
def Pout (src : Bytes) (L : List Tree) (c : Tree) : Prop :=
  (isIndent c = true ∧ c ∈ L) ∨ ∃ a e, c = mkInline IK.rawHTML a e ∧ CEi src e

section
variable (ext : Ext) (src : Bytes) (L : List Tree) (stop : Nat)
variable (hL : Lines src L) (hstop : CEi src (stop : Int))

include hstop in
theorem finish_raw (ps : Nat) (acc : List Tree) (h : AccP (Pout src L) acc) :
    AccP (Pout src L) (collectTextNodes.finish stop IK.rawHTML ps acc) := by
  unfold collectTextNodes.finish
  exact AccP.ite _ h (Or.inr ⟨_, _, rfl, hstop⟩)

def CollectRaw (fuel : Nat) : Prop :=
  ∀ (r : Rd) (ps : Nat) (acc : List Tree), r.spans <:+ L → Iv src r ps → AccP (Pout src L) acc →
    AccP (Pout src L) (collectTextNodes ext src stop IK.rawHTML false fuel r ps acc)

include hL hstop in
theorem goFn_raw (fuel : Nat) (ih : CollectRaw ext src L stop fuel) (r : Rd) (ps : Nat) (acc : List Tree)
    (hs : r.spans <:+ L) (hcase : (∃ t, r.currentNode.1 = some t ∧ isIndent t = false) ∨ r.currentNode.1 = none)
    (hacc : AccP (Pout src L) acc) : AccP (Pout src L) (goFn ext src stop IK.rawHTML false fuel r ps acc) := by
  unfold goFn
  split
  · exact finish_raw src L stop hstop _ _ hacc
  · have hsuf := next_suffix src r
    have hnone := next_none src r
    rename_i hlt
    have hg := next_Gp src L hL stop hstop r (by omega) hs
    generalize r.next src = nx at hsuf hnone hg
    obtain ⟨ok, r1⟩ := nx
    simp only [] at hsuf hnone hg ⊢
    split
    · exact finish_raw src L stop hstop _ _ hacc
    · rename_i hok
      have hok' : ok = true := by simpa using hok
      subst hok'
      have hgp : Gp src r1 := by
        rcases hcase with ⟨t, ht, hni⟩ | hn
        · exact hg t ht hni r1 rfl
        · have := hnone hn; cases this
      have hs1 : r1.spans <:+ L := List.IsSuffix.trans hsuf hs
      split
      · rename_i hj
        refine ih r1 _ _ hs1 (Or.inl rfl) ?_
        split
        · refine hacc.snoc (Or.inr ⟨_, _, rfl, ?_⟩)
          rcases hgp with h | ⟨_, _, _, _, _, hstep⟩
          · exact h
          · exfalso
            unfold Rd.jumped at hj
            simp only [Bool.and_eq_true, decide_eq_true_eq] at hj
            omega
        · exact hacc
      · exact ih r1 _ _ hs1 (Or.inr hgp) hacc

include hL hstop in
/-- **The children of a raw HTML tag**: Indent nodes of the container, and RawHTML leaves that end at the end of the tag
    or right after a line ending. -/
theorem collect_raw : ∀ fuel : Nat, CollectRaw ext src L stop fuel := by
  intro fuel
  induction fuel with
  | zero => intro r ps acc _ _ hacc; rw [collectTextNodes.eq_1]; exact hacc
  | succ fuel ih =>
    intro r ps acc hs hiv hacc
    rw [collectTextNodes.eq_2]
    split
    · exact AccP.ite _ hacc (Or.inr ⟨_, _, rfl, hstop⟩)
    · have hsuf := currentNode_suffix r
      have hidem := CM.Proofs.currentNode_idem r
      obtain ⟨hpos, hprev, _⟩ := CM.Proofs.currentNode_pos r
      have hsome := fun t => CM.Proofs.currentNode_some (r := r) (t := t)
      have hhead := fun t rest => currentNode_head (r := r) (t := t) (rest := rest)
      generalize r.currentNode = cn at hsuf hidem hpos hprev hsome hhead
      obtain ⟨curr, r1⟩ := cn
      simp only [] at hsuf hidem hpos hprev hsome hhead ⊢
      have hs1 : r1.spans <:+ L := List.IsSuffix.trans hsuf hs
      split
      · rename_i cn
        split
        · rename_i hind
          have hmem : cn ∈ L := (List.IsSuffix.subset hs) ((hsome cn rfl).1)
          refine ih _ _ _ (List.IsSuffix.trans (skipNode_suffix src cn fuel r1) hs1) (Or.inl rfl) ?_
          refine AccP.snoc ?_ (Or.inl ⟨hind, hmem⟩)
          split
          · rename_i hgt
            refine hacc.snoc (Or.inr ⟨_, _, rfl, ?_⟩)
            rcases hiv with h | h | ⟨t, rest, h1, h2, h3, _⟩
            · omega
            · rw [hprev]; exact h
            · have := hhead t rest h1 h3
              cases this
              rw [h2] at hind; cases hind
          · exact hacc
        · rename_i hind
          rw [collectTextNodes.collectStep.eq_1]
          split
          · rename_i hesc; simp at hesc
          · refine goFn_raw ext src L stop hL hstop fuel ih r1 ps acc hs1 (Or.inl ⟨cn, ?_, by simpa using hind⟩) hacc
            rw [hidem]
      · rw [collectTextNodes.collectStep.eq_1]
        split
        · rename_i hesc; simp at hesc
        · refine goFn_raw ext src L stop hL hstop fuel ih r1 ps acc hs1 (Or.inr ?_) hacc
          rw [hidem]

end

end CM.Proofs.PS
