import CM.Proofs.BlocksLine
import CM.Proofs.BlocksFuel
import CM.Model.Stream
/-
C04, block half: the block-phase line parser (`CM.Model.processLine`, the model of blocks.go / parse.go's per-line
loop) never reaches a Go panic site.

Every Go panic site is an explicit `setPanic` in the model (`LP.panic`): `Advance` beyond the end of the line,
`ConsumeIndent` beyond the indentation, `OpenBlock` / `EndBlock` / `CollectInline` / `SetContainerIndent` in the wrong
parser state or on the wrong container kind, `openBlock` finding no ancestor that can contain the new block.

* `LPInv`  — the invariant at the start of a line (after `reset`): no panic so far, the cursor is inside the line, at a
  TAB at least one column of the tab remains (`updateTabRemaining` establishes it), the root is the document block, the
  container depth is a position on the last-child spine.
* `LPInv'` — what survives from line to line: no panic, the root is the document block. (`reset` re-establishes the
  rest: `i = 0`, `col = 0`, `depth = 0`, `tabRem` recomputed.) No assumption on the parser state, on the shape of the
  tree below the root, or on the relation between `line` and `source` is needed.
* `processLine_no_panic`, `reset_LPInv`, `new_LPInv'`, `blocksLP_never_panics`.

The reasons, bottom-up (helper files `BlocksCursor`, `BlocksBounds`, `BlocksSpine`, `BlocksOps`, `BlocksStarts`,
`BlocksLine`):
 (a) `consumeIndentN n` is only called with `n ≤ indent` (`consumeIndent_post`);
 (b) `advance n` only with `i + n ≤ line.length`, from the recognizer bounds (`parseThematicBreak_le`,
     `parseListMarker_toNat_le`, `parseATXHeading_bound`, `parseCodeFence_bound`) and
     `bytesAfterIndent = line.drop i` once the indentation is consumed;
 (c) the block starts run in the opening states (≤ 2) and the match rules in `stateDescending`;
     `SetContainerIndent` is only called after an `OpenBlock` (state ≥ 1) on a fenced code block or a list item;
 (d) `openBlock kind` finds a container: the document contains every kind but list items, and a list item is only
     opened when the container is a list.
-/
namespace CM.Proofs
open CM CM.Model CM.Gen
open CM.Proofs.BT

/-- The invariant of the line parser at the start of a line. -/
structure LPInv (p : LP) : Prop where
  /-- no Go panic site has been reached -/
  panic : p.panic = none
  /-- the cursor is inside the line -/
  i_le : p.i ≤ p.line.length
  /-- `tabRem` is consistent with `updateTabRemaining`: at a TAB at least one column of the tab remains -/
  tab : p.i < p.line.length → p.line.getD p.i 0 = TAB → 1 ≤ p.tabRem
  /-- the root is the document block -/
  root : p.root.kind = BK.document
  /-- the container depth is a position on the last-child spine (`depth ≤ spine length`) -/
  depth : (spineGet p.root p.depth).isSome

/-- What is preserved from one line to the next. -/
structure LPInv' (p : LP) : Prop where
  panic : p.panic = none
  root : p.root.kind = BK.document

theorem LPInv.toInv {p : LP} (h : LPInv p) : Inv p := ⟨h.panic, ⟨h.i_le, h.tab⟩, ⟨h.root, h.depth⟩⟩
theorem LPInv.ofInv {p : LP} (h : Inv p) : LPInv p := ⟨h.panic, h.cur.hi, h.cur.htab, h.tree.root, h.tree.valid⟩

/-- `processLine` keeps the full invariant (the cursor and depth parts are not needed for the next line). -/
theorem processLine_LPInv (x : PExt) (p : LP) (hinv : LPInv p) : LPInv (processLine x p) :=
  LPInv.ofInv (processLine_inv x p hinv.toInv)

/-- **The block phase never panics on a line.** -/
theorem processLine_no_panic (x : PExt) (p : LP) (hinv : LPInv p) :
    (processLine x p).panic = none ∧ LPInv' (processLine x p) := by
  have h := processLine_inv x p hinv.toInv
  exact ⟨h.panic, ⟨h.panic, h.tree.root⟩⟩

/-- `reset` establishes the start-of-line invariant. -/
theorem reset_LPInv (p : LP) (h : LPInv' p) (source : Bytes) (lineStart : Nat) : LPInv (p.reset source lineStart) := by
  unfold LP.reset
  have hc := updateTab_cur { p with lineStart := lineStart, source := source, line := source.drop lineStart, i := 0, col := 0, depth := 0 }
    (Nat.zero_le _)
  refine ⟨?_, hc.hi, hc.htab, ?_, ?_⟩
  · rw [updateTab_panic]; exact h.panic
  · have := updateTab_tree { p with lineStart := lineStart, source := source, line := source.drop lineStart, i := 0, col := 0, depth := 0 }
    rw [tree_root this]; exact h.root
  · have := updateTab_tree { p with lineStart := lineStart, source := source, line := source.drop lineStart, i := 0, col := 0, depth := 0 }
    rw [tree_root this, tree_depth this]
    show (spineGet p.root 0).isSome
    rw [spineGet_zero]; rfl

/-- The parser the stream machine creates from the pending (re-based, left-over) blocks — whatever they are. -/
theorem new_LPInv' (x : PExt) (bs : List PB) : LPInv' ((blocksLP x).new bs) := ⟨rfl, rfl⟩

/-- One step of `blocksLP`: `reset`, then the per-line loop body. -/
theorem blocksLP_line_LPInv' (x : PExt) (lp : LP) (h : LPInv' lp) (source : Bytes) (lineStart : Nat) :
    LPInv' ((blocksLP x).line lp source lineStart) :=
  (processLine_no_panic x _ (reset_LPInv lp h source lineStart)).2

/-- Feed a sequence of `(source, lineStart)` pairs to the line parser. -/
def feedLines (x : PExt) (lp : LP) (lines : List (Bytes × Nat)) : LP :=
  lines.foldl (fun lp l => (blocksLP x).line lp l.1 l.2) lp

theorem feedLines_LPInv' (x : PExt) (lines : List (Bytes × Nat)) : ∀ lp : LP, LPInv' lp → LPInv' (feedLines x lp lines) := by
  induction lines with
  | nil => intro lp h; exact h
  | cons l rest ih => intro lp h; exact ih _ (blocksLP_line_LPInv' x lp h l.1 l.2)

/-- **Along any sequence of lines** (any sources, any line starts — not only the ones the stream machine produces),
    starting from the parser created for any list of pending blocks, **the line parser never panics.** -/
theorem blocksLP_never_panics (x : PExt) (bs : List PB) (lines : List (Bytes × Nat)) :
    (blocksLP x).panicked (feedLines x ((blocksLP x).new bs) lines) = none :=
  (feedLines_LPInv' x lines _ (new_LPInv' x bs)).panic

/-- In the stream machine: `parseLines` over `blocksLP` reports a panic only when its own fuel runs out — never one
    recorded by the line parser. -/
theorem parseLines_no_lp_panic (x : PExt) : ∀ (fuel : Nat) (lp : LP) (lineStart : Nat) (p : BP) (m : String),
    LPInv' lp → ∀ p', parseLines (blocksLP x) fuel lp lineStart p = (NBOut.panic m, p') → m = "parseLines: fuel" := by
  intro fuel
  induction fuel with
  | zero =>
    intro lp ls p m _ p' h
    simp only [parseLines, Prod.mk.injEq, NBOut.panic.injEq] at h
    exact h.1.symm
  | succ fuel ih =>
    intro lp ls p m hlp p' h
    have hl := blocksLP_line_LPInv' x lp hlp (p.buf.take p.i) ls
    have hpan : (blocksLP x).panicked ((blocksLP x).line lp (p.buf.take p.i) ls) = none := hl.panic
    cases hmr : makeRoot p ((blocksLP x).kids ((blocksLP x).line lp (p.buf.take p.i) ls)) with
    | some rp =>
      simp [parseLines, hpan, hmr] at h
    | none =>
      simp only [parseLines, hpan, hmr] at h
      exact ih _ _ _ m hl p' h

/-- `NextBlock` over `blocksLP`: a reported panic is never one of the line parser's panic sites — it is the fuel of
    `parseLines`, or a panic recorded in the stream state itself (`readline` / `skipBlank` fuel, `makeRoot`). -/
theorem nextBlock_no_lp_panic (x : PExt) (p p' : BP) (m : String)
    (h : nextBlock (blocksLP x) p = (NBOut.panic m, p')) : m = "parseLines: fuel" ∨ p'.panic = some m := by
  unfold nextBlock at h
  split at h
  · simp only [Prod.mk.injEq] at h; cases h.1
  · simp only [] at h
    split at h
    · exact Or.inl (parseLines_no_lp_panic x _ _ _ _ m (new_LPInv' x _) p' h)
    · split at h
      · split at h
        · rename_i q _ m' hm
          simp only [Prod.mk.injEq, NBOut.panic.injEq] at h
          obtain ⟨rfl, rfl⟩ := h
          exact Or.inr hm
        · simp only [Prod.mk.injEq] at h; cases h.1
      · exact Or.inl (parseLines_no_lp_panic x _ _ _ _ m (new_LPInv' x _) p' h)

/-! ### (2) Fuel adequacy inside the block model

Under the start-of-line invariant the fuel parameters are never exhausted: any fuel above the stated bound gives the
same result as the fuel the model passes (`fuel = 0` branches unreachable). `refDefLoop`: see
`BT.refDefLoop_zero` (exhaustion is harmless) and `BT.refDefLoop_fuel_target` (not proved). -/

/-- `consumeIndent`: `consumeIndentN n` (fuel `n + 1`) is the unbounded loop whenever `n ≤ indent`. -/
theorem consumeIndentN_fuel_adequate (p : LP) (h : LPInv p) (n fuel : Nat) (hn : n ≤ p.indent) (hf : n < fuel) :
    p.consumeIndentN n = LP.consumeIndent fuel p n :=
  consumeIndent_fuel (n + 1) fuel p n h.toInv.cur hn (by omega) hf

/-- `openBlockLoop`: fuel `depth + 1` (no invariant needed). -/
theorem openBlockLoop_fuel_adequate (x : PExt) (kind : Nat) (p : LP) (fuel : Nat) (hf : p.depth < fuel) :
    LP.openBlockLoop x kind (p.depth + 1) p = LP.openBlockLoop x kind fuel p :=
  openBlockLoop_fuel x kind _ _ p (by omega) hf

/-- `htmlStartLoop`: fuel 8 from condition 0 (no invariant needed). -/
theorem htmlStartLoop_fuel_adequate (x : PExt) (line : Bytes) (p : LP) (fuel : Nat) (hf : 7 ≤ fuel) :
    htmlStartLoop x line 8 0 p = htmlStartLoop x line fuel 0 p :=
  htmlStartLoop_fuel x line 8 fuel 0 p (by omega) (by omega)

/-- `descendLoop`: fuel `spineLength root + 1`. -/
theorem descendOpenBlocks_fuel_adequate (x : PExt) (p : LP) (h : LPInv p) (fuel : Nat) (hf : spineLength p.root < fuel) :
    descendOpenBlocks x p = descendLoop x fuel p 0 :=
  descendOpenBlocks_fuel x p h.toInv fuel hf

/-- `openingLoop`: fuel `line.length + 8` (every iteration that continues moves the cursor forward). -/
theorem openingLoop_fuel_adequate' (x : PExt) (p : LP) (h : LPInv p) (fuel : Nat) (hf : p.line.length - p.i < fuel) :
    openingLoop x (p.line.length + 8) p = openingLoop x fuel p :=
  openingLoop_fuel_adequate x p h.toInv fuel hf

/-! ### Non-vacuity and concrete evaluations -/

section Examples

/-- External functions for the examples (no entity table, identity case folding). -/
def btX : PExt := { ext := { unescape := fun s => s }, fold := fun b => b }

/-- `> - a`, a lazy/continued block quote line with a tab, a blank line, an ordered list item, an opening fence. -/
def btSrc : Bytes := Bytes.ofString "> - a\n> \tb\n\n1. x\n```go\n"

/-- The first line through `reset`. -/
def btP : LP := ((blocksLP btX).new []).reset btSrc 0

/-- The hypotheses of `processLine_no_panic` are satisfiable on a non-trivial input. -/
example : LPInv btP := reset_LPInv _ (new_LPInv' btX []) _ _

example : (processLine btX btP).panic = none := by decide +kernel
-- block quote > list > list item > paragraph, 4 bytes consumed before the paragraph text
example : (processLine btX btP).depth = 4 := by decide +kernel
example : (processLine btX btP).i = 4 := by decide +kernel
example : (processLine btX btP).state = 1 := by decide +kernel

/-- The five lines as the stream machine feeds them (`source = buf[:i]`, `lineStart` = start of the line). -/
def btEnd : LP := feedLines btX ((blocksLP btX).new [])
  [(btSrc.take 6, 0), (btSrc.take 11, 6), (btSrc.take 12, 11), (btSrc.take 17, 12), (btSrc, 17)]

example : btEnd.panic = none := blocksLP_never_panics btX [] _
example : btEnd.panic = none := by decide +kernel
-- the document's children: a (closed) block quote, a (closed) list, the open fenced code block
example : btEnd.root.blocks.map (·.kind) = [9, 11, 6] := by decide +kernel
example : btEnd.depth = 1 ∧ btEnd.state = 2 := by decide +kernel

/-- The invariant is not vacuous after several lines either. -/
example : LPInv (btEnd.reset (btSrc ++ Bytes.ofString "x\n") 23) :=
  reset_LPInv _ (feedLines_LPInv' btX _ _ (new_LPInv' btX [])) _ _

/- A panic site *is* reachable from a state that violates the invariant (here: the root is not the document block,
   so `openBlock` finds no ancestor for the paragraph): the hypothesis `root` of `LPInv` is needed. -/
def btBadRoot : PB := PB.mk { kind := BK.paragraph, start := 0 } [] []
def btBad : LP := { source := btSrc, root := btBadRoot, lineStart := 0, line := btSrc }
example : (processLine btX btBad).panic = some "openBlock: no ancestor can contain the block" := by decide +kernel

end Examples

end CM.Proofs
