import CM.Proofs.ParseScanCode4
import CM.Proofs.ParseScanTok
/-
C02 / C04, inline halves, for the whole of `Parse` — **the field `TokScan2.code`** (`tokScan_code`) and **`TokNP`**
(`tokNP_of`) for a container whose inline children satisfy `RC2` and `CSHyp` (runs in order, not empty, backtick runs do not
cross runs): `parseCodeSpan_res`, `codeRes_nodes`, `collectCodeSpan_W` put together.
-/
namespace CM.Proofs.PSc
open CM CM.Model CM.Model.Inl CM.Gen CM.Proofs CM.Proofs.InlH CM.Proofs.InlH2

variable {src : Bytes} {Lf : List Tree} {N : Nat}

/-- the facts `collectCodeSpan_W` needs, for a valid result of `parseCodeSpan` -/
theorem csFacts_of (x : IExt) (m : Bytes → Bool) (hc : RC2 src Lf N) (H : CSHyp Lf src src.length)
    (s s' : IState) (pos : Int) (cs : CodeSpan) (h0 : 0 ≤ pos) (h1 : pos < (src.toArray.size : Int))
    (h2 : src.toArray[pos.toNat]! = 0x60)
    (hrun : (parseCodeSpan (inlCtx x src src.toArray m Lf) pos).run s = .ok (cs, s'))
    (hu : s.unparsedPos < Lf.length) (hlt : pos < (Lf[s.unparsedPos]).label.stop) (hv : cs.span.isValid = true) :
    ∃ K, CsFacts (inlCtx x src src.toArray m Lf) cs s.unparsedPos K ∧ cs.span.start = pos ∧ pos < cs.span.stop ∧
      cs.span.stop ≤ (N : Int) ∧ cs.span.stop ≤ ((inlCtx x src src.toArray m Lf).unparsed[s.unparsedPos + K]!).label.stop ∧
      cs.span.start ≤ cs.content.start ∧ cs.content.stop ≤ cs.span.stop := by
  have hsz : src.toArray.size = src.length := by simp
  have hp : pos.toNat < src.length := by omega
  have hstart : (inlCtx x src src.toArray m Lf).src[pos.toNat]? = some 0x60 := by
    show src[pos.toNat]? = some 0x60
    rw [srcA_get src _ hp] at h2
    rw [List.getElem?_eq_getElem hp]
    rw [List.getD_eq_getElem?_getD, List.getElem?_eq_getElem hp] at h2
    simpa using h2
  have hres : CodeRes (Lf.drop s.unparsedPos) src pos cs :=
    triple_run (parseCodeSpan_res (inlCtx x src src.toArray m Lf) pos src.length h0 (by omega) hstart H s) rfl hrun
  obtain ⟨n, pE, K, hn, e1, e2, hlt2, a1, a2, hK, c1, c2, hidx⟩ := codeRes_nodes H s.unparsedPos hu pos h0 hlt cs hres hv
  have hget : ∀ i (hi : i < Lf.length), (inlCtx x src src.toArray m Lf).unparsed[i]! = Lf[i] := fun i hi =>
    toArray_get! Lf i hi
  have hb := hc.bound _ (List.getElem_mem hK)
  refine ⟨K, ⟨rfl, hc.sorted, fun t ht => ⟨hc.nn t ht, hc.le t ht, ?_⟩, by simpa [inlCtx] using hK, ?_, ?_, ?_, ?_, ?_, ?_⟩,
    ?_, ?_, ?_, ?_, ?_, ?_⟩
  · have := hc.bound t ht; have := hc.len
    show t.label.stop ≤ ((src.toArray.size : Nat) : Int)
    omega
  · rw [e2]; simp only []; omega
  · rw [e2]; simp only []; omega
  · rw [hget _ hu, e2]; simp only []; omega
  · rw [hget _ hK, e2]; simp only []; exact ⟨c1, by omega⟩
  · rw [e2]; simp only [Int.toNat_natCast]; exact hidx
  · rw [e1]; simp only []; omega
  · rw [e1]
  · rw [e1]; simp only []; omega
  · rw [e1]; simp only []; omega
  · rw [hget _ hK, e1]; exact c2
  · rw [e1, e2]; simp only []; omega
  · rw [e1, e2]; simp only []; omega

/-- an unsuccessful scan does not move backwards -/
theorem code_invalid_lo (x : IExt) (m : Bytes → Bool) (H : CSHyp Lf src src.length)
    (s s' : IState) (pos : Int) (cs : CodeSpan) (h0 : 0 ≤ pos) (h1 : pos < (src.toArray.size : Int))
    (h2 : src.toArray[pos.toNat]! = 0x60)
    (hrun : (parseCodeSpan (inlCtx x src src.toArray m Lf) pos).run s = .ok (cs, s')) : pos ≤ cs.content.start := by
  have hsz : src.toArray.size = src.length := by simp
  have hp : pos.toNat < src.length := by omega
  have hstart : (inlCtx x src src.toArray m Lf).src[pos.toNat]? = some 0x60 := by
    show src[pos.toNat]? = some 0x60
    rw [srcA_get src _ hp] at h2
    rw [List.getElem?_eq_getElem hp]
    rw [List.getD_eq_getElem?_getD, List.getElem?_eq_getElem hp] at h2
    simpa using h2
  exact (triple_run (parseCodeSpan_res (inlCtx x src src.toArray m Lf) pos src.length h0 (by omega) hstart H s) rfl hrun).1

/-- **The field `TokScan2.code`.** -/
theorem tokScan_code (x : IExt) (m : Bytes → Bool) (hc : RC2 src Lf N) (H : CSHyp Lf src src.length) :
    CodeField (inlCtx x src src.toArray m Lf) (N : Int) := by
  intro s s' pos cs h0 h1 h2 hrun hu hlt
  have hu' : s.unparsedPos < Lf.length := by simpa [inlCtx] using hu
  have hlt' : pos < (Lf[s.unparsedPos]).label.stop := by
    rw [spanEndOf_lt _ s hu] at hlt
    have := toArray_get! Lf _ hu'
    simp only [inlCtx] at hlt
    rw [this] at hlt
    exact hlt
  refine ⟨fun hv => ?_, fun _ => code_invalid_lo x m H s s' pos cs h0 h1 h2 hrun⟩
  obtain ⟨K, hf, g1, g2, g3, g4, g5, g6⟩ := csFacts_of x m hc H s s' pos cs h0 h1 h2 hrun hu' hlt' hv
  refine ⟨g1, g2, g3, fun t t' htu hpm hrt => ?_⟩
  have hf' : CsFacts (inlCtx x src src.toArray m Lf) cs t.unparsedPos K := by rw [htu]; exact hf
  obtain ⟨kids, hch, ht'⟩ := (triple_run_np (collectCodeSpan_W _ cs K t hf') rfl).2 _ _ hrt
  subst ht'
  refine ⟨{ kind := IK.codeSpan, start := cs.span.start, stop := cs.span.stop, sub := kids.toList.map CSN.toTree },
    rfl, rfl, rfl, ?_, rfl, rfl, ?_, ?_, ?_⟩
  · exact (CsChainL.wfl hch).mono g5 g6
  · show ((t.parentMap.push none).set! t.nodes.size (some 0)).size = _
    simp [Array.set!_eq_setIfInBounds]
  · intro i hi
    exact pm_push_set_lt t.parentMap t.nodes.size (some 0) (by omega) i hi
  · intro _
    show cs.span.stop ≤ _
    simp only [csAfter]
    rw [htu]
    exact g4

/-- **`TokNP`**: `collectCodeSpan` does not panic after a successful scan. -/
theorem tokNP_of (x : IExt) (m : Bytes → Bool) (hc : RC2 src Lf N) (H : CSHyp Lf src src.length) :
    TokNP (inlCtx x src src.toArray m Lf) := by
  refine ⟨fun s pos cs h0 h1 h2 hrun hu hlt hv t htu msg => ?_⟩
  have hu' : s.unparsedPos < Lf.length := by simpa [inlCtx] using hu
  have hlt' : pos < (Lf[s.unparsedPos]).label.stop := by
    rw [spanEndOf_lt _ s hu] at hlt
    have := toArray_get! Lf _ hu'
    simp only [inlCtx] at hlt
    rw [this] at hlt
    exact hlt
  obtain ⟨K, hf, _⟩ := csFacts_of x m hc H s s pos cs h0 h1 h2 hrun hu' hlt' hv
  have hf' : CsFacts (inlCtx x src src.toArray m Lf) cs t.unparsedPos K := by rw [htu]; exact hf
  exact (triple_run_np (collectCodeSpan_W _ cs K t hf') rfl).1 msg

end CM.Proofs.PSc
