import CM.Proofs.BlocksWellRoot
/-
The cursor operations of the line parser (`setPanic`, `markMatched`, `updateTabRemaining`, `advance`, `consumeLine`,
`consumeIndent`): they do not touch the tree, keep the cursor inside the line, and change the state in known ways.
-/
namespace CM.Proofs
open CM CM.Model CM.Gen

/-- `p'` differs from `p` only in the cursor (position, column, tab bookkeeping), the panic flag and the state. -/
structure CurFrame (p p' : LP) : Prop where
  root : p'.root = p.root
  depth : p'.depth = p.depth
  source : p'.source = p.source
  lineStart : p'.lineStart = p.lineStart
  line : p'.line = p.line
  ile : p.i ≤ p.line.length → p'.i ≤ p'.line.length
  imono : p.i ≤ p'.i

theorem CurFrame.refl (p : LP) : CurFrame p p := ⟨rfl, rfl, rfl, rfl, rfl, fun h => h, Nat.le_refl _⟩

theorem CurFrame.trans {p q r : LP} (h1 : CurFrame p q) (h2 : CurFrame q r) : CurFrame p r :=
  ⟨h2.root.trans h1.root, h2.depth.trans h1.depth, h2.source.trans h1.source, h2.lineStart.trans h1.lineStart,
   h2.line.trans h1.line, fun h => h2.ile (h1.ile h), Nat.le_trans h1.imono h2.imono⟩

/-- The state is unchanged, or went from "opening" to "open matched". -/
def StateStep (s s' : Nat) : Prop := s' = s ∨ (s = stateOpening ∧ s' = stateOpenMatched)

/-- The state of the opening phase before the line is consumed. -/
def InOpen (s : Nat) : Prop := s = stateOpening ∨ s = stateOpenMatched

theorem StateStep.refl (s : Nat) : StateStep s s := Or.inl rfl

theorem StateStep.trans {a b c : Nat} (h1 : StateStep a b) (h2 : StateStep b c) : StateStep a c := by
  unfold StateStep at *
  rcases h1 with rfl | ⟨rfl, rfl⟩
  · exact h2
  · rcases h2 with rfl | ⟨h, _⟩
    · exact Or.inr ⟨rfl, rfl⟩
    · exact absurd h (by decide)

theorem StateStep.inOpen {s s' : Nat} (h : StateStep s s') (hs : InOpen s) : InOpen s' := by
  rcases h with rfl | ⟨_, rfl⟩
  · exact hs
  · exact Or.inr rfl

theorem StateStep.eq_of_ne {s s' : Nat} (h : StateStep s s') (hs : s ≠ stateOpening) : s' = s := by
  rcases h with h | ⟨h, _⟩
  · exact h
  · exact absurd h hs

/-! ### setPanic, markMatched, updateTabRemaining -/

theorem setPanic_frame (p : LP) (m : String) : CurFrame p (p.setPanic m) ∧ (p.setPanic m).state = p.state ∧
    (p.setPanic m).i = p.i := by
  unfold LP.setPanic
  split
  · exact ⟨CurFrame.refl p, rfl, rfl⟩
  · exact ⟨⟨rfl, rfl, rfl, rfl, rfl, fun h => h, Nat.le_refl _⟩, rfl, rfl⟩

theorem markMatched_frame (p : LP) : CurFrame p p.markMatched ∧ StateStep p.state p.markMatched.state ∧
    p.markMatched.i = p.i ∧ p.markMatched.state ≠ stateOpening := by
  unfold LP.markMatched
  split
  · rename_i h
    have h' : p.state = stateOpening := by simpa using h
    exact ⟨⟨rfl, rfl, rfl, rfl, rfl, fun h => h, Nat.le_refl _⟩, Or.inr ⟨h', rfl⟩, rfl, (show stateOpenMatched ≠ stateOpening by decide)⟩
  · rename_i h
    exact ⟨CurFrame.refl p, Or.inl rfl, rfl, by simpa using h⟩

theorem updateTab_frame (p : LP) : CurFrame p p.updateTabRemaining ∧ p.updateTabRemaining.state = p.state ∧
    p.updateTabRemaining.i = p.i := by
  unfold LP.updateTabRemaining
  split <;> exact ⟨⟨rfl, rfl, rfl, rfl, rfl, fun h => h, Nat.le_refl _⟩, rfl, rfl⟩

/-! ### advance -/

theorem advance_frame (p : LP) (n : Nat) : CurFrame p (p.advance n) ∧ StateStep p.state (p.advance n).state := by
  unfold LP.advance
  split
  · exact ⟨CurFrame.refl p, StateStep.refl _⟩
  · obtain ⟨m1, m2, m3, _⟩ := markMatched_frame p
    simp only
    split
    · obtain ⟨s1, s2, _⟩ := setPanic_frame p.markMatched "Advance: index out of bounds"
      exact ⟨m1.trans s1, by rw [s2]; exact m2⟩
    · rename_i hle
      obtain ⟨u1, u2, u3⟩ := updateTab_frame { p.markMatched with
        col := (if p.markMatched.i < p.markMatched.line.length && p.markMatched.line.getD p.markMatched.i 0 == TAB then
          p.markMatched.col + p.markMatched.tabRem + columnWidth p.markMatched.col
            ((p.markMatched.line.drop (p.markMatched.i + 1)).take (p.markMatched.i + n - (p.markMatched.i + 1)))
          else p.markMatched.col + columnWidth p.markMatched.col ((p.markMatched.line.drop p.markMatched.i).take n)),
        i := p.markMatched.i + n }
      refine ⟨⟨?_, ?_, ?_, ?_, ?_, ?_, ?_⟩, ?_⟩
      · rw [u1.root]; exact m1.root
      · rw [u1.depth]; exact m1.depth
      · rw [u1.source]; exact m1.source
      · rw [u1.lineStart]; exact m1.lineStart
      · rw [u1.line]; exact m1.line
      · intro _
        rw [u3, u1.line]
        simp only
        omega
      · rw [u3]; simp only; omega
      · rw [u2]; exact m2

/-! ### consumeLine -/

theorem consumeLine_frame (p : LP) : CurFrame p p.consumeLine ∧
    (InOpen p.state → p.consumeLine.state = stateLineConsumed) ∧
    (p.state = stateDescending → p.consumeLine.state = stateDescendTerminated) ∧
    (p.state = stateLineConsumed → p.consumeLine.state = stateLineConsumed) := by
  obtain ⟨a1, a2⟩ := advance_frame p (p.line.length - p.i)
  unfold LP.consumeLine
  simp only
  split
  · rename_i h
    refine ⟨⟨a1.root, a1.depth, a1.source, a1.lineStart, a1.line, a1.ile, a1.imono⟩, fun _ => rfl, ?_, fun _ => rfl⟩
    intro hd
    have := a2.eq_of_ne (by rw [hd]; decide)
    rw [this, hd] at h
    exact absurd h (by decide)
  · rename_i h
    split
    · rename_i h2
      refine ⟨⟨a1.root, a1.depth, a1.source, a1.lineStart, a1.line, a1.ile, a1.imono⟩, ?_, fun _ => rfl, ?_⟩
      · intro ho
        have := a2.inOpen ho
        rcases this with h' | h' <;> rw [h'] at h <;> exact absurd h (by decide)
      · intro hl
        have := a2.eq_of_ne (by rw [hl]; decide)
        rw [this, hl] at h2
        exact absurd h2 (by decide)
    · rename_i h2
      refine ⟨a1, ?_, ?_, ?_⟩
      · intro ho
        have := a2.inOpen ho
        rcases this with h' | h' <;> rw [h'] at h <;> exact absurd h (by decide)
      · intro hd
        have := a2.eq_of_ne (by rw [hd]; decide)
        rw [this, hd] at h2
        exact absurd h2 (by decide)
      · intro hl
        have := a2.eq_of_ne (by rw [hl]; decide)
        rw [this]; exact hl

/-! ### consumeIndent -/

theorem consumeIndent_frame : ∀ (fuel : Nat) (p : LP) (n : Nat),
    CurFrame p (LP.consumeIndent fuel p n) ∧ StateStep p.state (LP.consumeIndent fuel p n).state := by
  intro fuel
  induction fuel with
  | zero => intro p n; exact ⟨CurFrame.refl p, StateStep.refl _⟩
  | succ fuel ih =>
    intro p n
    unfold LP.consumeIndent
    split
    · exact ⟨CurFrame.refl p, StateStep.refl _⟩
    · obtain ⟨m1, m2, m3, _⟩ := markMatched_frame p
      simp only
      split
      · rename_i hsp
        have hlt : p.markMatched.i < p.markMatched.line.length := by
          simp only [Bool.and_eq_true, decide_eq_true_eq] at hsp; exact hsp.1
        obtain ⟨u1, u2, u3⟩ := updateTab_frame { p.markMatched with col := p.markMatched.col + 1, i := p.markMatched.i + 1 }
        obtain ⟨r1, r2⟩ := ih ({ p.markMatched with col := p.markMatched.col + 1, i := p.markMatched.i + 1 }).updateTabRemaining (n - 1)
        have hmid : CurFrame p ({ p.markMatched with col := p.markMatched.col + 1, i := p.markMatched.i + 1 }).updateTabRemaining := by
          refine ⟨by rw [u1.root]; exact m1.root, by rw [u1.depth]; exact m1.depth, by rw [u1.source]; exact m1.source,
            by rw [u1.lineStart]; exact m1.lineStart, by rw [u1.line]; exact m1.line, ?_, ?_⟩
          · intro _; rw [u3, u1.line]; simp only; omega
          · rw [u3]; simp only; omega
        exact ⟨hmid.trans r1, m2.trans (by rw [u2] at r2; exact r2)⟩
      · split
        · rename_i htab
          have hlt : p.markMatched.i < p.markMatched.line.length := by
            simp only [Bool.and_eq_true, decide_eq_true_eq] at htab; exact htab.1
          split
          · refine ⟨⟨m1.root, m1.depth, m1.source, m1.lineStart, m1.line, ?_, ?_⟩, m2⟩
            · intro _; simp only; omega
            · simp only; omega
          · obtain ⟨u1, u2, u3⟩ := updateTab_frame { p.markMatched with col := p.markMatched.col + p.markMatched.tabRem, i := p.markMatched.i + 1 }
            obtain ⟨r1, r2⟩ := ih ({ p.markMatched with col := p.markMatched.col + p.markMatched.tabRem, i := p.markMatched.i + 1 }).updateTabRemaining (n - p.markMatched.tabRem)
            have hmid : CurFrame p ({ p.markMatched with col := p.markMatched.col + p.markMatched.tabRem, i := p.markMatched.i + 1 }).updateTabRemaining := by
              refine ⟨by rw [u1.root]; exact m1.root, by rw [u1.depth]; exact m1.depth, by rw [u1.source]; exact m1.source,
                by rw [u1.lineStart]; exact m1.lineStart, by rw [u1.line]; exact m1.line, ?_, ?_⟩
              · intro _; rw [u3, u1.line]; simp only; omega
              · rw [u3]; simp only; omega
            exact ⟨hmid.trans r1, m2.trans (by rw [u2] at r2; exact r2)⟩
        · obtain ⟨s1, s2, _⟩ := setPanic_frame p.markMatched "ConsumeIndent: consumed past end of indent"
          exact ⟨m1.trans s1, by rw [s2]; exact m2⟩

theorem consumeIndentN_frame (p : LP) (n : Nat) :
    CurFrame p (p.consumeIndentN n) ∧ StateStep p.state (p.consumeIndentN n).state :=
  consumeIndent_frame (n + 1) p n

end CM.Proofs
