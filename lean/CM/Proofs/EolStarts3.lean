import CM.Proofs.EolStarts2
/-
C14 (a), block level — the block starts commute with `mapLP` (part 3: HTML block, list item), and `tryStarts` over all
eight starts.
-/
namespace CM.Proofs
open CM CM.Model CM.Gen CM.Proofs.BT

section
variable {x : PExt} {e X body nl : Bytes} {p : LP}

/-! ### Collecting the rest of the line -/

/-- `CollectInline(kind, len(BytesAfterIndent))`: the rest of the line, line ending included, on both sides. -/
theorem mapLP_collectInline_rest (hl : LineOK X body nl p) (he : StdEol e) (hc : CurOK p) (kind : Nat)
    (hk : kind ≠ IK.infoString) :
    (mapLP e X p).collectInline x kind (mapLP e X p).bytesAfterIndent.length =
      mapLP e X (p.collectInline x kind p.bytesAfterIndent.length) := by
  apply mapLP_collectInline x hl he
  · -- the collected stretch ends at the end of the line
    have hbai : p.bytesAfterIndent =
        p.line.drop (p.i + (if p.indent > 0 then indentLength (p.line.drop p.i) else 0)) := by
      by_cases hind : p.indent > 0
      · rw [if_pos hind]
        unfold LP.bytesAfterIndent
        rw [← drop_indentLength, List.drop_drop]
      · rw [if_neg hind, Nat.add_zero]
        exact bai_of_indent_zero p hc (by omega)
    have hj : p.i + (if p.indent > 0 then indentLength (p.line.drop p.i) else 0) ≤ p.line.length := by
      have := indentLength_le (p.line.drop p.i)
      simp only [List.length_drop] at this
      have := hl.hi
      split <;> omega
    generalize p.i + (if p.indent > 0 then indentLength (p.line.drop p.i) else 0) = j at hbai hj
    rw [mapLP_bai_toEol hl he, hbai, ← drop_toEol e (stdEol_ne_nil he), List.length_drop, List.length_drop]
    have h1 : j + (p.line.length - j) = p.line.length := by omega
    have h2 := (hl.le_iff he j).2 hj
    rw [h1, ← hl.line_length he]
    omega
  · intro h; exact absurd h hk

theorem CurOK_of_cur {p q : LP} (h : cur p = cur q) (hq : CurOK q) : CurOK p := CurOK.of_cur h hq

/-! ### HTML block -/

theorem htmlBlockEnd_bai (hl : LineOK X body nl p) (he : StdEol e) (i : Nat) :
    htmlBlockEnd i (mapLP e X p).bytesAfterIndent = htmlBlockEnd i p.bytesAfterIndent := by
  obtain ⟨r, nl', _, hnl', h1, h2⟩ := hl.bai he
  rw [h1, h2]
  rcases hnl' with hn | hn <;> subst hn
  · rfl
  · have hne : toEol e [LF] ≠ [] := by
      have : toEol e [LF] = e := by simp [toEol]
      rw [this]; exact stdEol_ne_nil he
    rw [htmlBlockEnd_append_eol i r (eolBytes_toEol_nl he (Or.inr rfl)) hne,
      htmlBlockEnd_append_eol i r eolBytes_LF (by simp)]

theorem htmlBlockStart_bai (h7 : Start7Inv) (hl : LineOK X body nl p) (he : StdEol e) (i : Nat) :
    htmlBlockStart i (mapLP e X p).bytesAfterIndent = htmlBlockStart i p.bytesAfterIndent := by
  by_cases hi : i = 6
  · subst hi
    exact mapLP_bai_inv (f := htmlStart7) h7 hl he
  · exact mapLP_bai_inv (f := htmlBlockStart i) (fun l _ hn => htmlBlockStart_append_eol i hi l hn) hl he

theorem htmlStartLoop_sim (he : StdEol e) (hP : ParaSimAll x e X) (h7 : Start7Inv) (L L' : Bytes) :
    ∀ (fuel i : Nat) (p : LP), Inv p → LineOK X body nl p → L = p.bytesAfterIndent → L' = (mapLP e X p).bytesAfterIndent →
      htmlStartLoop x L' fuel i (mapLP e X p) = mapLP e X (htmlStartLoop x L fuel i p) ∧
        LineOK X body nl (htmlStartLoop x L fuel i p) := by
  intro fuel
  induction fuel with
  | zero => intro i p _ hl _ _; exact ⟨rfl, hl⟩
  | succ fuel ih =>
    intro i p h hl hL hL'
    unfold htmlStartLoop
    by_cases c1 : i ≥ 7
    · rw [if_pos c1, if_pos c1]; exact ⟨rfl, hl⟩
    rw [if_neg c1, if_neg c1]
    have hst : htmlBlockStart i L' = htmlBlockStart i L := by rw [hL, hL']; exact htmlBlockStart_bai h7 hl he i
    have hen : htmlBlockEnd i L' = htmlBlockEnd i L := by rw [hL, hL']; exact htmlBlockEnd_bai hl he i
    rw [hst, hen]
    by_cases c2 : htmlBlockStart i L = true
    · rw [if_pos c2, if_pos c2, mapLP_containerKind]
      by_cases c3 : (!htmlBlockCanInterrupt i && p.containerKind == BK.paragraph) = true
      · rw [if_pos c3, if_pos c3]; exact ⟨rfl, hl⟩
      rw [if_neg c3, if_neg c3]
      simp only []
      rw [mapLP_openBlock x hl he (hP.at hl) BK.htmlBlock _ (fun _ _ _ => rfl)]
      have hl2 := (hl.openBlock x BK.htmlBlock (fun l => { l with n := (i : Int) })).1
      have c2cur := cur_openBlock x p BK.htmlBlock (fun l => { l with n := (i : Int) })
      generalize p.openBlock x BK.htmlBlock (fun l => { l with n := (i : Int) }) = p2 at hl2 c2cur ⊢
      by_cases c4 : htmlBlockEnd i L = true
      · rw [if_pos c4, if_pos c4]
        rw [mapLP_collectInline_rest hl2 he (CurOK_of_cur c2cur h.cur) IK.rawHTML (by decide)]
        have hl4 := hl2.collectInline x IK.rawHTML p2.bytesAfterIndent.length
        generalize p2.collectInline x IK.rawHTML p2.bytesAfterIndent.length = p4 at hl4 ⊢
        rw [mapLP_consumeLine hl4 he]
        have hl5 := hl4.consumeLine
        generalize p4.consumeLine = p5 at hl5 ⊢
        exact ⟨mapLP_endBlock x hl5 he (hP.at hl5), hl5.endBlock x⟩
      · rw [if_neg c4, if_neg c4]; exact ⟨rfl, hl2⟩
    · rw [if_neg c2, if_neg c2]
      exact ih (i + 1) p h hl hL hL'

theorem eolInv_headLT : EolInvariant (fun l : Bytes => l.head? != some 0x3C) := by
  intro l n hn
  cases l with
  | nil =>
    cases n with
    | nil => rfl
    | cons c t =>
      have hc : c = 0x0A ∨ c = 0x0D := by simpa [isNL] using hn c (by simp)
      rcases hc with h | h <;> subst h <;> rfl
  | cons b t => rfl

theorem startHTML_sim (he : StdEol e) (hP : ParaSimAll x e X) (h7 : Start7Inv) (h : Inv p) (hl : LineOK X body nl p) :
    startHTML x (mapLP e X p) = mapLP e X (startHTML x p) ∧ LineOK X body nl (startHTML x p) := by
  unfold startHTML
  simp only []
  rw [mapLP_indent hl he, mapLP_bai_inv eolInv_headLT hl he]
  by_cases c1 : p.indent ≥ codeBlockIndentLimit
  · rw [if_pos c1, if_pos c1]; exact ⟨rfl, hl⟩
  rw [if_neg c1, if_neg c1]
  by_cases c2 : (p.bytesAfterIndent.head? != some 0x3C) = true
  · rw [if_pos c2, if_pos c2]; exact ⟨rfl, hl⟩
  rw [if_neg c2, if_neg c2]
  exact htmlStartLoop_sim he hP h7 _ _ 8 0 p h hl rfl rfl

/-! ### List item -/

theorem eolInv_blankAfter (k : Nat) : EolInvariant (fun l : Bytes => isBlankLine (l.drop k)) := by
  intro l n hn
  simp only []
  rw [List.drop_append, isBlankLine_append_eol _ (eolBytes_drop hn _)]

theorem mapLP_delimOf :
    (if (mapLP e X p).containerKind != BK.list && (mapLP e X p).containerKind != BK.listItem then (0 : UInt8)
      else (mapLP e X p).container.label.char) =
    (if p.containerKind != BK.list && p.containerKind != BK.listItem then 0 else p.container.label.char) := by
  rw [mapLP_containerKind, mapLP_container_char]

theorem listItemTail_sim (he : StdEol e) (hP : ParaSimAll x e X) (delim : UInt8) (stop ind : Nat)
    (hl : LineOK X body nl p) (hb : stop ≤ (body.drop p.i).length) :
    listItemTail x delim stop ind (mapLP e X p) = mapLP e X (listItemTail x delim stop ind p) ∧
      LineOK X body nl (listItemTail x delim stop ind p) := by
  unfold listItemTail
  simp only []
  rw [mapLP_openBlock x hl he (hP.at hl) BK.listItem _ (fun _ _ _ => rfl)]
  have hq2 := (hl.openBlock x BK.listItem (fun l => { l with char := delim })).1
  have c2cur := cur_openBlock x p BK.listItem (fun l => { l with char := delim })
  generalize p.openBlock x BK.listItem (fun l => { l with char := delim }) = q2 at hq2 c2cur ⊢
  rw [mapLP_openBlock x hq2 he (hP.at hq2) BK.listMarker id posFree_id]
  have hq3 := (hq2.openBlock x BK.listMarker id).1
  have c3cur := cur_openBlock x q2 BK.listMarker id
  generalize q2.openBlock x BK.listMarker id = q3 at hq3 c3cur ⊢
  have e3i : q3.i = p.i := by rw [cur_i c3cur, cur_i c2cur]
  rw [mapLP_advance_rec hq3 he stop (by rw [e3i]; exact hb)]
  have hq4 := hq3.advance stop
  generalize q3.advance stop = q4 at hq4 ⊢
  rw [mapLP_endBlock x hq4 he (hP.at hq4)]
  have hq5 := hq4.endBlock x
  generalize q4.endBlock x = q5 at hq5 ⊢
  rw [mapLP_isRestBlank hq5 he]
  by_cases d1 : q5.isRestBlank = true
  · rw [if_pos d1, if_pos d1, mapLP_setContainerIndent]
    have hq6 := hq5.setContainerIndent ((ind : Int) + (stop : Int) + 1)
    exact ⟨mapLP_consumeLine hq6 he, hq6.consumeLine⟩
  · rw [if_neg d1, if_neg d1, mapLP_indent hq5 he]
    by_cases d2 : q5.indent < 1
    · rw [if_pos d2, if_pos d2]
      exact ⟨mapLP_setContainerIndent _, hq5.setContainerIndent _⟩
    · rw [if_neg d2, if_neg d2]
      by_cases d3 : q5.indent > 4
      · rw [if_pos d3, if_pos d3, mapLP_consumeIndentN hq5 he 1]
        exact ⟨mapLP_setContainerIndent _, (hq5.consumeIndentN he 1).setContainerIndent _⟩
      · rw [if_neg d3, if_neg d3, mapLP_consumeIndentN hq5 he q5.indent]
        exact ⟨mapLP_setContainerIndent _, (hq5.consumeIndentN he q5.indent).setContainerIndent _⟩

theorem startListItem_sim (he : StdEol e) (hP : ParaSimAll x e X) (h : Inv p) (hl : LineOK X body nl p) :
    startListItem x (mapLP e X p) = mapLP e X (startListItem x p) ∧ LineOK X body nl (startListItem x p) := by
  unfold startListItem
  simp only []
  rw [mapLP_indent hl he, mapLP_bai_inv eolInv_listMarker hl he, mapLP_containerKind]
  by_cases c1 : p.indent ≥ codeBlockIndentLimit
  · rw [if_pos c1, if_pos c1]; exact ⟨rfl, hl⟩
  rw [if_neg c1, if_neg c1]
  by_cases c2 : (decide ((parseListMarker p.bytesAfterIndent).stop < 0) ||
      (p.containerKind == BK.paragraph &&
        ((parseListMarker p.bytesAfterIndent).delim == 0x2E || (parseListMarker p.bytesAfterIndent).delim == 0x29) &&
        (parseListMarker p.bytesAfterIndent).n != 1)) = true
  · rw [if_pos c2, if_pos c2]; exact ⟨rfl, hl⟩
  rw [if_neg c2, if_neg c2]
  rw [mapLP_bai_inv (eolInv_blankAfter (parseListMarker p.bytesAfterIndent).stop.toNat) hl he]
  by_cases c3 : (p.containerKind == BK.paragraph &&
      isBlankLine (p.bytesAfterIndent.drop (parseListMarker p.bytesAfterIndent).stop.toNat)) = true
  · rw [if_pos c3, if_pos c3]; exact ⟨rfl, hl⟩
  rw [if_neg c3, if_neg c3]
  obtain ⟨ci, hdrop, hil⟩ := consumeAll p h
  rw [mapLP_consumeIndentN hl he]
  have hl1 := hl.consumeIndentN he p.indent
  have hrec := rec_body eolInv_listMarker hl1 _ hdrop
  generalize p.consumeIndentN p.indent = p1 at ci hdrop hil hl1 hrec ⊢
  have hb := parseListMarker_toNat_le (body.drop p1.i)
  rw [← hrec] at hb
  generalize parseListMarker p.bytesAfterIndent = m at hb c2 c3 ⊢
  have hcondEq : ((mapLP e X p1).containerKind != BK.list ||
      (if ((mapLP e X p1).containerKind != BK.list && (mapLP e X p1).containerKind != BK.listItem) = true then (0 : UInt8)
        else (mapLP e X p1).container.label.char) != m.delim) =
      (p1.containerKind != BK.list ||
      (if (p1.containerKind != BK.list && p1.containerKind != BK.listItem) = true then (0 : UInt8)
        else p1.container.label.char) != m.delim) := by
    rw [mapLP_containerKind, mapLP_container_char]
  generalize hc' : ((mapLP e X p1).containerKind != BK.list ||
      (if ((mapLP e X p1).containerKind != BK.list && (mapLP e X p1).containerKind != BK.listItem) = true then (0 : UInt8)
        else (mapLP e X p1).container.label.char) != m.delim) = c'
  rw [hcondEq] at hc'
  generalize hc : (p1.containerKind != BK.list ||
      (if (p1.containerKind != BK.list && p1.containerKind != BK.listItem) = true then (0 : UInt8)
        else p1.container.label.char) != m.delim) = c at hc'
  subst hc'
  cases c with
  | true =>
    simp only [if_true]
    rw [mapLP_openBlock x hl1 he (hP.at hl1) BK.list _ (fun _ _ _ => rfl)]
    have hq := (hl1.openBlock x BK.list (fun l => { l with char := m.delim })).1
    have hcq := cur_openBlock x p1 BK.list (fun l => { l with char := m.delim })
    generalize p1.openBlock x BK.list (fun l => { l with char := m.delim }) = q1 at hq hcq ⊢
    exact listItemTail_sim he hP m.delim m.stop.toNat p.indent hq (by rw [cur_i hcq]; exact hb)
  | false =>
    simp only [Bool.false_eq_true, if_false]
    exact listItemTail_sim he hP m.delim m.stop.toNat p.indent hl1 hb

end

end CM.Proofs
