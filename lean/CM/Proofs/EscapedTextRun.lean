import CM.Proofs.EscapedTextSpace
/-
C06, escaped text — part 5: the tokenizer loop on an escaped text (`loop_run`, by induction on the length of the
unescaped rest), `parseRun`, `parseBody` and `parseInlines` (`parseInlines_esc`: the result, as an equation).
-/
namespace CM.Proofs.EscText
open CM CM.Gen CM.Model CM.Model.Inl

theorem addLeafP_flush (cs ce : Int) (L : List (Nat × Nat)) (ps pos : Nat) :
    addLeafP IK.text (ps : Int) (pos : Int) (mkState cs ce 0 L) = mkState cs ce 0 (L ++ flush ps pos) := by
  unfold flush
  split
  · rename_i hlt
    exact addLeafP_mkState cs ce 0 L ps pos hlt
  · unfold addLeafP
    rw [spanLenI_cast, if_pos (by simp; omega), List.append_nil]

theorem get_at (pre rest : Bytes) (b : UInt8) : (pre ++ b :: rest)[pre.length]? = some b := by
  simp

theorem get_at1 (pre rest : Bytes) (a b : UInt8) : (pre ++ a :: b :: rest)[pre.length + 1]? = some b := by
  rw [show pre ++ a :: b :: rest = (pre ++ [a]) ++ b :: rest by simp]
  rw [show pre.length + 1 = (pre ++ [a]).length by simp]
  exact get_at _ _ _

section
variable {c : ICtx} {src : Bytes} {f : Nat → LS → IM (ForInStep LS)} (cs ce : Int)

/-- **The tokenizer loop on an escaped text.** -/
theorem loop_run (hf : StepSpec c src f) (tail : Bytes) (ht : tail = [] ∨ tail = [LF]) :
    ∀ (m : Nat) (s2 pre : Bytes) (ps : Nat) (L : List (Nat × Nat)) (i fuel : Nat),
      s2.length ≤ m → src = pre ++ esc s2 ++ tail → (∀ b ∈ s2, b ≠ LF ∧ b ≠ CR) → (tail = [] ∨ ¬ [SP, SP] <:+ s2) →
      ps ≤ pre.length → s2.length + tail.length + 1 ≤ fuel →
      ∃ (ps' : Nat) (L' : List (Nat × Nat)),
        (forIn (List.range' i fuel) (((pre.length : Nat) : Int), (ps : Int), false) f).run (mkState cs ce 0 L) =
          pure (((src.length : Int), (ps' : Int), true), mkState cs ce 0 (L ++ L')) ∧
        L' ++ flush ps' src.length = leaves ps pre.length s2 := by
  intro m
  induction m with
  | zero =>
    intro s2 pre ps L i fuel hm hsrc hs2 hend hps hfuel
    have : s2 = [] := List.length_eq_zero_iff.1 (by omega)
    subst this
    rcases ht with rfl | rfl
    · -- end of the run
      have hlen : src.length = pre.length := by rw [hsrc]; simp [esc]
      obtain ⟨fuel', rfl⟩ : ∃ k, fuel = k + 1 := ⟨fuel - 1, by simp at hfuel; omega⟩
      refine ⟨ps, [], ?_, ?_⟩
      · rw [← hlen, forIn_step_done (hf.done i ps _ rfl), List.append_nil]
      · rw [hlen]; rfl
    · -- the final LF
      have hlen : src.length = pre.length + 1 := by rw [hsrc]; simp [esc]
      obtain ⟨fuel', rfl⟩ : ∃ k, fuel = k + 2 := ⟨fuel - 2, by simp at hfuel; omega⟩
      have hb : src[pre.length]? = some LF := by rw [hsrc]; simp [esc]
      refine ⟨pre.length + 1, flush ps pre.length, ?_, ?_⟩
      · rw [forIn_step_yield (hf.lf i pre.length ps _ rfl hb), addLeafP_flush cs ce L ps pre.length]
        have e : ((pre.length : Nat) : Int) + 1 = (src.length : Int) := by rw [hlen]; simp
        rw [e, forIn_step_done (hf.done (i + 1) _ _ rfl), hlen]
      · rw [hlen, leaves]; simp [flush]
  | succ m ih =>
    intro s2 pre ps L i fuel hm hsrc hs2 hend hps hfuel
    cases s2 with
    | nil => exact ih [] pre ps L i fuel (by simp) hsrc hs2 hend hps hfuel
    | cons b r =>
      obtain ⟨fuel', rfl⟩ : ∃ k, fuel = k + 1 := ⟨fuel - 1, by simp at hfuel; omega⟩
      have hr : ∀ b ∈ r, b ≠ LF ∧ b ≠ CR := fun x hx => hs2 x (List.mem_cons_of_mem _ hx)
      have hendr : tail = [] ∨ ¬ [SP, SP] <:+ r := by
        rcases hend with h | h
        · exact Or.inl h
        · exact Or.inr fun hr => h (List.IsSuffix.trans hr (List.suffix_cons b r))
      simp only [List.length_cons] at hm hfuel
      by_cases hp : isASCIIPunctuation b = true
      · -- an escape
        have hsrc' : src = (pre ++ [0x5C, b]) ++ esc r ++ tail := by rw [hsrc, esc, if_pos hp]; simp
        have hb0 : src[pre.length]? = some 0x5C := by rw [hsrc, esc, if_pos hp]; simp
        have hb1 : src[pre.length + 1]? = some b := by
          rw [hsrc, esc, if_pos hp]
          simp only [List.append_assoc, List.cons_append]
          exact get_at1 _ _ _ _
        obtain ⟨ps', L', h1, h2⟩ := ih r (pre ++ [0x5C, b]) (pre.length + 2) (L ++ flush ps pre.length ++ [(pre.length + 1, pre.length + 2)])
          (i + 1) fuel' (by omega) hsrc' hr hendr (by simp) (by omega)
        refine ⟨ps', flush ps pre.length ++ (pre.length + 1, pre.length + 2) :: L', ?_, ?_⟩
        · rw [forIn_step_yield (hf.escape i pre.length ps _ b rfl hb0 hb1 hp), addLeafP_flush cs ce L ps pre.length]
          have e1 : ((pre.length : Nat) : Int) + 1 = ((pre.length + 1 : Nat) : Int) := by simp
          have e2 : ((pre.length : Nat) : Int) + 2 = ((pre.length + 2 : Nat) : Int) := by simp
          rw [e1, e2, addLeafP_mkState cs ce 0 _ _ _ (by omega)]
          have e3 : pre.length + 2 = (pre ++ [0x5C, b]).length := by simp
          rw [e3] at h1 ⊢
          rw [h1]
          simp
        · rw [leaves, if_pos hp, List.append_assoc, List.cons_append, h2]
          simp
      · by_cases hsp : b = SP
        · -- a run of spaces
          subst hsp
          have hb0 : src[pre.length]? = some SP := by rw [hsrc, esc, if_neg hp]; simp
          have hdrop : src.drop pre.length = esc (SP :: r) ++ tail := by
            rw [hsrc, List.append_assoc, List.drop_left]
          have he := hlbs_esc r tail hr ht hend
          have hsplit := split_SP r
          have hsrc' : src = (pre ++ List.replicate (1 + spLen r) SP) ++ esc (r.dropWhile (· == SP)) ++ tail := by
            rw [hsrc, esc, if_neg hp]
            conv => lhs; rw [hsplit, esc_append, esc_replicate_SP]
            simp [Nat.add_comm 1, List.replicate_succ]
          have hlen' : (r.dropWhile (· == SP)).length ≤ r.length := (List.dropWhile_sublist _).length_le
          obtain ⟨ps', L', h1, h2⟩ := ih (r.dropWhile (· == SP)) (pre ++ List.replicate (1 + spLen r) SP) ps L (i + 1) fuel'
            (by omega) hsrc' (fun x hx => hr x ((List.dropWhile_sublist _).subset hx))
            (by
              rcases hendr with h | h
              · exact Or.inl h
              · exact Or.inr fun hd => h (List.IsSuffix.trans hd (List.dropWhile_suffix _)))
            (by simp; omega) (by omega)
          refine ⟨ps', L', ?_, ?_⟩
          · rw [forIn_step_yield (hf.space i pre.length ps _ rfl hb0), hdrop, he]
            have e : ((pre.length : Nat) : Int) + ((1 + spLen r : Nat) : Int) =
                (((pre ++ List.replicate (1 + spLen r) SP).length : Nat) : Int) := by simp
            rw [e, h1]
          · rw [h2]
            have : SP :: r = List.replicate (1 + spLen r) SP ++ r.dropWhile (· == SP) := by
              conv => lhs; rw [hsplit]
              simp [Nat.add_comm 1, List.replicate_succ]
            rw [this, leaves_spaces]
            simp
        · -- a plain byte
          have hpb : plainByte b := ⟨by simpa using hp, hsp, (hs2 b (by simp)).1, (hs2 b (by simp)).2⟩
          have hsrc' : src = (pre ++ [b]) ++ esc r ++ tail := by rw [hsrc, esc, if_neg hp]; simp
          have hb0 : src[pre.length]? = some b := by rw [hsrc, esc, if_neg hp]; simp
          obtain ⟨ps', L', h1, h2⟩ := ih r (pre ++ [b]) ps L (i + 1) fuel' (by omega) hsrc' hr hendr (by simp; omega) (by omega)
          refine ⟨ps', L', ?_, ?_⟩
          · rw [forIn_step_yield (hf.plain i pre.length ps _ b rfl hb0 hpb)]
            have e : ((pre.length : Nat) : Int) + 1 = (((pre ++ [b]).length : Nat) : Int) := by simp
            rw [e, h1]
          · rw [h2, leaves, if_neg hp]
            simp

end

theorem setIgnore_mkState (cs ce : Int) (up : Nat) (L : List (Nat × Nat)) :
    (setIgnoreNextIndent false).run (mkState cs ce up L) = pure ((), mkState cs ce up L) := by
  simp [setIgnoreNextIndent, mkState]

theorem setUnparsedPos_mkState (cs ce : Int) (up up' : Nat) (L : List (Nat × Nat)) :
    (setUnparsedPos up').run (mkState cs ce up L) = pure ((), mkState cs ce up' L) := by
  simp [setUnparsedPos, mkState]

/-- The side conditions on the text: no line ending inside; not two or more spaces directly before the final line
    ending (`tail = [LF]`: the run as the block phase delivers it for a one-line paragraph). -/
structure TextOK (s tail : Bytes) : Prop where
  noEol : ∀ b ∈ s, b ≠ LF ∧ b ≠ CR
  tailOK : tail = [] ∨ tail = [LF]
  trail : tail = [] ∨ ¬ [SP, SP] <:+ s

/-- **`parseRun` on an escaped text**: the arena gets exactly the Text leaves `leaves 0 0 s`. -/
theorem parseRun_esc {c : ICtx} (s tail : Bytes) (cs ce : Int) (h : OneRun c (esc s ++ tail)) (hok : TextOK s tail) :
    (parseRun c).run (mkState cs ce 0 []) = pure ((), mkState cs ce 0 (leaves 0 0 s)) := by
  obtain ⟨f, heq, hf⟩ := parseRun_shape c _ h
  have hun : c.unparsed[(mkState cs ce 0 []).unparsedPos]? = some (mkInline IK.unparsed 0 ((esc s ++ tail).length : Int)) := by
    rw [h.unparsed]; rfl
  rw [heq _ _ rfl hun]
  unfold tokLoop
  simp only [StateT.run_bind, unparsedAt_run c _ _ hun, pure_bind, setIgnore_mkState]
  have hrange : ([:c.srcA.size + 2] : Std.Legacy.Range) = [:(esc s ++ tail).length + 2] := by rw [h.srcA]; simp
  rw [hrange, Std.Legacy.Range.forIn_eq_forIn_range']
  have hsize : Std.Legacy.Range.size [:(esc s ++ tail).length + 2] = (esc s ++ tail).length + 2 := by
    simp [Std.Legacy.Range.size]
  simp only [hsize]
  have hfuel : s.length + tail.length + 1 ≤ (esc s ++ tail).length + 2 := by
    have := length_le_esc s
    simp; omega
  obtain ⟨ps', L', h1, h2⟩ := loop_run cs ce hf tail hok.tailOK s.length s [] 0 [] 0 _ (Nat.le_refl _) (by simp)
    hok.noEol hok.trail (Nat.le_refl _) hfuel
  have e0 : (mkInline IK.unparsed 0 ((esc s ++ tail).length : Int)).label.start = ((0 : Nat) : Int) := rfl
  simp only [List.length_nil] at h1 h2
  rw [e0, h1]
  simp only [pure_bind, Bool.not_true, Bool.false_eq_true, if_false, spanEnd, StateT.run_bind, StateT.run_get, StateT.run_pure,
    addText, addLeaf_run, List.nil_append]
  rw [h.spanEnd (mkState cs ce 0 L') rfl, addLeafP_flush, h2]

end CM.Proofs.EscText
