import CM.Proofs.ItemFirstLine
/-
C09 (list-item half): the end of the input.  Both documents are closed; the prefixed side holds the closed list with
its one closed item, whose children are the closed blocks delivered so far (the marker first) followed by the images
of the blocks of the bare side.  The looseness of the list is not determined here (it is the same for the list and
its item).
-/
namespace CM.Proofs.Item
open CM CM.Model CM.Gen CM.Proofs.BT CM.Proofs.BSp CM.Proofs.Quote CM.Proofs.Nest

variable {E : Env} {G : List Tree → Prop} {p q : LP} {x : PExt} {k : Nat} {d : UInt8}

theorem closeBlock_item (x : PExt) (src : Bytes) (e : Int) (l : PLabel) (bs : List PB) (is : List Tree)
    (ho : l.stop < 0) (hk : l.kind = BK.listItem) :
    closeBlock x src e (.mk l bs is) = [.mk { l with stop := e } (closeLast x src e bs) is] := by
  rw [closeBlock]
  rw [if_neg (by omega)]
  have h1 : (l.kind == BK.list) = false := by rw [hk]; rfl
  have h2 : (l.kind == BK.paragraph || l.kind == BK.setextHeading) = false := by rw [hk]; rfl
  have h3 : (l.kind == BK.indentedCode) = false := by rw [hk]; rfl
  simp only [h1, h2, h3, Bool.false_eq_true, if_false]

theorem closeBlock_list (x : PExt) (src : Bytes) (e : Int) (l : PLabel) (bs : List PB) (is : List Tree)
    (ho : l.stop < 0) (hk : l.kind = BK.list) :
    closeBlock x src e (.mk l bs is) =
      if listLooseAtClose { l with stop := e } bs then
        [.mk { l with stop := e, loose := true } ((closeLast x src e bs).map (PB.setLabel fun il => { il with loose := true })) is]
      else [.mk { l with stop := e } (closeLast x src e bs) is] := by
  rw [closeBlock]
  rw [if_neg (by omega)]
  have h1 : (l.kind == BK.list) = true := by rw [hk]; rfl
  simp only [h1, if_true]

/-- The tree of the prefixed side after the end of the input. -/
structure FinRI (k : Nat) (d : UInt8) (E : Env) (e' : Int) (Pb : List PB) (Q' : PB) : Prop where
  shape : ∃ lq' isQ ll' isL il' pre bs'', Q' = .mk lq' [.mk ll' [.mk il' (pre ++ bs'') []] isL] isQ ∧
    lq'.stop = e' ∧
    (ll'.kind = BK.list ∧ ll'.start = 0 ∧ ll'.stop = e' ∧ ll'.n = 0 ∧ ll'.char = d ∧ ll'.indent = 0) ∧
    (il'.kind = BK.listItem ∧ il'.start = 0 ∧ il'.stop = e' ∧ il'.n = 0 ∧ il'.char = d ∧ il'.indent = (k : Int) ∧
      il'.loose = ll'.loose) ∧
    Quote.PreOK E pre ∧ L2 (BR E) Pb bs''

/-- Closing both documents. -/
theorem closeDoc_relI (HG : GOK x E G) {P Q : PB} (h : Nest.RootR (iF k d) E P Q) (htp : TP G P) {e e' : Int}
    (he : 0 ≤ e) (he' : 0 ≤ e') (hp : E.PR e e') :
    FinRI k d E e' ((closeBlock x E.src e P).headD P).blocks ((closeBlock x E.src' e' Q).headD Q) := by
  obtain ⟨lq, isQ, ll, isL, Qb, rfl, hk, ho, hlk, hlo, ht⟩ := root_shape h
  have hwl : ll.start = 0 ∧ ll.n = 0 ∧ ll.char = d ∧ ll.indent = 0 := by
    unfold Nest.RootR at h
    rw [iF_d] at h
    cases h with
    | @step n lq isQ Qc h1 h2 hw =>
      cases hw with
      | @step n2 ll isL Qb g1 g2 hw2 =>
        unfold WL at g2; rw [if_neg (by rw [iF_d]; omega)] at g2
        exact ⟨g2.2.1, g2.2.2.1, g2.2.2.2.1, g2.2.2.2.2⟩
  have hkids := htp.kids
  obtain ⟨lp, bs, isP⟩ := P
  obtain ⟨ql, bq, isq⟩ := Qb
  obtain ⟨pre, bs', ebq, hpre, hr⟩ := ht.kids
  simp only [PB.blocks] at ebq hr hkids
  subst ebq
  have hqi : isq = [] := ht.qinl
  subst hqi
  rw [closeBlock_container x _ e lp bs isP ht.popen (Or.inl ht.pkind)]
  rw [closeBlock_container x _ e' lq _ isQ ho (Or.inl hk)]
  simp only [List.headD_cons, PB.blocks]
  rw [BSp.closeLast_single, closeBlock_list x _ e' ll _ isL hlo hlk, BSp.closeLast_single,
    closeBlock_item x _ e' ql _ [] ht.qlab.stop ht.qlab.kind]
  have hcl := Nest.closeLast_rel HG he he' hp bs bs' hr hkids
  have hkids' : ∃ bs'', closeLast x E.src' e' (pre ++ bs') = pre ++ bs'' ∧ L2 (BR E) (closeLast x E.src e bs) bs'' := by
    by_cases hne : bs' = []
    · subst hne
      have hb : bs = [] := hr.nil_iff.mpr rfl
      subst hb
      rw [List.append_nil, closeLast_closed x _ e' pre hpre.1]
      refine ⟨[], by simp, ?_⟩
      rw [BSp.closeLast_nil]; exact .nil
    · rw [closeLast_append x _ e' pre bs' hne]
      exact ⟨_, rfl, hcl⟩
  obtain ⟨bs'', e1, hr''⟩ := hkids'
  rw [e1]
  have tl := ht.qlab
  split
  next hc => exact ⟨⟨{ lq with stop := e' }, isQ, { ll with stop := e', loose := true }, isL, { ql with stop := e', loose := true }, pre, bs'',
      rfl, rfl, ⟨hlk, hwl.1, rfl, hwl.2.1, hwl.2.2.1, hwl.2.2.2⟩,
      ⟨tl.kind, tl.start, rfl, tl.n, tl.char, tl.indent, rfl⟩, hpre, hr''⟩⟩
  next hc =>
    have hll : ll.loose = false := by
      unfold listLooseAtClose at hc
      simp only [Bool.or_eq_true, not_or, Bool.not_eq_true] at hc
      exact hc.1
    refine ⟨⟨{ lq with stop := e' }, isQ, { ll with stop := e' }, isL, { ql with stop := e' }, pre, bs'',
      rfl, rfl, ⟨hlk, hwl.1, rfl, hwl.2.1, hwl.2.2.1, hwl.2.2.2⟩,
      ⟨tl.kind, tl.start, rfl, tl.n, tl.char, tl.indent, ?_⟩, hpre, hr''⟩⟩
    show ql.loose = ll.loose
    rw [hll]; exact tl.loose

/-- **The end of the input** on both sides. -/
theorem processLine_eof_simI (HG : GOK x E G) (hpl : p.line = []) (hql : q.line = [])
    (hroot : Nest.RootR (iF k d) E p.root q.root) (htp : TP G p.root)
    (hsp : p.source = E.src) (hsq : q.source = E.src') (hstart : E.PR (p.lineStart : Int) (q.lineStart : Int))
    (hT : p.state = stateDescendTerminated → ∃ c, spineGet p.root 1 = some c ∧ c.isOpen = true ∧ hasMatch c.label.kind) :
    FinRI k d E q.lineStart (processLine x p).root.blocks (processLine x q).root := by
  have hTq : q.state = stateDescendTerminated → ∃ c, spineGet q.root 1 = some c ∧ c.isOpen = true ∧ hasMatch c.label.kind := by
    intro _
    obtain ⟨lq, isQ, ll, isL, Qb, e, _, _, hlk, hlo, _⟩ := root_shape hroot
    refine ⟨.mk ll [Qb] isL, by rw [e, show (1 : Nat) = 0 + 1 from rfl, spineGet_wrap, spineGet_zero], ?_, ?_⟩
    · simp only [PB.isOpen, decide_eq_true_eq]; exact hlo
    · right; left; exact hlk
  rw [(processLine_eof_p (x := x) p hpl hT).1, (processLine_eof_p (x := x) q hql hTq).1, hsp, hsq]
  exact closeDoc_relI HG hroot htp (Int.natCast_nonneg _) (Int.natCast_nonneg _) hstart

end CM.Proofs.Item
