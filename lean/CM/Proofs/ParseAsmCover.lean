import CM.Proofs.ParseAsmCheck
import CM.Proofs.ParseScanLkCoverRewrite
/-
C03, inline half — **the assembly for coverage**: `InlH2.rewriteE_cover` under hypotheses that range over `conts t` and allow
the content-less container (`EmptyRun`: one empty Unparsed run).  There the run covers no byte (`WFT`: every node below an
empty span has an empty span), so the premise `CovTs cs j` is false and no coverage fact is needed; the container itself, if
it is a leaf of the block tree, stays one.  Then the whole-`parseDoc` statement with `ParseTails` and `ContsCovE`.
-/
namespace CM.Proofs.PSc
open CM CM.Model CM.Gen CM.Spec CM.Model.Inl
open CM.Proofs CM.Proofs.PW CM.Proofs.RK CM.Proofs.InlH CM.Proofs.InlH2 CM.Proofs.PS CM.Proofs.PSh

/-- every container the inline phase visits is content-less or `ContCov` -/
def ContsCovE (x : IExt) (src : Bytes) (srcA : Array UInt8) (matchRef : Bytes → Bool) (t : Tree) : Prop :=
  ∀ p ∈ conts t, EmptyRun p.2 ∨ ContCov x src srcA matchRef (.node p.1 p.2)

theorem ContsCov.toE {x : IExt} {src : Bytes} {srcA : Array UInt8} {matchRef : Bytes → Bool} {t : Tree}
    (h : ContsCov x src srcA matchRef t) : ContsCovE x src srcA matchRef t := by
  intro p hp
  obtain ⟨hn, hb, hu⟩ := conts_sub _ t (Nat.le_refl _) p hp
  exact Or.inr (h _ hn hb hu)

/-- A tree with an empty span covers nothing. -/
theorem not_covTs_empty {t0 : Tree} (hw : WFT t0) (he : t0.label.start = t0.label.stop) (j : Int) : ¬ CovTs [t0] j := by
  rintro ⟨u, hu, _, h1, h2⟩
  simp only [T.nodesL, List.append_nil] at hu
  obtain ⟨_, g1, g2⟩ := InlH2.WFT.nodes_ok t0 hw u hu
  omega

mutual
/-- **The inline phase on a block tree loses nothing** (`InlH2.rewriteE_cover` under `ContsOK2E` / `ContsCovE`). -/
theorem rewriteE_cover_E (x : IExt) (src : Bytes) (srcA : Array UInt8) (matchRef : Bytes → Bool) :
    (t : Tree) → WFT t → ContsOK2E x src srcA matchRef t → ContsCovE x src srcA matchRef t →
      ∀ t', rewriteE x src srcA matchRef t = .ok t' →
      ∀ j : Int, 0 ≤ j → needsCover (srcA[j.toNat]!) = true → CovTs [t] j → CovTs [t'] j
  | .node l cs, hw, hc, hv, t', h, j, hj0, hn, hcov => by
    rw [rewriteE] at h
    split at h
    · cases h; exact hcov
    · rename_i hb
      have hb' : l.isBlock = true := by simpa using hb
      split at h
      · rename_i hu
        split at h
        · rename_i kids hk
          cases h
          have hmem : (l, cs) ∈ conts (.node l cs) := by rw [conts_self hb' hu]; exact List.mem_singleton.2 rfl
          rw [WFT_iff] at hw
          rcases covTs_node.1 hcov with ⟨hl, h1, h2⟩ | hcs
          · exact covTs_node.2 (Or.inl ⟨isLeaf_block hb' hl, h1, h2⟩)
          · have hempty : ∀ t0, cs = [t0] → t0.label.start = t0.label.stop → False := by
              intro t0 he he0
              subst he
              have hw0 : WFT t0 := ((WFL_cons _ _ _ _).1 hw.2).2.1
              exact not_covTs_empty hw0 he0 j hcs
            rcases hc _ hmem with ⟨t0, he, _, _, he0⟩ | ⟨c0, cT, cS⟩
            · exact absurd (hempty t0 he he0) id
            · rcases hv _ hmem with ⟨t0, he, _, _, he0⟩ | ⟨vL, vT, vR⟩
              · exact absurd (hempty t0 he he0) id
              · obtain ⟨r, hr, r1, r2, r3, r4⟩ := vR j hj0 hn hcs
                exact covTs_node.2 (Or.inr (parseInlines_cover' x src srcA matchRef l.start l.stop cs c0 hw.2 cT cS vL vT
                  kids hk r hr r1 r2 j r3 r4 hj0 hn))
        · cases h
      · rename_i hu
        split at h
        · rename_i kids hk
          cases h
          rw [WFT_iff] at hw
          rcases covTs_node.1 hcov with ⟨hl, h1, h2⟩ | hcs
          · exact covTs_node.2 (Or.inl ⟨isLeaf_block hb' hl, h1, h2⟩)
          · exact covTs_node.2 (Or.inr (rewriteForestE_cover_E x src srcA matchRef cs l.start l.stop hw.2
              (fun c hc' p hp => hc p (conts_child hb' hu hc' hp))
              (fun c hc' p hp => hv p (conts_child hb' hu hc' hp)) kids hk j hj0 hn hcs))
        · cases h
theorem rewriteForestE_cover_E (x : IExt) (src : Bytes) (srcA : Array UInt8) (matchRef : Bytes → Bool) :
    (ts : List Tree) → ∀ lo hi, WFL lo hi ts → (∀ t ∈ ts, ContsOK2E x src srcA matchRef t) →
      (∀ t ∈ ts, ContsCovE x src srcA matchRef t) →
      ∀ ts', rewriteForestE x src srcA matchRef ts = .ok ts' →
      ∀ j : Int, 0 ≤ j → needsCover (srcA[j.toNat]!) = true → CovTs ts j → CovTs ts' j
  | [], lo, hi, hw, _, _, ts', h, j, _, _, hcov => absurd hcov (CovTs_nil j)
  | t :: ts, lo, hi, hw, hc, hv, ts', h, j, hj0, hn, hcov => by
    rw [rewriteForestE] at h
    split at h
    · cases h
    · rename_i t' ht
      split at h
      · cases h
      · rename_i ts'' hts
        cases h
        rw [WFL_cons] at hw
        obtain ⟨h1, h2, h3⟩ := hw
        rcases covTs_consC.1 hcov with hc1 | hc2
        · exact covTs_consC.2 (Or.inl (rewriteE_cover_E x src srcA matchRef t h2 (hc t (List.mem_cons_self ..))
            (hv t (List.mem_cons_self ..)) t' ht j hj0 hn hc1))
        · exact covTs_consC.2 (Or.inr (rewriteForestE_cover_E x src srcA matchRef ts _ _ h3
            (fun c hc' => hc c (List.mem_cons_of_mem _ hc')) (fun c hc' => hv c (List.mem_cons_of_mem _ hc')) ts'' hts
            j hj0 hn hc2))
end

/-- **C03, inline half, for `Parse`**, given the tail facts and the coverage facts of the containers that have content. -/
theorem parse_cover_of_tails (x : PExt) (ix : IExt) (inp : Bytes) (hT : ParseTails x ix inp)
    (hV : ∀ pr ∈ (parseDoc x ix inp).roots,
      ContsCovE ix pr.root.source pr.root.source.toArray (matchRefOf x ix inp) (pbToTree pr.root.block)) :
    ∀ pr ∈ (parseDoc x ix inp).roots, ∀ t', pr.tree = .ok t' →
      ∀ j : Int, 0 ≤ j → needsCover (pr.root.source.toArray[j.toNat]!) = true →
        CovTs [pbToTree pr.root.block] j → CovTs [t'] j := by
  intro pr hpr t' ht
  rw [parseDoc_tree x ix inp pr hpr] at ht
  have hr := root_mem_drain x ix inp pr hpr
  obtain ⟨hw, _, _⟩ := blockphase_WFT x _ inp pr.root hr
  exact rewriteE_cover_E ix _ _ _ _ hw (blockphase_contsOK2E x _ inp ix _ pr.root hr (hT pr hpr)) (hV pr hpr) t' ht

end CM.Proofs.PSc

#print axioms CM.Proofs.PSc.rewriteE_cover_E
#print axioms CM.Proofs.PSc.parse_cover_of_tails
