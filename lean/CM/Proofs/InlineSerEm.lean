import CM.Proofs.InlineSerWrap
/-
Inline serialisation — emphasis, part 2: `processEmphasis 0` on a delimiter stack of one opener and one closer that
match and are used up (`*…*`, `_…_`, `**…**`, `__…__`), as an equation about an ARBITRARY arena whose root has the
children `pre ++ o :: mid ++ c :: post` (`procEm_pair`): the children `mid` move under a new Emphasis / Strong node, the
two delimiter Text nodes are removed, the stack is emptied.
-/
namespace CM.Proofs.InlSer
open CM CM.Gen CM.Model CM.Model.Inl CM.Proofs.EscText

def shrinkP (w : Int) (o c : Nat) (s : IState) : IState :=
  { s with nodes := (s.nodes.modify o fun n => { n with stop := n.stop - w }).modify c fun n => { n with start := n.start + w } }

def rmP (x : Nat) (s : IState) : IState :=
  { s with nodes := s.nodes.modify 0 fun n => { n with kids := n.kids.filter (· != x) }, parentMap := s.parentMap.set! x none }

def setStkP (K : Array DelimE) (s : IState) : IState := { s with stack := K }

theorem removeNode_run (x : Nat) (s : IState) (h : (s.parentMap[x]?).join = some 0) :
    (removeNode x).run s = pure ((), rmP x s) := by
  simp [removeNode, StateT.run_bind, h, modifyNode, setParent, rmP]

theorem delStack_run (i j : Nat) (s : IState) (h1 : i ≤ j) (h2 : j ≤ s.stack.size) :
    (delStack i j).run s = pure ((), setStkP (s.stack.extract 0 i ++ s.stack.extract j s.stack.size) s) := by
  simp only [delStack, StateT.run_bind, StateT.run_get, pure_bind]
  rw [if_neg (by simp; omega)]
  rfl

theorem nodeLen_run (id : Nat) (s : IState) : (nodeLen id).run s = pure (spanLenI (s.nodes[id]!).start (s.nodes[id]!).stop, s) := rfl

theorem replicate_get0 (n i : Nat) : (Array.replicate n 0)[i]! = 0 := by
  by_cases h : i < n
  · rw [getElem!_pos _ i (by simpa using h)]; simp
  · rw [getElem!_neg _ i (by simpa using h)]; rfl

/-! ### array lookups through the transformers -/

theorem get!_modify_ne (a : Array INode) (i j : Nat) (f : INode → INode) (h : i ≠ j) : (a.modify i f)[j]! = a[j]! := by
  by_cases hj : j < a.size
  · rw [getElem!_pos _ j (by simpa using hj), getElem!_pos _ j hj, Array.getElem_modify]; simp [h]
  · rw [getElem!_neg _ j (by simpa using hj), getElem!_neg _ j hj]

theorem get!_modify_eq (a : Array INode) (i : Nat) (f : INode → INode) (h : i < a.size) : (a.modify i f)[i]! = f a[i]! := by
  rw [getElem!_pos _ i (by simpa using h), getElem!_pos _ i h, Array.getElem_modify]; simp

theorem foldl_setPar_nodes (p : Option Nat) (l : List Nat) (s : IState) :
    (l.foldl (fun st k => setParP k p st) s).nodes = s.nodes := by
  induction l generalizing s with
  | nil => rfl
  | cons k l ih => rw [List.foldl_cons, ih]; rfl

theorem foldl_setPar_stack (p : Option Nat) (l : List Nat) (s : IState) :
    (l.foldl (fun st k => setParP k p st) s).stack = s.stack := by
  induction l generalizing s with
  | nil => rfl
  | cons k l ih => rw [List.foldl_cons, ih]; rfl

theorem foldl_setPar_pm (p : Option Nat) (l : List Nat) (s : IState) (j : Nat) (hj : j ∉ l) :
    (l.foldl (fun st k => setParP k p st) s).parentMap[j]? = s.parentMap[j]? := by
  induction l generalizing s with
  | nil => rfl
  | cons k l ih =>
    rw [List.foldl_cons, ih _ (fun h => hj (List.mem_cons_of_mem _ h))]
    have hk : k ≠ j := fun h => hj (h ▸ List.mem_cons_self ..)
    simp [setParP, Array.set!_eq_setIfInBounds, Array.getElem?_setIfInBounds, hk]

/-- The arena after `processEmphasis` has matched the pair `o … c` (both delimiter nodes used up). -/
def emFinal (kind : Nat) (w : Int) (o c : Nat) (pre mid post : List Nat) (s : IState) : IState :=
  setStkP #[] (rmP c (rmP o (wrapP kind o (some c) pre mid (c :: post) (shrinkP w o c s))))

set_option maxHeartbeats 400000 in
theorem procEm_pair (s : IState) (eo ec : DelimE) (o c n obi : Nat) (pre mid post : List Nat)
    (hst : s.stack = #[eo, ec]) (ho : eo.node = o) (hc : ec.node = c)
    (h1 : (isEmphElem eo && eo.elem.flags &&& 4 != 0) = false) (h2 : (isEmphElem ec && ec.elem.flags &&& 4 != 0) = true)
    (h3 : openersBottomIndex ec.elem = some obi) (h4 : isEmphasisDelimiterMatch eo.elem ec.elem = true)
    (hlo : spanLenI (s.nodes[o]!).start (s.nodes[o]!).stop = n) (hlc : spanLenI (s.nodes[c]!).start (s.nodes[c]!).stop = n)
    (hn : n = 1 ∨ n = 2)
    (hzo : spanLenI (s.nodes[o]!).start ((s.nodes[o]!).stop - (n : Int)) = 0)
    (hzc : spanLenI ((s.nodes[c]!).start + (n : Int)) (s.nodes[c]!).stop = 0)
    (hoc : o ≠ c) (ho0 : o ≠ 0) (hc0 : c ≠ 0) (hosz : o < s.nodes.size) (hcsz : c < s.nodes.size)
    (hpo : (s.parentMap[o]?).join = some 0) (hpc : (s.parentMap[c]?).join = some 0)
    (hkids : (s.nodes[0]!).kids = (pre ++ o :: (mid ++ c :: post)).toArray) (hopre : o ∉ pre) (hcmid : c ∉ mid)
    (homid : o ∉ mid) (hpsz : s.parentMap.size = s.nodes.size) :
    (Inl.processEmphasis 0).run s =
      pure ((), emFinal (if n = 2 then IK.strong else IK.emphasis) (n : Int) o c pre mid post s) := by
  unfold Inl.processEmphasis
  simp only [StateT.run_bind, StateT.run_get, pure_bind]
  obtain ⟨fuel, hfuel⟩ : ∃ f, emphFuel s = f + 2 := ⟨emphFuel s - 2, by unfold emphFuel; omega⟩
  have hrange : Std.Legacy.Range.size [:emphFuel s] = fuel + 2 := by simp [Std.Legacy.Range.size, hfuel]
  rw [Std.Legacy.Range.forIn_eq_forIn_range']
  simp only [hrange]
  generalize hg : (fun (x : Nat) (r : Nat × Array Nat × Bool) => (_ : IM (ForInStep (Nat × Array Nat × Bool)))) = g
  -- the arena after the wrap
  let S2 := shrinkP (n : Int) o c s
  let S3 := wrapP (if n = 2 then IK.strong else IK.emphasis) o (some c) pre mid (c :: post) S2
  have hS2kids : (S2.nodes[0]!).kids = (pre ++ o :: (mid ++ c :: post)).toArray := by
    show (((s.nodes.modify o _).modify c _)[0]!).kids = _
    rw [get!_modify_ne _ _ _ _ hc0, get!_modify_ne _ _ _ _ ho0, hkids]
  have hwrap := wrap_run (if n = 2 then IK.strong else IK.emphasis) S2 o (some c) pre mid (c :: post) hpo hS2kids hopre
    (fun x hx h => hcmid (by simp only [Option.some.injEq] at h; exact h ▸ hx)) (Or.inr ⟨c, post, rfl, rfl⟩)
  have hstep1 : ∀ x, (g x (0, Array.replicate openersBottomCount 0, false)).run s =
      pure (ForInStep.yield (0, Array.replicate openersBottomCount 0, false),
        emFinal (if n = 2 then IK.strong else IK.emphasis) (n : Int) o c pre mid post s) := by
    intro x
    have h1' : ¬ (isEmphElem eo = true ∧ ¬ eo.elem.flags &&& 4 = 0) := by simpa using h1
    have h2' : isEmphElem ec = true ∧ ¬ ec.elem.flags &&& 4 = 0 := by simpa using h2
    rw [← hg]
    simp only [StateT.run_bind, StateT.run_get, pure_bind, hst, Std.Legacy.Range.forIn_eq_forIn_range', Std.Legacy.Range.size,
      List.size_toArray, List.length_cons, List.length_nil]
    simp [List.range', h1', h2', h3, h4, replicate_get0, nodeLen_run, ho, hc, hlo, hlc, StateT.run_bind]
    have hw : (if 2 ≤ n then (2 : Int) else 1) = (n : Int) := by rcases hn with rfl | rfl <;> rfl
    have hk : (if 2 ≤ n then IK.strong else IK.emphasis) = (if n = 2 then IK.strong else IK.emphasis) := by
      rcases hn with rfl | rfl <;> rfl
    rw [hw, hk]
    simp only [modifyNode, StateT.run_modify, pure_bind]
    change (StateT.run (wrap (if n = 2 then IK.strong else IK.emphasis) o (some c)) S2 >>= _) = _
    rw [hwrap, pure_bind]
    have hS2sz : S2.nodes.size = s.nodes.size := by simp [S2, shrinkP]
    have hS3stack : S3.stack = #[eo, ec] := by
      simp only [S3, wrapP, foldl_setPar_stack]; exact hst
    have hS3nodes : ∀ j, j ≠ 0 → j < s.nodes.size → S3.nodes[j]! = S2.nodes[j]! := by
      intro j hj0 hjsz
      simp only [S3, wrapP, foldl_setPar_nodes]
      rw [get!_modify_ne _ _ _ _ (Ne.symm hj0), get!_modify_ne _ _ _ _ (by rw [hS2sz]; omega),
        CM.Proofs.InlH.getElem!_push_lt (by rw [hS2sz]; exact hjsz)]
    have hS3o : S3.nodes[o]! = { s.nodes[o]! with stop := (s.nodes[o]!).stop - (n : Int) } := by
      rw [hS3nodes o ho0 hosz]
      simp only [S2, shrinkP]
      rw [get!_modify_ne _ _ _ _ (Ne.symm hoc), get!_modify_eq _ _ _ hosz]
    have hS3c : S3.nodes[c]! = { s.nodes[c]! with start := (s.nodes[c]!).start + (n : Int) } := by
      rw [hS3nodes c hc0 hcsz]
      simp only [S2, shrinkP]
      rw [get!_modify_eq _ _ _ (by simpa using hcsz), get!_modify_ne _ _ _ _ hoc]
    have hS3pm : ∀ j, j ∉ mid → j < s.nodes.size → S3.parentMap[j]? = s.parentMap[j]? := by
      intro j hjm hjsz
      simp only [S3, wrapP]
      rw [foldl_setPar_pm _ _ _ _ hjm]
      simp only [Array.set!_eq_setIfInBounds, Array.getElem?_setIfInBounds]
      rw [if_neg (by rw [hS2sz]; omega)]
      show (s.parentMap.push none)[j]? = _
      rw [Array.getElem?_push_lt (by omega)]
      exact (Array.getElem?_eq_getElem (by omega)).symm
    rw [delStack_run 1 1 S3 (Nat.le_refl _) (by rw [hS3stack]; simp), pure_bind]
    have hK1 : S3.stack.extract 0 1 ++ S3.stack.extract 1 S3.stack.size = #[eo, ec] := by rw [hS3stack]; simp
    rw [hK1]
    have hcond : spanLenI ((setStkP #[eo, ec] S3).nodes[o]!).start ((setStkP #[eo, ec] S3).nodes[o]!).stop = 0 := by
      show spanLenI (S3.nodes[o]!).start (S3.nodes[o]!).stop = 0
      rw [hS3o]; exact hzo
    simp only [hcond, if_true, StateT.run_bind]
    have hp1 : ((setStkP #[eo, ec] S3).parentMap[o]?).join = some 0 := by
      show (S3.parentMap[o]?).join = some 0
      rw [hS3pm o homid hosz]; exact hpo
    rw [removeNode_run o _ hp1, pure_bind, delStack_run 0 1 _ (by omega) (by show 1 ≤ (#[eo, ec] : Array DelimE).size; simp), pure_bind,
      nodeLen_run, pure_bind]
    have hcond2 : spanLenI ((setStkP ((rmP o (setStkP #[eo, ec] S3)).stack.extract 0 0 ++
        (rmP o (setStkP #[eo, ec] S3)).stack.extract 1 (rmP o (setStkP #[eo, ec] S3)).stack.size) (rmP o (setStkP #[eo, ec] S3))).nodes[c]!).start
        ((setStkP ((rmP o (setStkP #[eo, ec] S3)).stack.extract 0 0 ++
        (rmP o (setStkP #[eo, ec] S3)).stack.extract 1 (rmP o (setStkP #[eo, ec] S3)).stack.size) (rmP o (setStkP #[eo, ec] S3))).nodes[c]!).stop = 0 := by
      show spanLenI ((S3.nodes.modify 0 _)[c]!).start ((S3.nodes.modify 0 _)[c]!).stop = 0
      rw [get!_modify_ne _ _ _ _ (Ne.symm hc0), hS3c]; exact hzc
    simp only [hcond2, if_true, StateT.run_bind]
    have hp2 : ((setStkP ((rmP o (setStkP #[eo, ec] S3)).stack.extract 0 0 ++
        (rmP o (setStkP #[eo, ec] S3)).stack.extract 1 (rmP o (setStkP #[eo, ec] S3)).stack.size)
        (rmP o (setStkP #[eo, ec] S3))).parentMap[c]?).join = some 0 := by
      show ((S3.parentMap.set! o none)[c]?).join = some 0
      rw [Array.set!_eq_setIfInBounds, Array.getElem?_setIfInBounds, if_neg hoc, hS3pm c hcmid hcsz]; exact hpc
    rw [removeNode_run c _ hp2, pure_bind]
    simp only [StateT.run_map]
    rw [delStack_run 0 1 _ (by omega) (by show 1 ≤ ((#[eo, ec] : Array DelimE).extract 0 0 ++ (#[eo, ec] : Array DelimE).extract 1 2).size; simp)]
    simp only [map_pure]
    congr 2
  have hstep2 : ∀ x (F : IState), F.stack = #[] →
      (g x (0, Array.replicate openersBottomCount 0, false)).run F =
        pure (ForInStep.done (0, Array.replicate openersBottomCount 0, true), F) := by
    intro x F hF
    rw [← hg]
    simp only [StateT.run_bind, StateT.run_get, pure_bind, hF, Std.Legacy.Range.forIn_eq_forIn_range', Std.Legacy.Range.size,
      List.size_toArray, List.length_nil]
    simp [List.range']
  rw [show fuel + 2 = (fuel + 1) + 1 from rfl, List.range'_succ, List.forIn_cons, StateT.run_bind, hstep1, pure_bind]
  simp only []
  rw [List.range'_succ, List.forIn_cons, StateT.run_bind, hstep2 _ _ rfl, pure_bind]
  simp only [StateT.run_pure, pure_bind, Bool.not_true, Bool.false_eq_true, if_false, StateT.run_bind, StateT.run_get]
  rw [delStack_run 0 _ _ (Nat.zero_le _) (Nat.le_refl _)]
  simp [emFinal, setStkP]

end CM.Proofs.InlSer
