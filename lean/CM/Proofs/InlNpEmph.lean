import CM.Proofs.InlNpWrap
/-
C04, inline half — `processEmphasis` does not panic under the span invariant.
-/
namespace CM.Proofs.InlH
open CM CM.Model CM.Model.Inl CM.Gen
open Std.Do

set_option mvcgen.warning false

/-- after a match, the two delimiter nodes still have their parent (so `removeNode` finds it) -/
theorem emph_parents {lo hi : Int} {x : Option Nat} {b p : Nat} {F : Int} {s : IState} (hsp : SP lo hi x b p F s)
    (oi cur : Nat) (hb : b ≤ oi) (hoc : oi < cur) (hcur : cur < s.stack.size) (kind : Nat) (s3 : IState)
    (h3 : WrapPostS (shrinkSt s (s.stack[oi]!).node (s.stack[cur]!).node
      (emphW s (s.stack[oi]!).node (s.stack[cur]!).node)) s3 kind (s.stack[oi]!).node (s.stack[cur]!).node)
    (h3st : s3.stack = s.stack) :
    ((delSt s3 (oi + 1) cur).parentMap[(s.stack[oi]!).node]?).join = some p ∧
    ((delSt s3 (oi + 1) cur).parentMap[(s.stack[cur]!).node]?).join = some p ∧
    ∀ par, ((delSt s3 (oi + 1) cur).parentMap[(s.stack[oi]!).node]?).join = some par →
      ((delSt (rmSt (delSt s3 (oi + 1) cur) par (s.stack[oi]!).node) oi (oi + 1)).parentMap[
        (s.stack[cur]!).node]?).join = some p := by
  obtain ⟨T, l1, l3, hT, hl1, hstk, inv, hsz⟩ := emph_glue' hsp oi cur hb hoc hcur kind s3 h3 h3st
  have hd : (stkOf (delSt s3 (oi + 1) cur)).drop b = l1 ++ (s.stack[oi]!).node :: (s.stack[cur]!).node :: l3 := by
    rw [hstk, ← hT]; exact List.drop_left' rfl
  have ho : pmOf (delSt s3 (oi + 1) cur) (s.stack[oi]!).node = some p :=
    inv.high.2 _ (by rw [hd]; exact List.mem_append_right _ (List.mem_cons_self ..))
  have hc : pmOf (delSt s3 (oi + 1) cur) (s.stack[cur]!).node = some p :=
    inv.high.2 _ (by rw [hd]; exact List.mem_append_right _ (List.mem_cons_of_mem _ (List.mem_cons_self ..)))
  refine ⟨ho, hc, fun par hpar => ?_⟩
  obtain ⟨inv5, hstk5, hsz5, -⟩ := remove_step inv hsz T l1 _ _ hstk hT oi (by omega) par hpar
  have hd5 : (stkOf (delSt (rmSt (delSt s3 (oi + 1) cur) par (s.stack[oi]!).node) oi (oi + 1))).drop b =
      l1 ++ (s.stack[cur]!).node :: l3 := by
    rw [hstk5, ← hT]; exact List.drop_left' rfl
  exact inv5.high.2 _ (by rw [hd5]; exact List.mem_append_right _ (List.mem_cons_self ..))

theorem isEmph_obi (e : DelimElem) (h : (e.typ == 1 || e.typ == 2) = true) : openersBottomIndex e ≠ none := by
  unfold openersBottomIndex
  simp only [Bool.or_eq_true, beq_iff_eq] at h
  rcases h with h | h
  · rw [if_pos (by simpa using h)]; split <;> simp
  · split
    · split <;> simp
    · rw [if_pos (by simpa using h)]; split <;> simp

set_option hygiene false in
/-- the facts about the loop variables of one iteration of `processEmphasis` -/
macro "emph_setup'" : tactic =>
  `(tactic| (
    obtain ⟨hsp, hbc, hob, hobsz, hpre, hbsz⟩ := ‹SP _ _ _ _ _ _ _ ∧ _ ∧ _ ∧ _ ∧ _ ∧ _›
    have hlt14 := openersBottomIndex_lt _ _ ‹openersBottomIndex _ = some _›
    obtain ⟨hs1, hcur0, hfound, -⟩ := ‹_ = _ ∧ _ ≤ _ ∧ (_ = true → _) ∧ _›
    obtain ⟨hs2, hoi⟩ := ‹_ = _ ∧ (_ : Int) ≤ _›
    subst hs2
    subst hs1
    have hge := ‹(_ : Int) ≥ _›
    have hnf := ‹¬(!_) = true›
    simp -failIfUnchanged +zetaDelta only [] at *
    have hcur := (hfound (by simpa using hnf)).1
    have hobp := hob _ (by rw [hobsz]; exact hlt14)))

theorem size_del (st : Array DelimE) (i j : Nat) (hi : i ≤ j) (hj : j ≤ st.size) :
    (st.extract 0 i ++ st.extract j).size = i + (st.size - j) := by
  simp only [Array.size_append, Array.size_extract]
  omega

set_option maxHeartbeats 400000 in
theorem processEmphasis_np (lo hi : Int) (x : Option Nat) (b p : Nat) (F : Int) (s0 : IState) :
    ⦃fun s => ⌜s = s0 ∧ SP lo hi x b p F s ∧ b ≤ s0.stack.size⌝⦄ Inl.processEmphasis b
    ⦃⇓! _ s => ⌜SP lo hi x b p F s ∧ s.stack = s0.stack.extract 0 b⌝⦄ := by
  mvcgen [Inl.processEmphasis, nodeLen, getNode, modifyNode, delStack, removeNode, setParent,
    -processEmphasis_spec, -processEmphasis_specS, -delStack_spec, -delStack_specS, -removeNode_spec, -removeNode_specS]
  case inv1 =>
    exact PostCond.np (fun (q : _ × (Nat × Array Nat × Bool)) s =>
      ⌜SP lo hi x b p F s ∧ b ≤ q.2.1 ∧ (∀ i, i < q.2.2.1.size → b ≤ q.2.2.1[i]!) ∧ q.2.2.1.size = 14 ∧
        s.stack.extract 0 b = s0.stack.extract 0 b ∧ b ≤ s.stack.size⌝)
  case inv2 =>
    have s' : IState := ‹IState›
    exact PostCond.np (fun (q : _ × (Nat × Bool)) s =>
      ⌜s = s' ∧ (‹Nat × Array Nat × Bool›).1 ≤ q.2.1 ∧
        (q.2.2 = true → q.2.1 < (‹Array DelimE›).size ∧ isEmphElem ((‹Array DelimE›)[q.2.1]!) = true) ∧
        (q.1.suffix ≠ [] → q.2.2 = false)⌝)
  case inv3 =>
    have s' : IState := ‹IState›
    exact PostCond.np (fun (q : _ × Int) s =>
      ⌜s = s' ∧ q.2 ≤ ((‹Nat × Bool›).1 : Int) - 1⌝)
  np_norm
  all_goals (try (simp -failIfUnchanged +zetaDelta only [] at *
                  first
                   | omega
                   | (refine ⟨And.left ‹_ = _ ∧ _›, ?_, ?_, ?_⟩ <;> (try intro _) <;> (try simp_all) <;> omega)
                   | (refine ⟨And.left ‹_ = _ ∧ _›, ?_⟩; omega)
                   | (refine ⟨trivial, ?_, ?_, ?_⟩ <;> (try intro _) <;> (try simp_all) <;> omega)
                   | (refine ⟨trivial, ?_⟩; omega)))
  all_goals (try (exact fun h => h))
  all_goals (try (exact ExceptConds.entails.refl _))
  -- not found: finished
  case vc5 =>
    obtain ⟨h1, h2, h3, h4, h5, h6⟩ := ‹SP _ _ _ _ _ _ _ ∧ _ ∧ _ ∧ _ ∧ _ ∧ _›
    obtain ⟨rfl, hc, -⟩ := ‹_ = _ ∧ _ ≤ _ ∧ _›
    simp -failIfUnchanged +zetaDelta only [] at *
    exact ⟨h1, by omega, h3, h4, h5, h6⟩
  -- the preconditions of `wrap`
  case vc10 =>
    emph_setup'
    refine And.left (emph_wrap_pre' hsp _ _ ?_ ?_ hcur _ _)
    all_goals (try (first | omega | rfl))
  case vc11 =>
    emph_setup'
    refine And.left (And.right (emph_wrap_pre' hsp _ _ ?_ ?_ hcur _ _))
    all_goals (try (first | omega | rfl))
  case vc12 =>
    emph_setup'
    simpa using hsp.2
  case vc13 =>
    emph_setup'
    refine And.right (And.right (And.right (emph_wrap_pre' hsp _ _ ?_ ?_ hcur _ _)))
    all_goals (try (first | omega | rfl))
  -- the panic sites after a match: the bounds of `delStack`, the parents for `removeNode`
  case vc14 | vc15 | vc16 | vc21 =>
    emph_setup'
    obtain ⟨-, h3n, h3st, -, -, h3s, h3p⟩ := ‹_ = _ ∧ _ = wrapNodes _ _ _ _ _ _ _ _ ∧ _›
    have hsz3 := congrArg Array.size h3st
    simp only [Bool.or_eq_true, decide_eq_true_eq, not_or, Nat.not_lt, Array.size_append, Array.size_extract] at *
    omega
  case vc20 =>
    emph_setup'
    obtain ⟨-, h3n, h3st, -, -, h3s, h3p⟩ := ‹_ = _ ∧ _ = wrapNodes _ _ _ _ _ _ _ _ ∧ _›
    have hno := ‹∀ (parent : Nat), (_ : Option Nat) = some parent → False›
    have hx := ‹(Option.join _ : Option Nat) = _›
    obtain ⟨p1, -, -⟩ := emph_parents hsp _ _ (show b ≤ Int.toNat _ by omega) (by omega) hcur _ _ ⟨h3n, h3s, h3p⟩ h3st
    exact hno _ (hx.symm.trans p1)
  case vc23 =>
    emph_setup'
    obtain ⟨-, h3n, h3st, -, -, h3s, h3p⟩ := ‹_ = _ ∧ _ = wrapNodes _ _ _ _ _ _ _ _ ∧ _›
    have hno := ‹∀ (parent : Nat), (_ : Option Nat) = some parent → False›
    have hx := ‹(Option.join _ : Option Nat) = _›
    obtain ⟨-, p2, -⟩ := emph_parents hsp _ _ (show b ≤ Int.toNat _ by omega) (by omega) hcur _ _ ⟨h3n, h3s, h3p⟩ h3st
    exact hno _ (hx.symm.trans p2)
  case vc18 =>
    emph_setup'
    obtain ⟨-, h3n, h3st, -, -, h3s, h3p⟩ := ‹_ = _ ∧ _ = wrapNodes _ _ _ _ _ _ _ _ ∧ _›
    obtain ⟨-, -, p3⟩ := emph_parents hsp _ _ (show b ≤ Int.toNat _ by omega) (by omega) hcur _ _ ⟨h3n, h3s, h3p⟩ h3st
    have hno := ‹∀ (parent : Nat), (_ : Option Nat) = some parent → False›
    have hx := ‹(Option.join _ : Option Nat) = _›
    have hpo := ‹(Option.join _ : Option Nat) = some _›
    exact hno _ (hx.symm.trans (p3 _ hpo))
  -- entry
  case vc32 =>
    obtain ⟨rfl, hsp, hb0⟩ := ‹_ = s0 ∧ _›
    simp -failIfUnchanged +zetaDelta only [] at *
    refine ⟨hsp, Nat.le_refl _, fun i hi => ?_, by simp [openersBottomCount], trivial, hb0⟩
    rw [getElem!_pos _ i hi]; simp
  -- the end: `delStack b size`
  case vc35 =>
    obtain ⟨hsp, -, -, -, hpre, hbsz⟩ := ‹SP _ _ _ _ _ _ _ ∧ _ ∧ _ ∧ _ ∧ _ ∧ _›
    have hbs := ‹(_ || _ || _) = true›
    simp only [Bool.or_eq_true, decide_eq_true_eq] at hbs
    omega
  case vc36 =>
    obtain ⟨hsp, -, -, -, hpre, hbsz⟩ := ‹SP _ _ _ _ _ _ _ ∧ _ ∧ _ ∧ _ ∧ _ ∧ _›
    refine ⟨hsp.delStack b _ (Nat.le_refl _) hbsz, ?_⟩
    rw [← hpre]
    simp
  -- the closer is not an emphasis delimiter: unreachable
  case vc30 =>
    obtain ⟨-, -, hfound, -⟩ := ‹_ = _ ∧ _ ≤ _ ∧ (_ = true → _) ∧ _›
    have hnf := ‹¬(!_) = true›
    have he := (hfound (by simpa using hnf)).2
    have hno := ‹∀ (parent : Nat), (_ : Option Nat) = some parent → False›
    have hx := ‹openersBottomIndex _ = _›
    cases hv : openersBottomIndex (‹Array DelimE›[(‹Nat × Bool›).1]!).elem with
    | none => exact isEmph_obi _ he hv
    | some q => exact hno q (hx.symm.trans hv)
  -- no match
  case vc28 =>
    obtain ⟨hsp, hbc, hob, hobsz, hpre, hbsz⟩ := ‹SP _ _ _ _ _ _ _ ∧ _ ∧ _ ∧ _ ∧ _ ∧ _›
    obtain ⟨hs1, hcur0, hfound, -⟩ := ‹_ = _ ∧ _ ≤ _ ∧ (_ = true → _) ∧ _›
    obtain ⟨hs2, hoi⟩ := ‹_ = _ ∧ (_ : Int) ≤ _›
    subst hs2
    subst hs1
    simp -failIfUnchanged +zetaDelta only [] at *
    exact ⟨hsp, by omega, ob_set _ _ _ _ hob (by omega), by simpa using hobsz, hpre, hbsz⟩
  case vc26 | vc27 =>
    obtain ⟨hsp, hbc, hob, hobsz, hpre, hbsz⟩ := ‹SP _ _ _ _ _ _ _ ∧ _ ∧ _ ∧ _ ∧ _ ∧ _›
    obtain ⟨hs1, hcur0, hfound, -⟩ := ‹_ = _ ∧ _ ≤ _ ∧ (_ = true → _) ∧ _›
    obtain ⟨hs2, hoi⟩ := ‹_ = _ ∧ (_ : Int) ≤ _›
    subst hs2
    subst hs1
    have hnf := ‹¬(!_) = true›
    have hcur := (hfound (by simpa using hnf)).1
    simp -failIfUnchanged +zetaDelta only [] at *
    first
    | (have hbs := ‹(_ || _ || _) = true›
       simp only [Bool.or_eq_true, decide_eq_true_eq] at hbs
       omega)
    | (refine ⟨hsp.delStack _ _ (by omega) (by omega), by omega, ob_set _ _ _ _ hob (by omega), by simpa using hobsz,
         ?_, ?_⟩
       · rw [extract_prefix _ _ _ _ (by omega) (by omega)]; exact hpre
       · rw [size_del _ _ _ (Nat.le_succ _) hcur]; omega)
  case vc24 =>
    emph_setup'
    obtain ⟨-, h3n, h3st, -, -, h3s, h3p⟩ := ‹_ = _ ∧ _ = wrapNodes _ _ _ _ _ _ _ _ ∧ _›
    have hsz3 := congrArg Array.size h3st
    have hbs := ‹¬(_ || _ || _) = true›
    simp only [Bool.or_eq_true, decide_eq_true_eq, not_or, Nat.not_lt] at hbs
    refine ⟨emph_fin_nn hsp _ _ ?_ ?_ hcur _ _ ⟨h3n, h3s, h3p⟩ h3st ‹_› ‹_›, by omega,
      ob_map _ _ _ hob (by omega), by simpa using hobsz, ?_, ?_⟩
    · omega
    · omega
    · rw [extract_prefix _ _ _ _ (by omega) (by omega), h3st]; exact hpre
    · simp only [Array.size_append, Array.size_extract]; omega
  case vc19 =>
    emph_setup'
    obtain ⟨-, h3n, h3st, -, -, h3s, h3p⟩ := ‹_ = _ ∧ _ = wrapNodes _ _ _ _ _ _ _ _ ∧ _›
    have hsz3 := congrArg Array.size h3st
    simp only [Bool.or_eq_true, decide_eq_true_eq, not_or, Nat.not_lt] at *
    refine ⟨emph_fin_on hsp _ _ ?_ ?_ hcur _ _ ⟨h3n, h3s, h3p⟩ h3st _ ‹_› ‹_›, by omega,
      ob_map _ _ _ hob (by omega), by simpa using hobsz, ?_, ?_⟩
    · omega
    · omega
    · rw [extract_prefix _ _ _ _ (by omega) (by omega), extract_prefix _ _ _ _ (by omega) (by omega), h3st]; exact hpre
    · simp only [Array.size_append, Array.size_extract] at *; omega
  case vc22 =>
    emph_setup'
    obtain ⟨-, h3n, h3st, -, -, h3s, h3p⟩ := ‹_ = _ ∧ _ = wrapNodes _ _ _ _ _ _ _ _ ∧ _›
    have hsz3 := congrArg Array.size h3st
    simp only [Bool.or_eq_true, decide_eq_true_eq, not_or, Nat.not_lt] at *
    refine ⟨emph_fin_nc hsp _ _ ?_ ?_ hcur _ _ ⟨h3n, h3s, h3p⟩ h3st _ ‹_› ‹_›, by omega,
      ob_map _ _ _ hob (by omega), by simpa using hobsz, ?_, ?_⟩
    · omega
    · omega
    · rw [extract_prefix _ _ _ _ (by omega) (by omega), extract_prefix _ _ _ _ (by omega) (by omega), h3st]; exact hpre
    · simp only [Array.size_append, Array.size_extract] at *; omega
  case vc17 =>
    emph_setup'
    obtain ⟨-, h3n, h3st, -, -, h3s, h3p⟩ := ‹_ = _ ∧ _ = wrapNodes _ _ _ _ _ _ _ _ ∧ _›
    have hsz3 := congrArg Array.size h3st
    simp only [Bool.or_eq_true, decide_eq_true_eq, not_or, Nat.not_lt] at *
    refine ⟨emph_fin_oc hsp _ _ ?_ ?_ hcur _ _ ⟨h3n, h3s, h3p⟩ h3st _ ‹_› _ ?_ _ ‹_›, by omega,
      ob_map _ _ _ hob (by omega), by simpa using hobsz, ?_, ?_⟩
    · omega
    · omega
    · omega
    · rw [extract_prefix _ _ _ _ (by omega) (by omega), extract_prefix _ _ _ _ (by omega) (by omega),
        extract_prefix _ _ _ _ (by omega) (by omega), h3st]
      exact hpre
    · simp only [Array.size_append, Array.size_extract] at *; omega

end CM.Proofs.InlH
