import CM.Proofs.StreamReadline
/-
`makeRoot`, `skipBlank`, `parseLines` and `NextBlock` preserve the simulation relation: they only look at
`buf[:i]`, `i`, and call the line parser on identical arguments.
-/
namespace CM.Proofs
open CM CM.Model CM.Gen

theorem Sim.take_eq {fin : RErr} {ps pm : BP} (hs : Sim fin ps pm) : pm.buf.take pm.i = ps.buf.take ps.i := by
  rw [hs.buf, hs.i, List.take_append_of_le_length hs.ile]

theorem Sim.mile {fin : RErr} {ps pm : BP} (hs : Sim fin ps pm) : pm.i ≤ pm.buf.length := by
  rw [hs.buf, hs.i, List.length_append]; have := hs.ile; omega

/-- Dropping the consumed line (`p.buf = p.buf[p.i:]; p.i = 0`) with any new offset / line number. -/
theorem Sim.advance {fin : RErr} {ps pm : BP} (hs : Sim fin ps pm) (o l : Nat) :
    Sim fin { ps with offset := o, lineno := l, buf := ps.buf.drop ps.i, i := 0 }
            { pm with offset := o, lineno := l, buf := pm.buf.drop pm.i, i := 0 } := by
  refine ⟨?_, rfl, rfl, rfl, hs.blocks, hs.panic, hs.merr, hs.rfin, hs.serr, Nat.zero_le _, ?_⟩
  · show pm.buf.drop pm.i = ps.buf.drop ps.i ++ _
    rw [hs.buf, hs.i, List.drop_append_of_le_length hs.ile]
  · show (pm.buf.drop pm.i).length + 3 ≤ _
    have := hs.small
    simp only [List.length_drop]; omega

/-- Outcomes of `NextBlock` on the streaming / in-memory parser correspond. -/
inductive ORel (fin : RErr) : NBOut → NBOut → Prop
  | block (r : Root) : ORel fin (.block r) (.block r)
  | err : ORel fin (.err (PErr.ofR fin)) (.err .eof)
  | panic (m : String) : ORel fin (.panic m) (.panic m)

theorem makeRoot_nil (p : BP) : makeRoot p [] = none := rfl

theorem makeRoot_open (p : BP) (k : PB) (rest : List PB) (h : k.isOpen = true) : makeRoot p (k :: rest) = none := by
  simp [makeRoot, h]

/-- The root `makeRoot` cuts off when the first child `k` is closed. -/
def rootOf (p : BP) (k : PB) : Root :=
  { source := fillNulls (p.buf.take k.label.stop.toNat), startLine := p.lineno, startOffset := p.offset,
    endOffset := p.offset + unpaddedNullLength (p.buf.take k.label.stop.toNat), block := k }

/-- The parser state after `makeRoot` cut off `k`. -/
def afterRoot (p : BP) (k : PB) (rest : List PB) : BP :=
  { p with
    blocks := offsetPBs (-(k.label.stop.toNat : Int)) rest
    offset := p.offset + unpaddedNullLength (p.buf.take k.label.stop.toNat)
    lineno := p.lineno + lineCount (p.buf.take k.label.stop.toNat)
    buf := p.buf.drop k.label.stop.toNat
    i := p.i - k.label.stop.toNat
    panic := if k.label.stop.toNat > p.i || k.label.stop.toNat > p.buf.length
             then p.panic <|> some "makeRoot: block ends beyond the parse position" else p.panic }

theorem makeRoot_closed (p : BP) (k : PB) (rest : List PB) (h : k.isOpen = false) :
    makeRoot p (k :: rest) = some (rootOf p k, afterRoot p k rest) := by
  simp [makeRoot, h, rootOf, afterRoot]

theorem makeRoot_sim {fin : RErr} {ps pm : BP} (hs : Sim fin ps pm) (kids : List PB) :
    (makeRoot ps kids = none ∧ makeRoot pm kids = none) ∨
    ∃ k rest rs ps' rm pm', kids = k :: rest ∧ k.isOpen = false ∧
      makeRoot ps kids = some (rs, ps') ∧ makeRoot pm kids = some (rm, pm') ∧
      (k.label.stop.toNat ≤ ps.i → rs = rm ∧ Sim fin ps' pm') ∧
      (pm.panic = none → pm'.panic = none → k.label.stop.toNat ≤ ps.i) := by
  cases kids with
  | nil => left; exact ⟨rfl, rfl⟩
  | cons k rest =>
    cases ho : k.isOpen with
    | true => left; exact ⟨makeRoot_open _ _ _ ho, makeRoot_open _ _ _ ho⟩
    | false =>
      right
      refine ⟨k, rest, _, _, _, _, rfl, ho, makeRoot_closed _ _ _ ho, makeRoot_closed _ _ _ ho, ?_, ?_⟩
      · intro hn
        have hn' : k.label.stop.toNat ≤ ps.buf.length := Nat.le_trans hn hs.ile
        have htake : pm.buf.take k.label.stop.toNat = ps.buf.take k.label.stop.toNat := by
          rw [hs.buf, List.take_append_of_le_length hn']
        have hmi := hs.mile
        constructor
        · simp only [rootOf, htake, hs.lineno, hs.offset]
        · refine ⟨?_, ?_, ?_, ?_, ?_, ?_, hs.merr, hs.rfin, hs.serr, ?_, ?_⟩
          · show pm.buf.drop _ = ps.buf.drop _ ++ _
            rw [hs.buf, List.drop_append_of_le_length hn']; rfl
          · show pm.i - _ = ps.i - _
            rw [hs.i]
          · show pm.offset + _ = ps.offset + _
            rw [htake, hs.offset]
          · show pm.lineno + _ = ps.lineno + _
            rw [htake, hs.lineno]
          · show offsetPBs _ rest = offsetPBs _ rest
            rfl
          · show (if _ then _ else _) = (if _ then _ else _)
            rw [hs.i] at hmi
            have c1 : ¬ (decide (k.label.stop.toNat > pm.i) || decide (k.label.stop.toNat > pm.buf.length)) = true := by
              simp; rw [hs.i]; omega
            have c2 : ¬ (decide (k.label.stop.toNat > ps.i) || decide (k.label.stop.toNat > ps.buf.length)) = true := by
              simp; omega
            rw [if_neg c1, if_neg c2, hs.panic]
          · show ps.i - _ ≤ (ps.buf.drop _).length
            have := hs.ile
            simp only [List.length_drop]; omega
          · show (pm.buf.drop _).length + 3 ≤ _
            have := hs.small
            simp only [List.length_drop]; omega
      · intro h0 h1
        have h1' : (if (decide (k.label.stop.toNat > pm.i) || decide (k.label.stop.toNat > pm.buf.length)) = true
            then pm.panic <|> some "makeRoot: block ends beyond the parse position" else pm.panic) = none := h1
        by_cases c : (decide (k.label.stop.toNat > pm.i) || decide (k.label.stop.toNat > pm.buf.length)) = true
        · rw [if_pos c, h0] at h1'; simp at h1'
        · simp at c; rw [← hs.i]; omega

theorem Sim.setPanic {fin : RErr} {ps pm : BP} (hs : Sim fin ps pm) (m : String) :
    Sim fin { ps with panic := ps.panic <|> some m } { pm with panic := pm.panic <|> some m } := by
  refine ⟨hs.buf, hs.i, hs.offset, hs.lineno, hs.blocks, ?_, hs.merr, hs.rfin, hs.serr, hs.ile, hs.small⟩
  show (pm.panic <|> some m) = (ps.panic <|> some m)
  rw [hs.panic]

/-- `readline` at a call site of the model (fuel `data.length + sched.length + 2`), both machines. -/
theorem readline_site {fin : RErr} {ps pm : BP} (hs : Sim fin ps pm) :
    ∃ e ps', eolEndB pm.buf pm.i true = some e ∧
      readline (ps.rd.data.length + ps.rd.sched.length + 2) ps = (decide (pm.i < e), ps') ∧
      readline (pm.rd.data.length + pm.rd.sched.length + 2) pm = (decide (pm.i < e), { pm with i := e }) ∧
      Sim fin ps' { pm with i := e } ∧ (¬ pm.i < e → ps'.err = some (PErr.ofR fin)) := by
  have hm : pm.err.isSome = true := by rw [hs.merr]; rfl
  obtain ⟨e, he, hr⟩ := readline_mem hm (pm.rd.data.length + pm.rd.sched.length + 1)
  obtain ⟨ps', h1, h2, h3⟩ := readline_sim fin _ ps pm hs (rlMeasure_le ps) e he
  exact ⟨e, ps', he, h1, hr, h2, h3⟩

theorem skipBlank_sim (fin : RErr) : ∀ (f : Nat) (ps pm : BP), Sim fin ps pm →
    (∃ ps' pm', skipBlank f ps = (none, ps') ∧ skipBlank f pm = (none, pm') ∧ Sim fin ps' pm' ∧
        (pm'.panic = none → ps'.err = some (PErr.ofR fin))) ∨
    (∃ ps' pm', skipBlank f ps = (some ps', ps') ∧ skipBlank f pm = (some pm', pm') ∧ Sim fin ps' pm' ∧
        pm'.panic = pm.panic) := by
  intro f
  induction f with
  | zero =>
    intro ps pm hs
    left
    refine ⟨_, _, rfl, rfl, hs.setPanic _, ?_⟩
    intro h
    have h' : (pm.panic <|> some "skipBlank: fuel") = none := h
    cases hp : pm.panic <;> simp [hp] at h'
  | succ f ih =>
    intro ps pm hs
    obtain ⟨e, ps1, he, h1, h2, hs1, herr⟩ := readline_site hs
    simp only [skipBlank, h1, h2]
    by_cases hlt : pm.i < e
    · simp only [hlt, decide_true, Bool.not_true, Bool.false_eq_true, if_false]
      have ht := hs1.take_eq
      simp only at ht
      rw [ht]
      by_cases hb : isBlankLine (ps1.buf.take ps1.i) = true
      · simp only [hb, Bool.not_true, Bool.false_eq_true, if_false]
        have := ih _ _ (hs1.advance (ps1.offset + unpaddedNullLength (ps1.buf.take ps1.i)) (ps1.lineno + 1))
        have ho : pm.offset = ps1.offset := hs1.offset
        have hl : pm.lineno = ps1.lineno := hs1.lineno
        rw [ho, hl]
        exact this
      · simp only [hb]
        right
        exact ⟨_, _, rfl, rfl, hs1, rfl⟩
    · simp only [hlt, decide_false, Bool.not_false, if_true]
      left
      exact ⟨_, _, rfl, rfl, hs1, fun _ => herr hlt⟩

section
variable (L : LineParserI)

theorem parseLines_panicked {f : Nat} {lp : L.σ} {ls : Nat} {p : BP} {m : String}
    (h : L.panicked (L.line lp (p.buf.take p.i) ls) = some m) :
    parseLines L (f + 1) lp ls p = (.panic m, p) := by
  simp [parseLines, h]

theorem parseLines_root {f : Nat} {lp : L.σ} {ls : Nat} {p : BP} {r : Root} {p' : BP}
    (h : L.panicked (L.line lp (p.buf.take p.i) ls) = none)
    (h2 : makeRoot p (L.kids (L.line lp (p.buf.take p.i) ls)) = some (r, p')) :
    parseLines L (f + 1) lp ls p = (.block r, p') := by
  simp [parseLines, h, h2]

theorem parseLines_next {f : Nat} {lp : L.σ} {ls : Nat} {p : BP}
    (h : L.panicked (L.line lp (p.buf.take p.i) ls) = none)
    (h2 : makeRoot p (L.kids (L.line lp (p.buf.take p.i) ls)) = none) :
    parseLines L (f + 1) lp ls p =
      parseLines L f (L.line lp (p.buf.take p.i) ls) p.i (readline (p.rd.data.length + p.rd.sched.length + 2) p).2 := by
  simp [parseLines, h, h2]

theorem parseLines_sim (fin : RErr) : ∀ (f : Nat) (lp : L.σ) (ls : Nat) (ps pm : BP), Sim fin ps pm →
    pm.panic = none →
    ∃ os ps' om pm', parseLines L f lp ls ps = (os, ps') ∧ parseLines L f lp ls pm = (om, pm') ∧
      (pm'.panic = none → ORel fin os om ∧ Sim fin ps' pm') := by
  intro f
  induction f with
  | zero =>
    intro lp ls ps pm hs _
    exact ⟨_, _, _, _, rfl, rfl, fun _ => ⟨ORel.panic _, hs⟩⟩
  | succ f ih =>
    intro lp ls ps pm hs hp
    have ht := hs.take_eq
    cases hpan : L.panicked (L.line lp (ps.buf.take ps.i) ls) with
    | some m =>
      have hpan' := hpan
      rw [← ht] at hpan'
      exact ⟨_, _, _, _, parseLines_panicked L hpan, parseLines_panicked L hpan', fun _ => ⟨ORel.panic _, hs⟩⟩
    | none =>
      have hpan' := hpan
      rw [← ht] at hpan'
      rcases makeRoot_sim hs (L.kids (L.line lp (ps.buf.take ps.i) ls)) with ⟨hn1, hn2⟩ | ⟨k, rest, rs, ps', rm, pm', _, _, hr1, hr2, hgood, hflag⟩
      · have hn2' := hn2
        rw [← ht] at hn2'
        rw [parseLines_next L hpan hn1, parseLines_next L hpan' hn2']
        obtain ⟨e, ps1, he, h1, h2, hs1, _⟩ := readline_site hs
        rw [h1, h2, ht, hs.i]
        exact ih _ _ _ _ hs1 hp
      · have hr2' := hr2
        rw [← ht] at hr2'
        refine ⟨_, _, _, _, parseLines_root L hpan hr1, parseLines_root L hpan' hr2', ?_⟩
        intro hp'
        obtain ⟨h1, h2⟩ := hgood (hflag hp hp')
        rw [h1]
        exact ⟨ORel.block _, h2⟩
end

/-- `NextBlock`'s preparation when there are no pending blocks: drop the consumed bytes. -/
def freshLine (p : BP) : BP :=
  { p with offset := p.offset + unpaddedNullLength (p.buf.take p.i), lineno := p.lineno + lineCount (p.buf.take p.i),
           buf := p.buf.drop p.i, i := 0 }

/-- What `NextBlock` does with the result of the blank-line loop. -/
def afterSkip (L : LineParserI) (fuel : Nat) : Option BP × BP → NBOut × BP
  | (none, p) => (match p.panic with
      | some m => (.panic m, p)
      | none => (.err (p.err.getD .eof), p))
  | (some p, _) => parseLines L fuel (L.new p.blocks) 0 p

/-- `nextBlock` with the fuels of its two loops as parameters (the model uses `bpFuel p` for both). -/
def nextBlockF (L : LineParserI) (fs fp : Nat) (p : BP) : NBOut × BP :=
  match makeRoot p p.blocks with
  | some (r, p') => (.block r, p')
  | none =>
    if p.blocks.length > 0 then
      parseLines L fp (L.new (readline (p.rd.data.length + p.rd.sched.length + 2) p).2.blocks) p.i
        (readline (p.rd.data.length + p.rd.sched.length + 2) p).2
    else
      afterSkip L fp (skipBlank fs (freshLine p))

theorem nextBlock_eq_F (L : LineParserI) (p : BP) : nextBlock L p = nextBlockF L (bpFuel p) (bpFuel p) p := by
  unfold nextBlock nextBlockF
  cases hm : makeRoot p p.blocks with
  | some rp => rfl
  | none =>
    simp only
    by_cases hb : p.blocks.length > 0
    · simp only [hb, if_true]
    · simp only [hb, if_false, afterSkip, freshLine]
      generalize skipBlank _ _ = r
      rcases r with ⟨_ | q, p2⟩
      · simp only; cases p2.panic <;> rfl
      · rfl


section
variable (L : LineParserI)

theorem nextBlockF_root {fs fp : Nat} {p : BP} {r : Root} {p' : BP} (h : makeRoot p p.blocks = some (r, p')) :
    nextBlockF L fs fp p = (.block r, p') := by
  simp [nextBlockF, h]

theorem nextBlockF_pending {fs fp : Nat} {p : BP} (h : makeRoot p p.blocks = none) (hb : p.blocks.length > 0) :
    nextBlockF L fs fp p =
      parseLines L fp (L.new (readline (p.rd.data.length + p.rd.sched.length + 2) p).2.blocks) p.i
        (readline (p.rd.data.length + p.rd.sched.length + 2) p).2 := by
  simp only [nextBlockF, h, hb, if_true]

theorem nextBlockF_fresh {fs fp : Nat} {p : BP} (h : makeRoot p p.blocks = none) (hb : ¬ p.blocks.length > 0) :
    nextBlockF L fs fp p = afterSkip L fp (skipBlank fs (freshLine p)) := by
  simp only [nextBlockF, h, hb, if_false]

theorem Sim.freshLine {fin : RErr} {ps pm : BP} (hs : Sim fin ps pm) : Sim fin (freshLine ps) (freshLine pm) := by
  have := hs.advance (ps.offset + unpaddedNullLength (ps.buf.take ps.i)) (ps.lineno + lineCount (ps.buf.take ps.i))
  unfold CM.Proofs.freshLine
  rw [hs.take_eq, hs.offset, hs.lineno]
  exact this

theorem nextBlockF_sim (fin : RErr) (fs fp : Nat) (ps pm : BP) (hs : Sim fin ps pm) (hp : pm.panic = none) :
    ∃ os ps' om pm', nextBlockF L fs fp ps = (os, ps') ∧ nextBlockF L fs fp pm = (om, pm') ∧
      (pm'.panic = none → ORel fin os om ∧ Sim fin ps' pm') := by
  rcases makeRoot_sim hs ps.blocks with ⟨hn1, hn2⟩ | ⟨k, rest, rs, ps', rm, pm', _, _, hr1, hr2, hgood, hflag⟩
  · rw [← hs.blocks] at hn2
    by_cases hb : ps.blocks.length > 0
    · have hb' : pm.blocks.length > 0 := by rw [hs.blocks]; exact hb
      rw [nextBlockF_pending L hn1 hb, nextBlockF_pending L hn2 hb']
      obtain ⟨e, ps1, he, h1, h2, hs1, _⟩ := readline_site hs
      rw [h1, h2, hs.i]
      have hbl : ps1.blocks = pm.blocks := hs1.blocks.symm
      simp only
      rw [hbl]
      exact parseLines_sim L fin _ _ _ _ _ hs1 hp
    · have hb' : ¬ pm.blocks.length > 0 := by rw [hs.blocks]; exact hb
      rw [nextBlockF_fresh L hn1 hb, nextBlockF_fresh L hn2 hb']
      rcases skipBlank_sim fin fs _ _ hs.freshLine with ⟨ps1, pm1, h1, h2, hs1, herr⟩ | ⟨ps1, pm1, h1, h2, hs1, hpan⟩
      · rw [h1, h2]
        simp only [afterSkip]
        rw [← hs1.panic]
        cases hpm : pm1.panic with
        | some m => exact ⟨_, _, _, _, rfl, rfl, fun _ => ⟨ORel.panic _, hs1⟩⟩
        | none =>
          refine ⟨_, _, _, _, rfl, rfl, fun _ => ⟨?_, hs1⟩⟩
          rw [herr hpm, hs1.merr]
          exact ORel.err
      · rw [h1, h2]
        simp only [afterSkip]
        rw [hs1.blocks]
        refine parseLines_sim L fin _ _ _ _ _ hs1 ?_
        rw [hpan]; exact hp
  · rw [← hs.blocks] at hr2
    refine ⟨_, _, _, _, nextBlockF_root L hr1, nextBlockF_root L hr2, ?_⟩
    intro hp'
    obtain ⟨h1, h2⟩ := hgood (hflag hp hp')
    rw [h1]
    exact ⟨ORel.block _, h2⟩
end

end CM.Proofs
