import CM.Proofs.BlocksWellClose
/-
The invariant of the children of the document block (`Kids`) and the list operations that keep it:
replacing the last child by the result of closing it, appending a new child, modifying the last child.
-/
namespace CM.Proofs
open CM CM.Model CM.Gen

/-- One child of the document. `N`: length of the source; `P`: bound of the inline children of an open paragraph. -/
structure KidOK (N P : Nat) (b : PB) : Prop where
  closed : 0 ≤ b.label.stop → b.label.stop ≤ (N : Int)
  notSetext : b.label.stop < 0 → b.label.kind ≠ BK.setextHeading
  para : b.label.stop < 0 → b.label.kind = BK.paragraph → ParaOK P b

theorem KidOK.of_closed {N P : Nat} {b : PB} (h0 : 0 ≤ b.label.stop) (h1 : b.label.stop ≤ (N : Int)) : KidOK N P b :=
  ⟨fun _ => h1, fun h => by omega, fun h => by omega⟩

theorem KidOK.mono {N P M Q : Nat} {b : PB} (h : KidOK N P b) (h1 : N ≤ M) (h2 : P ≤ Q) : KidOK M Q b :=
  ⟨fun h0 => by have := h.closed h0; omega, h.notSetext, fun h0 hk => (h.para h0 hk).mono h2⟩

/-- The children of the document: each acceptable, all but the last closed, the closed ones ending in increasing
    order, and the text of an open last paragraph starting after the end of every other child. -/
structure Kids (N P : Nat) (bs : List PB) : Prop where
  kid : ∀ k ∈ bs, KidOK N P k
  init : ∀ k ∈ bs.dropLast, PBClosed k
  sorted : bs.Pairwise (fun a b => 0 ≤ b.label.stop → a.label.stop ≤ b.label.stop)
  lb : ∀ c, bs.getLast? = some c → c.label.stop < 0 → c.label.kind = BK.paragraph →
    ∀ a ∈ bs.dropLast, ∀ t ∈ c.inlines, a.label.stop ≤ t.label.start

/-- Every closed block of the list ends at or before `H`. -/
def ClosedLe (H : Int) (bs : List PB) : Prop := ∀ a ∈ bs, 0 ≤ a.label.stop → a.label.stop ≤ H

theorem Kids.nil (N P : Nat) : Kids N P [] :=
  ⟨fun _ h => (by cases h), fun _ h => (by cases h), List.Pairwise.nil, fun _ h => (by cases h)⟩

theorem Kids.mono {N P M Q : Nat} {bs : List PB} (h : Kids N P bs) (h1 : N ≤ M) (h2 : P ≤ Q) : Kids M Q bs :=
  ⟨fun k hk => (h.kid k hk).mono h1 h2, h.init, h.sorted, h.lb⟩

theorem ClosedLe.mono {H H' : Int} {bs : List PB} (h : ClosedLe H bs) (hle : H ≤ H') : ClosedLe H' bs :=
  fun a ha h0 => by have := h a ha h0; omega

/-! ### List helpers -/

theorem dropLast_append_of_ne {α : Type} (a b : List α) (hb : b ≠ []) : (a ++ b).dropLast = a ++ b.dropLast := by
  induction a with
  | nil => rfl
  | cons x t ih =>
    cases h : t ++ b with
    | nil =>
      have : b = [] := (List.append_eq_nil_iff.mp h).2
      exact absurd this hb
    | cons y r =>
      rw [List.cons_append, h, List.dropLast_cons₂, ← h, ih]
      rfl

theorem mem_dropLast {α : Type} {a : α} {l : List α} (h : a ∈ l.dropLast) : a ∈ l :=
  (List.dropLast_sublist l).subset h

theorem getLast?_split {bs : List PB} {c : PB} (h : bs.getLast? = some c) : bs = bs.dropLast ++ [c] := by
  have hne : bs ≠ [] := by intro e; rw [e] at h; cases h
  have := List.dropLast_concat_getLast hne
  rw [List.getLast?_eq_some_getLast hne] at h
  cases h
  exact this.symm

theorem getLast?_append_ne {α : Type} (a b : List α) (hb : b ≠ []) : (a ++ b).getLast? = b.getLast? := by
  rw [List.getLast?_append]
  cases h : b.getLast? with
  | none => exact absurd (List.getLast?_eq_none_iff.mp h) hb
  | some x => rfl

/-! ### Replacing the last child by the result of closing it -/

/-- Hypotheses about the block `c'` that is closed (the last child, possibly with its kind changed to setext
    heading): its paragraph data, and the lower bound of its text. -/
structure CloseHyp (N P : Nat) (e : Int) (bs : List PB) (c' : PB) : Prop where
  pe : (P : Int) ≤ e
  eN : e ≤ (N : Int)
  cle : ClosedLe e bs
  cstop : 0 ≤ c'.label.stop → c'.label.stop ≤ e ∧ ∀ a ∈ bs.dropLast, a.label.stop ≤ c'.label.stop
  para : c'.label.stop < 0 → (c'.label.kind = BK.paragraph ∨ c'.label.kind = BK.setextHeading) → ParaOK P c'
  lb : c'.label.stop < 0 → (c'.label.kind = BK.paragraph ∨ c'.label.kind = BK.setextHeading) →
    ∀ a ∈ bs.dropLast, ∀ t ∈ c'.inlines, a.label.stop ≤ t.label.start

theorem Kids.replaceLast {N P : Nat} {e : Int} {bs : List PB} {c' : PB} {out : List PB} (h : Kids N P bs)
    (hy : CloseHyp N P e bs c') (hs : CloseShape P e c' out) (Q : Nat)
    (hQ : e.toNat ≤ Q ∨ (c'.label.stop < 0 → c'.label.kind ≠ BK.setextHeading)) :
    Kids N Q (bs.dropLast ++ out) ∧ ClosedLe e (bs.dropLast ++ out) ∧ out ≠ [] ∧
    ((c'.label.stop < 0 → c'.label.kind ≠ BK.setextHeading) → ∀ b ∈ out, PBClosed b) := by
  have hpe := hy.pe
  have heN := hy.eN
  have hdl : ∀ a ∈ bs.dropLast, 0 ≤ a.label.stop ∧ a.label.stop ≤ e := fun a ha =>
    ⟨h.init a ha, hy.cle a (mem_dropLast ha) (h.init a ha)⟩
  have hdlk : ∀ a ∈ bs.dropLast, KidOK N Q a := fun a ha =>
    KidOK.of_closed (hdl a ha).1 ((h.kid a (mem_dropLast ha)).closed (hdl a ha).1)
  have hdls : bs.dropLast.Pairwise (fun a b => 0 ≤ b.label.stop → a.label.stop ≤ b.label.stop) :=
    List.Pairwise.sublist (List.dropLast_sublist bs) h.sorted
  -- the facts about `out` alone
  have key : out ≠ [] ∧ (∀ b ∈ out, KidOK N Q b) ∧ (∀ b ∈ out.dropLast, PBClosed b) ∧
      out.Pairwise (fun a b => 0 ≤ b.label.stop → a.label.stop ≤ b.label.stop) ∧
      (∀ b ∈ out, 0 ≤ b.label.stop → b.label.stop ≤ e ∧ ∀ a ∈ bs.dropLast, a.label.stop ≤ b.label.stop) ∧
      (∀ o, out.getLast? = some o → o.label.stop < 0 → o.label.kind = BK.paragraph →
        ∀ a ∈ bs.dropLast ++ out.dropLast, ∀ t ∈ o.inlines, a.label.stop ≤ t.label.start) ∧
      ((c'.label.stop < 0 → c'.label.kind ≠ BK.setextHeading) → ∀ b ∈ out, PBClosed b) := by
    rcases hs with ⟨hc0, rfl⟩ | ⟨hop, b, rfl, hbe, _⟩ | ⟨hop, hk, first, rest, hin, Pb, pre, hPb, hpre, hsh⟩
    · -- already closed
      obtain ⟨c1, c2⟩ := hy.cstop hc0
      refine ⟨by simp, ?_, by simp, List.pairwise_singleton _ _, ?_, ?_, ?_⟩
      · intro b hb; simp only [List.mem_singleton] at hb; subst hb
        exact KidOK.of_closed hc0 (by omega)
      · intro b hb _; simp only [List.mem_singleton] at hb; subst hb; exact ⟨c1, c2⟩
      · intro o ho hneg; simp only [List.getLast?_singleton, Option.some.injEq] at ho; subst ho; omega
      · intro _ b hb; simp only [List.mem_singleton] at hb; subst hb; exact hc0
    · -- one block, closed at `e`
      have hb0 : 0 ≤ b.label.stop := by omega
      refine ⟨by simp, ?_, by simp, List.pairwise_singleton _ _, ?_, ?_, ?_⟩
      · intro b' hb; simp only [List.mem_singleton] at hb; subst hb
        exact KidOK.of_closed hb0 (by omega)
      · intro b' hb _; simp only [List.mem_singleton] at hb; subst hb
        exact ⟨by omega, fun a ha => by have := (hdl a ha).2; omega⟩
      · intro o ho hneg; simp only [List.getLast?_singleton, Option.some.injEq] at ho; subst ho; omega
      · intro _ b' hb; simp only [List.mem_singleton] at hb; subst hb; exact hb0
    · -- a paragraph: definitions, then the rest or the orphan
      have hlbf : ∀ a ∈ bs.dropLast, a.label.stop ≤ first.label.start :=
        fun a ha => hy.lb hop hk a ha first (by rw [hin]; simp)
      have hpre0 : ∀ b ∈ pre, 0 ≤ b.label.stop ∧ b.label.stop ≤ e ∧ b.label.stop ≤ (Pb : Int) ∧
          ∀ a ∈ bs.dropLast, a.label.stop ≤ b.label.stop := by
        intro b hb
        obtain ⟨p1, p2⟩ := hpre.1 b hb
        refine ⟨by omega, by omega, p2, fun a ha => ?_⟩
        have := hlbf a ha
        omega
      have hprek : ∀ b ∈ pre, KidOK N Q b := fun b hb =>
        KidOK.of_closed (hpre0 b hb).1 (by have := (hpre0 b hb).2.1; omega)
      have hpre2 : pre.Pairwise (fun a b => 0 ≤ b.label.stop → a.label.stop ≤ b.label.stop) := by
        refine List.Pairwise.imp ?_ hpre.2
        intro a b h _; exact h
      rcases hsh with ⟨rfl, hne⟩ | ⟨last, rfl, hle⟩ | ⟨o, rfl, hne, hset, horph⟩
      · refine ⟨hne, hprek, fun b hb => (hpre0 b (mem_dropLast hb)).1, ?_, fun b hb _ => ⟨(hpre0 b hb).2.1, (hpre0 b hb).2.2.2⟩,
          ?_, fun _ b hb => (hpre0 b hb).1⟩
        · exact hpre2
        · intro o ho hneg
          have := (hpre0 o (List.mem_of_getLast? ho)).1
          omega
      · have hl0 : 0 ≤ last.label.stop := by omega
        refine ⟨by simp, ?_, ?_, ?_, ?_, ?_, ?_⟩
        · intro b hb
          rcases List.mem_append.mp hb with h' | h'
          · exact hprek b h'
          · simp only [List.mem_singleton] at h'; subst h'; exact KidOK.of_closed hl0 (by omega)
        · intro b hb; rw [List.dropLast_concat] at hb; exact (hpre0 b hb).1
        · rw [List.pairwise_append]
          refine ⟨hpre2, List.pairwise_singleton _ _, ?_⟩
          intro a ha b hb _
          simp only [List.mem_singleton] at hb; subst hb
          have := (hpre0 a ha).2.2.1
          omega
        · intro b hb h0
          rcases List.mem_append.mp hb with h' | h'
          · exact ⟨(hpre0 b h').2.1, (hpre0 b h').2.2.2⟩
          · simp only [List.mem_singleton] at h'; subst h'
            exact ⟨by omega, fun a ha => by have := (hdl a ha).2; omega⟩
        · intro o ho hneg
          rw [List.getLast?_concat] at ho
          cases ho
          omega
        · intro _ b hb
          rcases List.mem_append.mp hb with h' | h'
          · exact (hpre0 b h').1
          · simp only [List.mem_singleton] at h'; subst h'; exact hl0
      · obtain ⟨t, hot, ht1, ht2, ht3⟩ := horph.inl
        refine ⟨by simp, ?_, ?_, ?_, ?_, ?_, ?_⟩
        · intro b hb
          rcases List.mem_append.mp hb with h' | h'
          · exact hprek b h'
          · simp only [List.mem_singleton] at h'; subst h'
            refine ⟨fun h0 => by have := horph.stop; omega, fun _ => by rw [horph.kind]; decide, fun _ _ => ?_⟩
            have hQ' : e.toNat ≤ Q := by
              rcases hQ with h | h
              · exact h
              · exact absurd hset (h hop)
            refine ⟨?_, ?_, ?_, horph.nokids⟩
            · rw [hot]; intro t' ht'; simp only [List.mem_singleton] at ht'; subst ht'
              unfold TB; omega
            · rw [hot]; exact List.pairwise_singleton _ _
            · rw [hot]; intro t' ht'; simp only [List.mem_singleton] at ht'; subst ht'; exact ht2
        · intro b hb; rw [List.dropLast_concat] at hb; exact (hpre0 b hb).1
        · rw [List.pairwise_append]
          refine ⟨hpre2, List.pairwise_singleton _ _, ?_⟩
          intro a ha b hb h0
          simp only [List.mem_singleton] at hb; subst hb
          have := horph.stop; omega
        · intro b hb h0
          rcases List.mem_append.mp hb with h' | h'
          · exact ⟨(hpre0 b h').2.1, (hpre0 b h').2.2.2⟩
          · simp only [List.mem_singleton] at h'; subst h'
            have := horph.stop; omega
        · intro o' ho' _ _ a ha t' ht'
          rw [List.getLast?_concat] at ho'
          cases ho'
          rw [hot] at ht'; simp only [List.mem_singleton] at ht'; subst ht'
          rw [List.dropLast_concat] at ha
          rcases List.mem_append.mp ha with h' | h'
          · -- an earlier child: before the first inline, which is before the definitions
            obtain ⟨b0, hb0⟩ := List.exists_mem_of_ne_nil pre hne
            have := hlbf a h'
            have := (hpre.1 b0 hb0)
            omega
          · have := (hpre0 a h').2.2.1
            omega
        · intro hns
          exact absurd hset (hns hop)
  obtain ⟨k1, k2, k3, k4, k5, k6, k7⟩ := key
  refine ⟨⟨?_, ?_, ?_, ?_⟩, ?_, k1, k7⟩
  · intro k hk
    rcases List.mem_append.mp hk with h' | h'
    · exact hdlk k h'
    · exact k2 k h'
  · intro k hk
    rw [dropLast_append_of_ne _ _ k1] at hk
    rcases List.mem_append.mp hk with h' | h'
    · exact (hdl k h').1
    · exact k3 k h'
  · rw [List.pairwise_append]
    exact ⟨hdls, k4, fun a ha b hb h0 => (k5 b hb h0).2 a ha⟩
  · intro c hc hneg hkp a ha t ht
    rw [getLast?_append_ne _ _ k1] at hc
    rw [dropLast_append_of_ne _ _ k1] at ha
    exact k6 c hc hneg hkp a ha t ht
  · intro a ha h0
    rcases List.mem_append.mp ha with h' | h'
    · exact (hdl a h').2
    · exact (k5 a h' h0).1

/-! ### Appending a new open child -/

theorem Kids.append {N P : Nat} {bs : List PB} {child : PB} (h : Kids N P bs) (hc : ∀ k ∈ bs, PBClosed k)
    (hs : child.label.stop < 0) (hk : child.label.kind ≠ BK.setextHeading) (hi : child.inlines = [])
    (hb : child.blocks = []) : Kids N P (bs ++ [child]) := by
  refine ⟨?_, ?_, ?_, ?_⟩
  · intro k hk'
    rcases List.mem_append.mp hk' with h' | h'
    · exact h.kid k h'
    · simp only [List.mem_singleton] at h'; subst h'
      refine ⟨fun h0 => by omega, fun _ => hk, fun _ _ => ⟨?_, ?_, ?_, hb⟩⟩
      · rw [hi]; exact SpansOK.nil P
      · rw [hi]; exact List.Pairwise.nil
      · rw [hi]; intro t ht; cases ht
  · intro k hk'
    rw [List.dropLast_concat] at hk'
    exact hc k hk'
  · rw [List.pairwise_append]
    refine ⟨h.sorted, List.pairwise_singleton _ _, ?_⟩
    intro a _ b hb' h0
    simp only [List.mem_singleton] at hb'; subst hb'
    omega
  · intro c hc' _ _ a _ t ht
    rw [List.getLast?_concat] at hc'
    cases hc'
    rw [hi] at ht; cases ht

theorem ClosedLe.append_open {H : Int} {bs : List PB} {child : PB} (h : ClosedLe H bs) (hs : child.label.stop < 0) :
    ClosedLe H (bs ++ [child]) := by
  intro a ha h0
  rcases List.mem_append.mp ha with h' | h'
  · exact h a h' h0
  · simp only [List.mem_singleton] at h'; subst h'; omega

/-! ### Modifying the last child -/

/-- What a modification of a child of the document may change: not `stop`, not `kind`; an open paragraph keeps its
    inline children and stays without block children. -/
structure HeadRel (b b' : PB) : Prop where
  stop : b'.label.stop = b.label.stop
  kind : b'.label.kind = b.label.kind
  para : b.label.stop < 0 → b.label.kind = BK.paragraph → b'.inlines = b.inlines ∧ (b.blocks = [] → b'.blocks = [])

theorem HeadRel.of_same {b b' : PB} (hl : b'.label = b.label) (hi : b'.inlines = b.inlines)
    (hb : b.blocks = [] → b'.blocks = []) : HeadRel b b' :=
  ⟨by rw [hl], by rw [hl], fun _ _ => ⟨hi, hb⟩⟩

theorem HeadRel.kidOK {N P : Nat} {b b' : PB} (h : HeadRel b b') (hk : KidOK N P b) : KidOK N P b' := by
  refine ⟨fun h0 => ?_, fun h0 => ?_, fun h0 hkp => ?_⟩
  · rw [h.stop] at h0 ⊢; exact hk.closed h0
  · rw [h.stop] at h0; rw [h.kind]; exact hk.notSetext h0
  · rw [h.stop] at h0; rw [h.kind] at hkp
    have hp := hk.para h0 hkp
    obtain ⟨e1, e2⟩ := h.para h0 hkp
    exact ⟨by rw [e1]; exact hp.spans, by rw [e1]; exact hp.sorted, by rw [e1]; exact hp.valid, e2 hp.nokids⟩

theorem Kids.modLast {N P : Nat} {bs : List PB} {c c' : PB} (h : Kids N P bs) (hc : bs.getLast? = some c)
    (hr : HeadRel c c') : Kids N P (bs.dropLast ++ [c']) := by
  have hsplit := getLast?_split hc
  have hcm : c ∈ bs := List.mem_of_getLast? hc
  refine ⟨?_, ?_, ?_, ?_⟩
  · intro k hk
    rcases List.mem_append.mp hk with h' | h'
    · exact h.kid k (mem_dropLast h')
    · simp only [List.mem_singleton] at h'; subst h'; exact hr.kidOK (h.kid c hcm)
  · intro k hk
    rw [List.dropLast_concat] at hk
    exact h.init k hk
  · have hs := h.sorted
    rw [hsplit, List.pairwise_append] at hs
    rw [List.pairwise_append]
    refine ⟨hs.1, List.pairwise_singleton _ _, ?_⟩
    intro a ha b hb h0
    simp only [List.mem_singleton] at hb; subst hb
    rw [hr.stop] at h0 ⊢
    exact hs.2.2 a ha c (by simp) h0
  · intro c0 hc0 hneg hkp a ha t ht
    rw [List.getLast?_concat] at hc0
    cases hc0
    rw [List.dropLast_concat] at ha
    rw [hr.stop] at hneg
    rw [hr.kind] at hkp
    rw [(hr.para hneg hkp).1] at ht
    exact h.lb c hc hneg hkp a ha t ht

theorem ClosedLe.modLast {H : Int} {bs : List PB} {c c' : PB} (h : ClosedLe H bs) (hc : bs.getLast? = some c)
    (hs : c'.label.stop = c.label.stop) : ClosedLe H (bs.dropLast ++ [c']) := by
  intro a ha h0
  rcases List.mem_append.mp ha with h' | h'
  · exact h a (mem_dropLast h') h0
  · simp only [List.mem_singleton] at h'; subst h'
    rw [hs] at h0 ⊢
    exact h c (List.mem_of_getLast? hc) h0

/-- Appending an inline child to the last child (an open paragraph, or any other kind of block). -/
theorem Kids.appendInline {N P Q : Nat} {H : Int} {bs : List PB} {l : PLabel} {cbs : List PB} {is : List Tree} {t : Tree}
    (h : Kids N P bs) (hcl : ClosedLe H bs) (hc : bs.getLast? = some (.mk l cbs is))
    (ht : l.stop < 0 → l.kind = BK.paragraph →
      (P : Int) ≤ t.label.start ∧ H ≤ t.label.start ∧ t.label.start ≤ t.label.stop ∧ t.label.stop ≤ (Q : Int))
    (hPQ : P ≤ Q) : Kids N Q (bs.dropLast ++ [.mk l cbs (is ++ [t])]) := by
  have hcm : PB.mk l cbs is ∈ bs := List.mem_of_getLast? hc
  have hsplit := getLast?_split hc
  have hk0 := h.kid _ hcm
  refine ⟨?_, ?_, ?_, ?_⟩
  · intro k hk
    rcases List.mem_append.mp hk with h' | h'
    · exact (h.kid k (mem_dropLast h')).mono (Nat.le_refl _) hPQ
    · simp only [List.mem_singleton] at h'; subst h'
      refine ⟨hk0.closed, hk0.notSetext, fun h0 hkp => ?_⟩
      have hp := hk0.para h0 hkp
      obtain ⟨t1, _, t3, t4⟩ := ht h0 hkp
      refine ⟨?_, ?_, ?_, hp.nokids⟩
      · show SpansOK Q (is ++ [t])
        refine SpansOK.append (hp.spans.mono hPQ) ?_
        intro t' ht'; simp only [List.mem_singleton] at ht'; subst ht'
        unfold TB; omega
      · show SortedSpans (is ++ [t])
        unfold SortedSpans
        rw [List.pairwise_append]
        refine ⟨hp.sorted, List.pairwise_singleton _ _, ?_⟩
        intro a ha b hb
        simp only [List.mem_singleton] at hb; subst hb
        have := (hp.spans a ha).2
        omega
      · intro t' ht'
        rcases List.mem_append.mp ht' with h' | h'
        · exact hp.valid t' h'
        · simp only [List.mem_singleton] at h'; subst h'; exact t3
  · intro k hk
    rw [List.dropLast_concat] at hk
    exact h.init k hk
  · have hs := h.sorted
    rw [hsplit, List.pairwise_append] at hs
    rw [List.pairwise_append]
    refine ⟨hs.1, List.pairwise_singleton _ _, ?_⟩
    intro a ha b hb h0
    simp only [List.mem_singleton] at hb; subst hb
    exact hs.2.2 a ha (PB.mk l cbs is) (by simp) h0
  · intro c0 hc0 hneg hkp a ha t' ht'
    rw [List.getLast?_concat] at hc0
    cases hc0
    rw [List.dropLast_concat] at ha
    rcases List.mem_append.mp ht' with h' | h'
    · exact h.lb _ hc hneg hkp a ha t' h'
    · simp only [List.mem_singleton] at h'; subst h'
      have h1 := (ht hneg hkp).2.1
      have h2 := hcl a (mem_dropLast ha) (h.init a ha)
      omega

end CM.Proofs
