import CM.Proofs.QuoteGShift
import CM.Proofs.QuoteRun2
/-
C09 (block-quote half, with link reference definitions): the two runs of the stream machine (port of `QuoteRun`,
`QuoteRun2`, `QuoteMain` without the hypothesis `CloseParaSim`).
-/
namespace CM.Proofs.Quote
open CM CM.Model CM.Gen CM.Proofs.BT CM.Proofs.BSp CM.Proofs.Nest

/-- No line of `D` is a setext heading underline (at any position behind container markers). -/
def NoULD (D : Bytes) : Prop := ∀ a b : Bytes, D = a ++ b → Whole a → b ≠ [] → NoUL (b.take (lineLen b))

/-- The assumptions of the stream-level theorem about one document `D`. -/
structure SetupG (D : Bytes) : Prop where
  clean : Clean D
  ne : D ≠ []
  noul : NoULD D

theorem LineAt.noUL {D a b qa : Bytes} {c : Nat} (S : SetupG D) (h : LineAt D a b qa c) : NoUL (b.take (lineLen b)) :=
  S.noul a b h.split h.whole h.bne

section run
variable {x : PExt} {D : Bytes} (S : SetupG D)
include S

/-- **The end of the input, on both runs.** -/
theorem run_eofG {qa : Bytes} {c : Nat} (h : EofAt D qa c) (lpD lpQ : LP) (pD pQ : BP) (bsD : List PB) (done : List Tree)
    (acc : List Root) (dD : DSt D c (D.length - c) bsD pD) (dQ : DSt (quote D) 0 qa.length [] pQ)
    (sD : DSessG D c (D.length - c) lpD) (first : ∀ k rest, lpD.root.blocks = k :: rest → k.isOpen = true)
    (iQ : LPInv' lpQ) (root : RootR (envOf (DRq D) D c (D.length - c) qa.length done) lpD.root lpQ.root)
    (hdone : Done (DRq D) D acc done) (fD gD fQ : Nat) :
    Goal (DRq D) D (contD x gD acc (parseLines (blocksLPc x) fD (lpD, true) (D.length - c) pD))
      (parseLines (blocksLP x) (fQ + 1) lpQ qa.length pQ) := by
  cases fD with
  | zero => exact Goal.of_ne (by simp [parseLines, contD])
  | succ fD =>
    have hq : quote D = qa := h.q
    have hsrc : pD.buf.take pD.i = (D.drop c).take (D.length - c) := dD.source
    have hsl : ((D.drop c).take (D.length - c)).length = D.length - c := by
      rw [List.length_take, List.length_drop]; omega
    -- the line of the checked parser
    have hline : (blocksLPc x).line (lpD, true) (pD.buf.take pD.i) (D.length - c) =
        ((blocksLP x).line lpD ((D.drop c).take (D.length - c)) (D.length - c),
          true && pbSpans (RefDefSpansOK x ((D.drop c).take (D.length - c)) ((D.length - c : Nat) : Int)
            ((D.drop c).take (D.length - c)).length) 0 ((D.length - c : Nat) : Int) lpD.root) := by
      rw [hsrc]; rfl
    by_cases hchk : pbSpans (RefDefSpansOK x ((D.drop c).take (D.length - c)) ((D.length - c : Nat) : Int)
        ((D.drop c).take (D.length - c)).length) 0 ((D.length - c : Nat) : Int) lpD.root = true
    · rw [hchk] at hline
      have hinvD' := blocksLP_line_LPInv' x lpD sD.sess.inv ((D.drop c).take (D.length - c)) (D.length - c)
      have hpan : (blocksLPc x).panicked ((blocksLPc x).line (lpD, true) (pD.buf.take pD.i) (D.length - c)) = none := by
        rw [hline]; exact hinvD'.panic
      -- every child of the document is closed now
      obtain ⟨p1, p2, p3, p4, p5, p6⟩ := reset_fields lpD ((D.drop c).take (D.length - c)) (D.length - c)
      have hpl : (lpD.reset ((D.drop c).take (D.length - c)) (D.length - c)).line = [] := by
        rw [p4]; apply List.drop_eq_nil_of_le; rw [hsl]; exact Nat.le_refl _
      obtain ⟨hroot1, hne1, hterm1⟩ := sD.sess.well
      rw [hsl] at hroot1
      obtain ⟨e1, e2, e3, e4⟩ := processLine_eof (N := D.length - c) x (lpD.reset ((D.drop c).take (D.length - c)) (D.length - c))
        hpl p3 (by rw [p1]; exact hroot1) (by rw [p6, p1]; exact hterm1)
      have hne' := e3 (by rw [p1]; exact hne1)
      have hsp : PBSpans QT 0 ((D.drop c).take (D.length - c)).length
          ((blocksLP x).line lpD ((D.drop c).take (D.length - c)) (D.length - c)).root :=
        (processLine_spans x lpD ((D.drop c).take (D.length - c)) (D.length - c) sD.sess.inv (by rw [hsl]; exact Nat.le_refl _) sD.sess.openr hchk).1
      rw [hsl] at hsp
      generalize hlp' : (blocksLP x).line lpD ((D.drop c).take (D.length - c)) (D.length - c) = lpD' at hline hinvD' hsp
      obtain ⟨lo, hlo, hks⟩ := kids_spans hsp
      have e4' : ∀ k ∈ lpD'.root.blocks, 0 ≤ k.label.stop := by rw [← hlp']; exact e4
      have e1' : Kids (D.length - c) (D.length - c) lpD'.root.blocks := by rw [← hlp']; exact e1
      have hne'' : lpD'.root.blocks ≠ [] := by rw [← hlp']; exact hne'
      cases hkids : lpD'.root.blocks with
      | nil => exact absurd hkids hne''
      | cons k rest =>
        rw [hkids] at e4' e1' hks
        have hk0 : 0 ≤ k.label.stop := e4' k (List.mem_cons_self ..)
        have hkc : k.isOpen = false := (isOpen_false_iff k).mpr hk0
        have hkN := (e1'.kid k (List.mem_cons_self ..)).closed hk0
        have hn : ((k.label.stop.toNat : Nat) : Int) = k.label.stop := Int.toNat_of_nonneg hk0
        have hnle : k.label.stop.toNat ≤ D.length - c := by omega
        have hcle := h.cle
        obtain ⟨r, p', hm, hrb, hso, _, _, hst⟩ := makeRoot_dst dD S.clean.noNul k rest hkc hnle
        have hmr : makeRoot pD ((blocksLPc x).kids ((blocksLPc x).line (lpD, true) (pD.buf.take pD.i) (D.length - c))) =
            some (r, p') := by
          rw [hline]; show makeRoot pD lpD'.root.blocks = _; rw [hkids]; exact hm
        rw [parseLines_root (blocksLPc x) hpan hmr, contD_block]
        -- the prefixed side
        have hfin := step_eofG (x := x) h done lpD lpQ (hT_of sD.sess first) root sD.tp
        rw [hlp', hkids] at hfin
        intro hout
        have hcl := PBSpansL_closed hks e4'
        rw [PBSpansL_cons] at hcl
        obtain ⟨s1, s2, s3⟩ := hcl
        have hb := PBSpans_closed_bounds s1 hk0
        have hsp' : PBSpansL QT false (k.label.stop + -(k.label.stop.toNat : Int))
            (((D.length - c : Nat) : Int) + -(k.label.stop.toNat : Int)) (offsetPBs (-(k.label.stop.toNat : Int)) rest) :=
          offsetPBs_spans (-(k.label.stop.toNat : Int)) rest hk0 (by omega) s3
        have e5 : (((D.length - c : Nat) : Int) + -(k.label.stop.toNat : Int)) = ((D.length - c - k.label.stop.toNat : Nat) : Int) := by
          omega
        rw [e5] at hsp'
        have hinvQ' := blocksLP_line_LPInv' x lpQ iQ ((quote D).take qa.length) qa.length
        rw [← hq] at dQ hfin hinvQ' ⊢
        apply final_of_finR (DRq D) D (clean_quote_noNul S.clean) c (D.length - c) done (k :: rest) _ x lpQ fQ pQ dQ hinvQ' hfin
        intro pre bs'' hpre hr
        cases hr with
        | cons rk rrest =>
          rename_i k' rest'
          have hsh := envOf_shift (DRq D) (DRq_shift D) D c (D.length - c) (quote D).length k.label.stop.toNat done done
          have hrest : L2 (BR (envOf (DRq D) D (c + k.label.stop.toNat) (D.length - c - k.label.stop.toNat) (quote D).length done))
              (offsetPBs (-(k.label.stop.toNat : Int)) rest) rest' :=
            BRs.offset hsh rest rest' rrest s3 (by omega)
          obtain ⟨rs, h1, h2⟩ := tail_delivery x (DRq D) (DRq_shift D) D S.clean.noNul (quote D).length _
            (offsetPBs (-(k.label.stop.toNat : Int)) rest) rest' (c + k.label.stop.toNat)
            (D.length - c - k.label.stop.toNat) done p' (k.label.stop + -(k.label.stop.toNat : Int)) gD (r :: acc) rfl hst
            (by omega) (by omega) hsp' hrest hout
          obtain ⟨ks, hk1, hk2⟩ := hdone
          refine ⟨ks ++ k' :: rest', ?_, ?_⟩
          · rw [List.map_append, List.map_append, hk1, hpre.2]; rfl
          · rw [h1, List.reverse_cons, List.append_assoc]
            refine hk2.append (.cons ?_ h2)
            rw [hso, hrb]
            exact BR.mono (envOf_le_envAt (DRq D) D c _ _ done) k k' rk
    · -- the span check fails: the run of the checked parser ends with that failure
      have hfalse : pbSpans (RefDefSpansOK x ((D.drop c).take (D.length - c)) ((D.length - c : Nat) : Int)
          ((D.drop c).take (D.length - c)).length) 0 ((D.length - c : Nat) : Int) lpD.root = false := by
        simpa using hchk
      rw [hfalse] at hline
      have hpan : (blocksLPc x).panicked ((blocksLPc x).line (lpD, true) (pD.buf.take pD.i) (D.length - c)) = some refDefFail := by
        rw [hline]; rfl
      rw [parseLines_panicked (blocksLPc x) hpan]
      exact Goal.of_ne (by rw [contD_panic]; exact fun e => by cases e)

end run


end CM.Proofs.Quote
