import CM.Proofs.BlocksContractStarts
/-
C01 contract for the real block parser — the remaining block starts (`startFenced`, `startHTML`, `startThematicBreak`,
`startIndentedCode`, `startListItem`).
-/
namespace CM.Proofs
open CM CM.Model CM.Gen

theorem startFenced_T (H : onCloseParagraph_cuts_target) {am : Bool} {N : Nat} {p : LP} (x : PExt) (h : LT QB am N p)
    (hg : AL p.containerKind = false) (hs : InOpen p.state) : StartT am N p (startFenced x p) := by
  unfold startFenced
  simp only
  split
  · exact StartT.self h hs
  · split
    · exact StartT.self h hs
    · obtain ⟨c1, c2⟩ := consumeIndentN_frame p p.indent
      obtain ⟨o1, _, o3⟩ := OpT.openBlock H x BK.fencedCode
        (fun l => { l with char := (parseCodeFence p.bytesAfterIndent).char, n := (parseCodeFence p.bytesAfterIndent).n })
        (h.of_frame c1) (by rw [(ContFrame.of_cur c1).kind]; exact hg) (c2.inOpen hs) (by decide) (by decide) (by decide)
        (fun _ => ⟨rfl, rfl⟩)
      generalize (p.consumeIndentN p.indent).openBlock x BK.fencedCode
        (fun l => { l with char := (parseCodeFence p.bytesAfterIndent).char, n := (parseCodeFence p.bytesAfterIndent).n }) = q1
        at o1 o3
      obtain ⟨i1, i2⟩ := o1.setIndent (p.indent : Int)
      have hst : InOpen (q1.setContainerIndent (p.indent : Int)).state := by rw [i2, o3]; exact Or.inr rfl
      generalize q1.setContainerIndent (p.indent : Int) = q2 at i1 hst
      split
      · obtain ⟨a1, a2⟩ := advance_frame q2 (parseCodeFence p.bytesAfterIndent).infoStart.toNat
        obtain ⟨k1, k2⟩ := (i1.cur a1).collect x IK.infoString
          ((parseCodeFence p.bytesAfterIndent).infoEnd - (parseCodeFence p.bytesAfterIndent).infoStart).toNat (by decide)
        have hst3 := k2.inOpen (a2.inOpen hst)
        generalize (q2.advance (parseCodeFence p.bytesAfterIndent).infoStart.toNat).collectInline x IK.infoString
          ((parseCodeFence p.bytesAfterIndent).infoEnd - (parseCodeFence p.bytesAfterIndent).infoStart).toNat = q3 at k1 hst3
        obtain ⟨l1, l2, _, _⟩ := consumeLine_frame q3
        exact (k1.cur l1).finish qb_fenced (by decide) (Or.inr (l2 hst3))
      · obtain ⟨l1, l2, _, _⟩ := consumeLine_frame q2
        exact (i1.cur l1).finish qb_fenced (by decide) (Or.inr (l2 hst))

theorem htmlStartLoop_T (H : onCloseParagraph_cuts_target) {am : Bool} {N : Nat} (x : PExt) (line : Bytes) :
    ∀ (fuel i : Nat) (p : LP), LT QB am N p → AL p.containerKind = false → InOpen p.state →
    StartT am N p (htmlStartLoop x line fuel i p) := by
  intro fuel
  induction fuel with
  | zero => intro i p h _ hs; exact StartT.self h hs
  | succ fuel ih =>
    intro i p h hg hs
    unfold htmlStartLoop
    split
    · exact StartT.self h hs
    · split
      · split
        · exact StartT.self h hs
        · obtain ⟨o1, _, o3⟩ := OpT.openBlock H x BK.htmlBlock (fun l => { l with n := (i : Int) }) h hg hs
            (by decide) (by decide) (by decide) (fun _ => ⟨rfl, rfl⟩)
          generalize p.openBlock x BK.htmlBlock (fun l => { l with n := (i : Int) }) = q1 at o1 o3
          simp only
          split
          · obtain ⟨k1, k2⟩ := o1.collect x IK.rawHTML q1.bytesAfterIndent.length (by decide)
            have hst3 := k2.inOpen (show InOpen q1.state by rw [o3]; exact Or.inr rfl)
            generalize q1.collectInline x IK.rawHTML q1.bytesAfterIndent.length = q3 at k1 hst3
            obtain ⟨l1, l2, _, _⟩ := consumeLine_frame q3
            exact (k1.cur l1).endBlock x (l2 hst3) (by rw [consumeLine_i q3 k1.lt.la.ile, l1.line])
              (by decide) (by decide) (by decide)
          · exact o1.finish qb_html (by decide) (Or.inl o3)
      · exact ih (i + 1) p h hg hs

theorem startHTML_T (H : onCloseParagraph_cuts_target) {am : Bool} {N : Nat} {p : LP} (x : PExt) (h : LT QB am N p)
    (hg : AL p.containerKind = false) (hs : InOpen p.state) : StartT am N p (startHTML x p) := by
  unfold startHTML
  simp only
  split
  · exact StartT.self h hs
  · split
    · exact StartT.self h hs
    · exact htmlStartLoop_T H x _ 8 0 p h hg hs

theorem startThematicBreak_T (H : onCloseParagraph_cuts_target) {am : Bool} {N : Nat} {p : LP} (x : PExt)
    (h : LT QB am N p) (hg : AL p.containerKind = false) (hs : InOpen p.state) :
    StartT am N p (startThematicBreak x p) := by
  unfold startThematicBreak
  simp only
  split
  · exact StartT.self h hs
  · split
    · exact StartT.self h hs
    · obtain ⟨c1, c2⟩ := consumeIndentN_frame p p.indent
      obtain ⟨o1, _, o3⟩ := OpT.openBlock H x BK.thematicBreak id (h.of_frame c1)
        (by rw [(ContFrame.of_cur c1).kind]; exact hg) (c2.inOpen hs) (by decide) (by decide) (by decide) (fun _ => ⟨rfl, rfl⟩)
      generalize (p.consumeIndentN p.indent).openBlock x BK.thematicBreak = q1 at o1 o3
      obtain ⟨a1, a2⟩ := advance_frame q1 (parseThematicBreak p.bytesAfterIndent).toNat
      have hst : InOpen (q1.advance (parseThematicBreak p.bytesAfterIndent).toNat).state :=
        a2.inOpen (by rw [o3]; exact Or.inr rfl)
      have hop := o1.cur a1
      generalize q1.advance (parseThematicBreak p.bytesAfterIndent).toNat = q2 at hop hst
      obtain ⟨l1, l2, _, _⟩ := consumeLine_frame q2
      exact (hop.cur l1).endBlock x (l2 hst) (by rw [consumeLine_i q2 hop.lt.la.ile, l1.line])
        (by decide) (by decide) (by decide)

theorem startIndentedCode_T (H : onCloseParagraph_cuts_target) {am : Bool} {N : Nat} {p : LP} (x : PExt)
    (h : LT QB am N p) (hg : AL p.containerKind = false) (hs : InOpen p.state) :
    StartT am N p (startIndentedCode x p) := by
  unfold startIndentedCode
  split
  · exact StartT.self h hs
  · obtain ⟨c1, c2⟩ := consumeIndentN_frame p codeBlockIndentLimit
    obtain ⟨o1, _, o3⟩ := OpT.openBlock H x BK.indentedCode id (h.of_frame c1)
      (by rw [(ContFrame.of_cur c1).kind]; exact hg) (c2.inOpen hs) (by decide) (by decide) (by decide) (fun _ => ⟨rfl, rfl⟩)
    exact o1.finish qb_indented (by decide) (Or.inl o3)

/-! ### startListItem -/

/-- The line is in progress and the container lies at least two levels below the document. -/
structure Run2 (am : Bool) (N : Nat) (q : LP) : Prop where
  lt : LT QB am N q
  depth : 2 ≤ q.depth

theorem Run2.cur {am : Bool} {N : Nat} {q q' : LP} (h : Run2 am N q) (f : CurFrame q q') : Run2 am N q' :=
  ⟨h.lt.of_frame f, by rw [f.depth]; exact h.depth⟩

theorem Run2.setIndent {am : Bool} {N : Nat} {q : LP} (n : Int) (h : Run2 am N q) :
    Run2 am N (q.setContainerIndent n) ∧ (q.setContainerIndent n).state = q.state := by
  obtain ⟨_, _, _, c4, c5⟩ := setContainerIndent_LA n h.lt.la
  exact ⟨⟨setContainerIndent_T n h.lt, by rw [c4.depth]; exact h.depth⟩, c5⟩

theorem StartT.of_run2 {am : Bool} {N : Nat} {p q : LP} (h : Run2 am N q)
    (hs : q.state = stateOpenMatched ∨ q.state = stateLineConsumed) : StartT am N p q :=
  ⟨Or.inl ⟨h.lt, Or.inr ⟨⟨by have := h.depth; omega, noOpenPara_depth2 h.lt.la h.depth⟩, hs⟩⟩⟩

theorem depth_pos_of_kind {am : Bool} {N : Nat} {p : LP} (h : LA am N p) (hk : p.containerKind ≠ BK.document) : 1 ≤ p.depth := by
  by_cases hd : p.depth = 0
  · rw [containerKind_depth0 hd, h.root.kind] at hk; exact absurd rfl hk
  · omega

theorem startListItem_T (H : onCloseParagraph_cuts_target) {am : Bool} {N : Nat} {p : LP} (x : PExt) (h : LT QB am N p)
    (hg : AL p.containerKind = false) (hs : InOpen p.state) : StartT am N p (startListItem x p) := by
  unfold startListItem
  simp only
  split
  · exact StartT.self h hs
  · split
    · exact StartT.self h hs
    · split
      · exact StartT.self h hs
      · obtain ⟨c1, c2⟩ := consumeIndentN_frame p p.indent
        have h0 := h.of_frame c1
        have hs0 := c2.inOpen hs
        have hg0 : AL (p.consumeIndentN p.indent).containerKind = false := by rw [(ContFrame.of_cur c1).kind]; exact hg
        generalize p.consumeIndentN p.indent = p0 at h0 hs0 hg0
        -- the optional list
        have step1 : ∀ (b : Bool), (b = false → p0.containerKind = BK.list) →
            LT QW am N (if b = true then
              p0.openBlock x BK.list (fun l => { l with char := (parseListMarker p.bytesAfterIndent).delim }) else p0) ∧
            InOpen (if b = true then
              p0.openBlock x BK.list (fun l => { l with char := (parseListMarker p.bytesAfterIndent).delim }) else p0).state ∧
            (if b = true then
              p0.openBlock x BK.list (fun l => { l with char := (parseListMarker p.bytesAfterIndent).delim }) else p0).containerKind
              = BK.list := by
          intro b hb
          cases b
          · simp only [Bool.false_eq_true, if_false]; exact ⟨h0.weaken, hs0, hb rfl⟩
          · obtain ⟨o1, _, o3⟩ := OpT.openBlock H x BK.list (fun l => { l with char := (parseListMarker p.bytesAfterIndent).delim })
              h0 hg0 hs0 (by decide) (by decide) (by decide) (fun _ => ⟨rfl, rfl⟩)
            simp only [if_true]
            exact ⟨o1.lt, by rw [o3]; exact Or.inr rfl, o1.ck⟩
        obtain ⟨h1, hs1, hk1⟩ := step1 (p0.containerKind != BK.list ||
              (if p0.containerKind != BK.list && p0.containerKind != BK.listItem then 0 else p0.container.label.char) !=
                (parseListMarker p.bytesAfterIndent).delim) (by
            intro hb
            simp only [Bool.or_eq_false_iff, bne_eq_false_iff_eq] at hb
            exact hb.1)
        generalize (if (p0.containerKind != BK.list ||
              (if p0.containerKind != BK.list && p0.containerKind != BK.listItem then 0 else p0.container.label.char) !=
                (parseListMarker p.bytesAfterIndent).delim) = true then
              p0.openBlock x BK.list (fun l => { l with char := (parseListMarker p.bytesAfterIndent).delim }) else p0) = p1
          at h1 hs1 hk1
        have hd1 : 1 ≤ p1.depth := depth_pos_of_kind h1.la (by rw [hk1]; decide)
        -- the item
        obtain ⟨o1, _, o3, od⟩ := OpT.openBlock' H x BK.listItem (fun l => { l with char := (parseListMarker p.bytesAfterIndent).delim })
          h1 (by rw [hk1]; decide) hs1 (by decide) (by decide) (fun _ => ⟨rfl, rfl⟩)
        generalize p1.openBlock x BK.listItem (fun l => { l with char := (parseListMarker p.bytesAfterIndent).delim }) = p2
          at o1 o3 od
        -- the marker
        have hs2 : InOpen p2.state := by rw [o3]; exact Or.inr rfl
        obtain ⟨m1, _, m3, md⟩ := OpT.openBlock' H x BK.listMarker id o1.lt (by rw [o1.ck]; decide) hs2 (by decide) (by decide)
          (fun _ => ⟨rfl, rfl⟩)
        generalize p2.openBlock x BK.listMarker = p3 at m1 m3 md
        obtain ⟨a1, a2⟩ := advance_frame p3 (parseListMarker p.bytesAfterIndent).stop.toNat
        have m4 := m1.cur a1
        have hs4 : InOpen (p3.advance (parseListMarker p.bytesAfterIndent).stop.toNat).state :=
          a2.inOpen (by rw [m3]; exact Or.inr rfl)
        have hd4 : (p3.advance (parseListMarker p.bytesAfterIndent).stop.toNat).depth = p1.depth + 2 := by
          rw [a1.depth, md, od]
        generalize p3.advance (parseListMarker p.bytesAfterIndent).stop.toNat = p4 at m4 hs4 hd4
        have hns4 := notDesc_of_inOpen hs4
        have e := endBlock_deep_T x m4.lt hns4 (by omega) (by rw [m4.ck]; decide)
        obtain ⟨_, _, e3, _, e5⟩ := endBlock_deep x m4.lt.la hns4 (by omega)
        have hr5 : Run2 am N (p4.endBlock x) := ⟨⟨e.la, e.src, e.top.mono qu_qb⟩, by rw [e3]; omega⟩
        have hs5 : (p4.endBlock x).state = stateOpenMatched := by rw [e5]; exact inOpen_markMatched hs4
        generalize p4.endBlock x = p5 at hr5 hs5
        split
        · obtain ⟨i1, i2⟩ := hr5.setIndent ((p.indent : Int) + (parseListMarker p.bytesAfterIndent).stop.toNat + 1)
          obtain ⟨l1, l2, _, _⟩ := consumeLine_frame (p5.setContainerIndent ((p.indent : Int) + (parseListMarker p.bytesAfterIndent).stop.toNat + 1))
          exact StartT.of_run2 (i1.cur l1) (Or.inr (l2 (by rw [i2]; exact Or.inr hs5)))
        · split
          · obtain ⟨i1, i2⟩ := hr5.setIndent ((p.indent : Int) + (parseListMarker p.bytesAfterIndent).stop.toNat + 1)
            exact StartT.of_run2 i1 (Or.inl (by rw [i2]; exact hs5))
          · split
            · obtain ⟨d1, d2⟩ := consumeIndentN_frame p5 1
              obtain ⟨i1, i2⟩ := (hr5.cur d1).setIndent ((p.indent : Int) + (parseListMarker p.bytesAfterIndent).stop.toNat + 1)
              exact StartT.of_run2 i1 (Or.inl (by rw [i2]; exact d2.om hs5))
            · obtain ⟨d1, d2⟩ := consumeIndentN_frame p5 p5.indent
              obtain ⟨i1, i2⟩ := (hr5.cur d1).setIndent ((p.indent : Int) + (parseListMarker p.bytesAfterIndent).stop.toNat + p5.indent)
              exact StartT.of_run2 i1 (Or.inl (by rw [i2]; exact d2.om hs5))

end CM.Proofs
