import CM.Proofs.ReparseBlocks
/-
C16, Layer B, part 12: `blocksLP x` meets the session invariant (`sessB`) and — for the kinds `GoodK` (all leaf blocks),
paragraphs that begin with `[` under the hypothesis `ParaCloseLocal x` — the residual obligation `CloseIndep` of Layer U.
-/
namespace CM.Proofs.Rp
open CM CM.Model CM.Gen CM.Proofs

/-! ### The session invariant -/

theorem BI.fresh (x : PExt) (ln : Bytes) (hl : IsLine ln) (hb : isBlankLine ln = false) (hnn : NoNul ln) :
    BI ln ((blocksLP x).line ((blocksLP x).new []) ln 0) := by
  have hfl := first_line x ln hb
  have hne : ln ≠ [] := by intro e; rw [e] at hb; cases hb
  refine ⟨blocks_fresh x ln hb, blocksLP_line_LPG x _ (new_LPG x [] (fun _ h => by cases h)) ln 0, hnn, hne, ?_, ?_, ?_, ?_⟩
  case refine_4 =>
    intro k hk hko
    have hroot : RootOK 0 0 0 ((blocksLP x).new []).root := docRoot_ok [] (Kids.nil 0 0) (fun _ h => (by cases h))
    have := line_step onCloseParagraph_cuts x ((blocksLP x).new []) [] ln hroot (fun h' => by cases h') ⟨[], rfl⟩
      (padded_of_noNul hnn) hl (fun h' => by cases h'.1) (Or.inl ⟨rfl, rfl, fun h' => by cases h'⟩)
    have hp := this.para k (by
      show ((blocksLP x).line ((blocksLP x).new []) ln 0).root.blocks.getLast? = some k
      rw [hk]; rfl) hko
    simpa using hp
  · intro k rest hk hko
    generalize (blocksLP x).line ((blocksLP x).new []) ln 0 = σ' at hk hfl
    cases hfl with
    | single k' e1 e2 _ _ =>
      rw [e1] at hk
      simp only [List.cons.injEq] at hk
      left; rw [← hk.1]; exact e2 (by rw [hk.1]; exact hko)
    | container h' m' e1 e2 =>
      rw [e1] at hk
      simp only [List.cons.injEq] at hk
      rw [← hk.1]
      rcases e2 with e2 | e2
      · right; left; exact e2
      · right; right; left; exact e2
  · intro k rest hk _ _ hg
    generalize (blocksLP x).line ((blocksLP x).new []) ln 0 = σ' at hk hfl
    cases hfl with
    | single k' e1 e2 _ _ =>
      rw [e1] at hk
      simp only [List.cons.injEq] at hk
      exact hk.2.symm
    | container h' m' e1 e2 =>
      exfalso
      rw [e1] at hk
      simp only [List.cons.injEq] at hk
      rw [← hk.1] at hg
      rcases e2 with e2 | e2
      · rw [e2] at hg; exact hg.not_container (Or.inl rfl)
      · rw [e2] at hg; exact hg.not_container (Or.inr (Or.inl rfl))
  · intro k rest hk hko hkind
    generalize (blocksLP x).line ((blocksLP x).new []) ln 0 = σ' at hk hfl
    cases hfl with
    | single k' e1 _ _ e4 =>
      rw [e1] at hk
      simp only [List.cons.injEq] at hk
      rw [← hk.1]; exact e4 (by rw [hk.1]; exact hko) (by rw [hk.1]; exact hkind)
    | container h' m' e1 e2 =>
      exfalso
      rw [e1] at hk
      simp only [List.cons.injEq] at hk
      rw [hk.1] at e2
      unfold PB.kind at e2
      rw [hkind] at e2
      rcases e2 with e2 | e2 <;> exact absurd e2 (by decide)

theorem BI.step (x : PExt) {src : Bytes} {σ : LP} (h : BI src σ) (ho : headOpen ((blocksLP x).kids σ) = true)
    (ln : Bytes) (hl : IsLine ln) (hnn : NoNul ln) (hj : ¬ CRLFSplit src ln) :
    BI (src ++ ln) ((blocksLP x).line σ (src ++ ln) src.length) := by
  have hne : ln ≠ [] := hl.1
  obtain ⟨k0, hb, hko⟩ := headOpen_single (x := x) h.inv ho
  obtain ⟨b1, b2, b3⟩ := line_BI_basic x h ln hne hnn
  refine ⟨b1, b2, b3, by simp [hne], line_headKind x h k0 hb hko ln hne, ?_, line_spans x h k0 hb hko ln hne,
    line_para x h k0 hb hko ln hl hnn hj⟩
  intro k rest hk hkc hks hg
  rcases line_good x h k0 hb hko ln k rest hk hkc hg with ⟨e1, _⟩ | ⟨_, _, _, e2, _, _⟩
  · exact e1
  · exfalso
    rw [e2] at hks
    have := List.length_pos_iff.mpr hne
    simp only [Int.toNat_natCast, List.length_append] at hks
    omega

/-- **`blocksLP x` meets the session invariant of Layer U.** -/
def sessB (x : PExt) : Sess (blocksLP x) where
  I := BI
  fresh := fun ln hl hb hnn => BI.fresh x ln hl hb hnn
  step := fun σ src ln h ho _ hl hnn hj => BI.step x h ho ln hl hnn hj.2
  pos := fun σ src h => h.pos
  ne := fun σ src h => h.inv.2.1
  ends := fun σ src h k hk hc => (blocksLP_wellS x).ends σ src h.inv k hk hc
  eof := by
    intro σ src h ho hp
    rcases blocks_eof x σ src h.inv with ⟨m, hm⟩ | ⟨k, rest, e1, e2, e3, _⟩
    · have hp' : (blocksLP x).panicked (processLine x (LP.reset σ src src.length)) = none := hp
      rw [hm] at hp'; cases hp'
    · exact ⟨k, rest, e1, e2, e3⟩

/-! ### The residual obligation -/

/-- **Closing a paragraph reads nothing beyond it.** In a state of a fresh session whose only top-level block `k0` is
    an open paragraph and whose source `src` ends in a line ending: closing `k0` at `|src|` gives the same blocks
    whether or not a further line `ln` has been appended to the source. (The open obligation of this development for
    paragraph roots that begin with `[`; without `terminated src` the statement is false:
    `paraCloseLocal_unterminated_false`.) -/
def ParaCloseLocal (x : PExt) : Prop :=
  ∀ (src : Bytes) (σ : LP) (k0 : PB) (ln : Bytes), BI src σ → σ.root.blocks = [k0] → k0.label.stop < 0 →
    k0.label.kind = BK.paragraph → ln ≠ [] → NoNul ln → terminated src = true →
    closeBlock x (src ++ ln) (src.length : Int) k0 = closeBlock x src (src.length : Int) k0

/-- The first content byte of the paragraph `k` (whose `Source` is `src`) is not `[`: no link reference definition
    can be split off it, whatever follows. -/
def NoBracket (src : Bytes) (k : PB) : Prop :=
  ∀ first rest, k.inlines = first :: rest → src.getD first.label.start.toNat 0 ≠ 0x5B

/-- The roots covered: the kinds `GoodK` … -/
def Good (_x : PExt) (k : PB) : Prop := GoodK k.kind

/-- … and a paragraph either does not begin with `[`, or `ParaCloseLocal` is assumed. -/
def Good2 (x : PExt) (src : Bytes) (k : PB) : Prop := k.kind = BK.paragraph → (ParaCloseLocal x ∨ NoBracket src k)

theorem current_ne_bracket (src : Bytes) (r : Rd) (h : src.getD r.pos 0 ≠ 0x5B) : (r.current src).1 ≠ 0x5B := by
  unfold Rd.current
  split
  · show (0 : UInt8) ≠ 0x5B; decide
  · simp only []
    have hp := (currentNode_pos r).1
    have hv : ∀ v : Nat, nullReplacementString.getD v 0 ≠ (0x5B : UInt8) := by
      intro v
      match v with
      | 0 => decide
      | 1 => decide
      | 2 => decide
      | n + 3 => simp [nullReplacementString, List.getD]
    split
    · split
      · show SP ≠ 0x5B; decide
      · split
        · exact hv _
        · rw [hp]; exact h
    · split
      · exact hv _
      · rw [hp]; exact h

/-- A paragraph that does not begin with `[` is returned as it is by `onCloseParagraph`, whatever the source beyond
    that byte. -/
theorem onCloseParagraph_noBracket (x : PExt) (src : Bytes) (l : PLabel) (is : List Tree)
    (h : ∀ first rest, is = first :: rest → src.getD first.label.start.toNat 0 ≠ 0x5B) :
    onCloseParagraph x src (.mk l [] is) = [.mk l [] is] := by
  unfold onCloseParagraph
  cases is with
  | nil => rfl
  | cons first rest =>
    simp only []
    have hc := current_ne_bracket src (newReader (first :: rest) first.label.start.toNat) (h first rest rfl)
    have hl : (parseLinkLabel src (rdFuel src (first :: rest)) (newReader (first :: rest) first.label.start.toNat)).1 = noLabel := by
      unfold parseLinkLabel
      simp only []
      rw [if_pos (by simpa using hc)]
    have hv : (parseLinkLabel src (rdFuel src (first :: rest)) (newReader (first :: rest) first.label.start.toNat)).1.span.isValid = false := by
      rw [hl]; rfl
    show refDefLoop x src _ ((first :: rest).length + 1 + 1) _ l (first :: rest) [] = _
    unfold refDefLoop
    simp only [hv, Bool.not_false, if_true, List.nil_append]

theorem closeBlock_para_eq (x : PExt) (src : Bytes) (e : Int) (l : PLabel) (is : List Tree) (ho : l.stop < 0)
    (hk : l.kind = BK.paragraph) :
    closeBlock x src e (.mk l [] is) = onCloseParagraph x src (.mk { l with stop := e } [] is) := by
  rw [closeBlock]
  have hcl : ¬ l.stop ≥ 0 := by omega
  simp only [hcl, if_false, hk]
  rfl

/-- The end-of-input line produces the same single block as the closing line did. -/
theorem close_src_indep (x : PExt) {src : Bytes} {σ : LP} (h : BI src σ) (k0 : PB) (hb : σ.root.blocks = [k0])
    (ho : k0.label.stop < 0) (hl : LeafK k0.kind) (hk0 : k0.blocks = []) (ln : Bytes) (hne : ln ≠ []) (hnn : NoNul ln)
    (hterm : terminated src = true) (k h0 : PB)
    (hgood : Good x k) (hgood2 : Good2 x src k) (hfl : FlagRel h0 k)
    (hc : closeBlock x (src ++ ln) (src.length : Int) k0 = [h0]) :
    closeBlock x src (src.length : Int) k0 = [h0] := by
  have hnd : h0.kind ≠ BK.linkRefDef := by
    unfold PB.kind; rw [← hfl.label.2]; exact goodK_not_def hgood
  obtain ⟨_, _, hkind0, hshape⟩ := closeBlock_leaf x (src ++ ln) _ k0 h0 [] ho hk0 hl hc hnd
  have hkind : k.label.kind = k0.label.kind := by rw [hfl.label.2, hkind0]
  cases k0 with
  | mk l0 bs0 is0 =>
    simp only [PB.blocks] at hk0
    subst hk0
    have hkind : k.label.kind = l0.kind := hkind
    have hshape : l0.kind ≠ BK.indentedCode → h0 = .mk { l0 with stop := (src.length : Int) } [] is0 := hshape
    simp only [PB.label] at ho
    rcases hl with hk1 | hk1 | hk1 | hk1
    · -- paragraph: the hypothesis
      have hk1' : l0.kind = BK.paragraph := hk1
      rcases hgood2 (by unfold PB.kind; rw [hkind]; exact hk1') with hpl | hnb
      · rw [← hpl src σ (.mk l0 [] is0) ln h hb ho hk1' hne hnn hterm]
        exact hc
      · have hs := hshape (by rw [hk1']; decide)
        have hinl : k.inlines = is0 := by rw [hfl.inlines, hs]; rfl
        rw [closeBlock_para_eq x _ _ l0 is0 ho hk1', hs]
        exact onCloseParagraph_noBracket x src _ is0 (fun first rest e => hnb first rest (by rw [hinl, e]))
    · rw [← hc, closeBlock_plain x src _ l0 is0 ho (Or.inl hk1), closeBlock_plain x _ _ l0 is0 ho (Or.inl hk1)]
    · rw [← hc, closeBlock_plain x src _ l0 is0 ho (Or.inr hk1), closeBlock_plain x _ _ l0 is0 ho (Or.inr hk1)]
    · -- indented code: the inline children lie inside `src`
      rw [← hc]
      exact (closeBlock_icode_indep x src ln _ l0 is0 ho hk1 (h.spans _ [] hb ho hk1)).symm

/-- Along a continued session the first child, once closed (and of a `GoodK` kind), ends at or after the point where
    the continuation started. -/
theorem feed_stop (x : PExt) {σ : (blocksLP x).σ} {src : Bytes} {σ' : (blocksLP x).σ} {src' : Bytes}
    (hF : Feed (blocksLP x) σ src σ' src') :
    BI src σ → headOpen ((blocksLP x).kids σ) = true → ∀ k rest, (blocksLP x).kids σ' = k :: rest → 0 ≤ k.label.stop →
    GoodK k.kind → (src.length : Int) ≤ k.label.stop := by
  induction hF with
  | one σ src ln hln hnn =>
    intro h ho k rest hk hkc hg
    obtain ⟨k0, hb, hko⟩ := headOpen_single (x := x) h.inv ho
    rcases line_good x h k0 hb hko ln k rest hk hkc hg with ⟨_, e⟩ | ⟨_, _, _, e, _, _⟩
    · rw [e]; simp only [List.length_append, Int.natCast_add]; omega
    · rw [e]; exact Int.le_refl _
  | cons σ src ln σ' src' hl hnn hj ho1 hp1 _ ih =>
    intro h ho k rest hk hkc hg
    have h1 := BI.step x h ho ln hl hnn hj.2
    have := ih h1 ho1 k rest hk hkc hg
    have hlen : ((src ++ ln).length : Int) = (src.length : Int) + (ln.length : Int) := by simp
    omega

/-- **`CloseIndep` for the real block parser**, with `E = SameTree`. -/
theorem closeIndepB (x : PExt) : CloseIndep (blocksLP x) (sessB x) (Good x) (Good2 x) SameTree where
  close := by
    intro σ src σ' src' k rest hI ho hpan hF hp' hk hkc hks hgood hgood2
    have h : BI src σ := hI
    obtain ⟨k0, hb, hko⟩ := headOpen_single (x := x) h.inv ho
    have hkc' : 0 ≤ k.label.stop := by simpa [PB.isOpen] using hkc
    have hks' : k.label.stop = (src.length : Int) := by unfold stopOf at hks; omega
    have hpe : (blocksLP x).panicked ((blocksLP x).line σ src src.length) = none :=
      (blocksLP_line_LPG x σ h.g src src.length).panic
    refine ⟨hpe, ?_⟩
    cases hF with
    | one _ _ ln hln hnn =>
      rcases line_good x h k0 hb hko ln k rest hk hkc' hgood with ⟨e1, e2⟩ | ⟨hne, hl, hk0, _, h0, hc, hfl⟩
      · -- closed at the end of what was fed: it was the end-of-input line
        have hln0 : ln = [] := by
          rw [hks'] at e2
          have : ln.length = 0 := by simp at e2; omega
          exact List.eq_nil_of_length_eq_zero this
        subst hln0
        rw [List.append_nil] at hk
        subst e1
        exact ⟨k, hk, hkc, hks, SameTree.refl k⟩
      · -- closed at the start of the next line
        have hterm : terminated src = true := by
          rcases hln with e | ⟨_, e⟩
          · exact absurd e hne
          · exact e.1
        have hce := close_src_indep x h k0 hb hko hl hk0 ln hne hnn hterm k h0 hgood hgood2 hfl hc
        have he := eof_line x σ src k0 h.inv hb hko (hasMatch_leaf hl)
        rw [hce] at he
        have hst : h0.label.stop = (src.length : Int) := by rw [← hfl.label.1]; exact hks'
        refine ⟨_, he, ?_, ?_, ?_⟩
        · simp only [PB.isOpen]; exact decide_eq_false (by omega)
        · unfold stopOf; rw [hst]; exact Int.toNat_natCast _
        · exact (hfl.tree).symm
    | cons _ _ ln _ _ hl hnn hj ho1 hp1 hF' =>
      -- the first child stayed open over the next line: it cannot end where that line started
      exfalso
      have h1 := BI.step x h ho ln hl hnn hj.2
      have := feed_stop x hF' h1 ho1 k rest hk hkc' hgood
      have hlen : ((src ++ ln).length : Int) = (src.length : Int) + (ln.length : Int) := by simp
      have hpos := List.length_pos_iff.mpr hl.1
      omega
  stopsFresh := by
    intro ln k rest _ hb _ hk hkc hgood
    have hfl := first_line x ln hb
    have hk' : ((blocksLP x).line ((blocksLP x).new []) ln 0).root.blocks = k :: rest := hk
    generalize (blocksLP x).line ((blocksLP x).new []) ln 0 = σ' at hk' hfl
    have hkc' : 0 ≤ k.label.stop := by simpa [PB.isOpen] using hkc
    cases hfl with
    | single k' e1 _ e3 _ =>
      rw [e1] at hk'
      simp only [List.cons.injEq] at hk'
      have := e3 (by rw [hk'.1]; exact hkc')
      rw [hk'.1] at this
      unfold stopOf; omega
    | container h' m' e1 e2 =>
      exfalso
      rw [e1] at hk'
      simp only [List.cons.injEq] at hk'
      have hg : GoodK k.kind := hgood
      rw [← hk'.1] at hg
      rcases e2 with e2 | e2
      · rw [e2] at hg; exact hg.not_container (Or.inl rfl)
      · rw [e2] at hg; exact hg.not_container (Or.inr (Or.inl rfl))
  stops := by
    intro σ src ln k rest hI ho _ _ hk hkc hgood
    have h : BI src σ := hI
    obtain ⟨k0, hb, hko⟩ := headOpen_single (x := x) h.inv ho
    have hkc' : 0 ≤ k.label.stop := by simpa [PB.isOpen] using hkc
    rcases line_good x h k0 hb hko ln k rest hk hkc' hgood with ⟨_, e⟩ | ⟨_, _, _, e, _, _⟩
    · right; unfold stopOf; rw [e]; exact Int.toNat_natCast _
    · left; unfold stopOf; rw [e]; exact Int.toNat_natCast _
  last := by
    intro σ src k rest hI hk hkc hks hgood
    have h : BI src σ := hI
    exact ⟨h.last k rest hk (by simpa [PB.isOpen] using hkc) hks hgood, SameTree.refl k⟩
  lastEof := by
    intro σ src k rest hI ho hpan hk hkc hks hgood
    have h : BI src σ := hI
    obtain ⟨k0, hb, hko⟩ := headOpen_single (x := x) h.inv ho
    have hk' : ((blocksLP x).line σ (src ++ []) src.length).root.blocks = k :: rest := by rw [List.append_nil]; exact hk
    rcases line_good x h k0 hb hko [] k rest hk' (by simpa [PB.isOpen] using hkc) hgood with ⟨e1, _⟩ | ⟨hne, _⟩
    · exact ⟨e1, SameTree.refl k⟩
    · exact absurd rfl hne

end CM.Proofs.Rp
