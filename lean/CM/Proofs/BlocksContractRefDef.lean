import CM.Proofs.BlocksContractRdWalk
import CM.Props.C01Contract
/-
C01 contract for the real block parser — `refDefLoop` / `onCloseParagraph` on a paragraph child of the document:
`onCloseParagraph_cuts : onCloseParagraph_cuts_target`.
-/
namespace CM.Proofs
open CM CM.Model CM.Gen

/-! ### Chains of definitions -/

theorem defChain_append {src : Bytes} {b : Nat} : ∀ {lo : Int} {a c : List PB},
    DefChain src b lo (a ++ c) ↔ DefChain src b lo a ∧ DefChain src b (lastStop lo a) c := by
  intro lo a
  induction a generalizing lo with
  | nil => intro c; simp [DefChain, lastStop]
  | cons x t ih =>
    intro c
    simp only [List.cons_append, DefChain, lastStop, ih, and_assoc]

theorem defChain_snoc {src : Bytes} {b : Nat} {lo : Int} {res : List PB} {d : PB} (h : DefChain src b lo res)
    (h1 : lastStop lo res < d.label.stop) (h2 : d.label.stop ≤ (b : Int)) (h3 : LocalCut src b d.label.stop) :
    DefChain src b lo (res ++ [d]) :=
  defChain_append.mpr ⟨h, h1, h2, h3, trivial⟩

/-- The result of the loop of `onCloseParagraph`. -/
def LoopOut (src : Bytes) (b : Nat) (a0 : Int) (orphan : Option PB) (e : Int) (out : List PB) : Prop :=
  ∃ pre tail, out = pre ++ tail ∧ DefChain src b a0 pre ∧
    ((tail = [] ∧ pre ≠ [] ∧ orphan = none ∧ Gap src (lastStop a0 pre).toNat b) ∨
     (∃ last, tail = [last] ∧ last.label.stop = e ∧ lastStop a0 pre < (b : Int)) ∨
     (∃ o, tail = [o] ∧ pre ≠ [] ∧ orphan = some o))

theorem LoopOut.giveUp {src : Bytes} {b : Nat} {a0 : Int} {orphan : Option PB} {result : List PB} {last : PB}
    (hr : DefChain src b a0 result) (hlt : lastStop a0 result < (b : Int)) :
    LoopOut src b a0 orphan last.label.stop (result ++ [last]) :=
  ⟨result, [last], rfl, hr, Or.inr (Or.inl ⟨last, rfl, rfl, hlt⟩)⟩

/-- `withOrphan` of `refDefLoop`. -/
def withOrph (orphan : Option PB) (res : List PB) : List PB :=
  match orphan with
  | some o => res ++ [o]
  | none => res

/-- All the text was definitions (`withOrphan`). -/
theorem LoopOut.withOrphan {src : Bytes} {b : Nat} {a0 : Int} {orphan : Option PB} {e : Int} {res : List PB} {d : PB}
    (hr : DefChain src b a0 (res ++ [d])) (hg : Gap src d.label.stop.toNat b) :
    LoopOut src b a0 orphan e (withOrph orphan (res ++ [d])) := by
  cases orphan with
  | none => exact ⟨res ++ [d], [], by simp [withOrph], hr, Or.inl ⟨rfl, by simp, rfl, by rw [lastStop_concat]; exact hg⟩⟩
  | some o => exact ⟨res ++ [d], [o], rfl, hr, Or.inr (Or.inr ⟨o, rfl, by simp, rfl⟩)⟩

theorem loopOut_ite {src : Bytes} {b : Nat} {a0 : Int} {o : Option PB} {e : Int} {c : Prop} [Decidable c] {x y : List PB}
    (h1 : c → LoopOut src b a0 o e x) (h2 : ¬ c → LoopOut src b a0 o e y) : LoopOut src b a0 o e (if c then x else y) := by
  split
  · exact h1 ‹_›
  · exact h2 ‹_›

theorem mkPB_stop (k : Nat) (a e : Int) (is : List Tree) : (mkPB k a e is).label.stop = e := rfl

theorem RW.pos_le {b : Nat} {r : Rd} (h : RW b r) : r.pos ≤ b := by
  rcases h.sp with ⟨_, _, _, hlt⟩ | ⟨_, hp⟩ <;> omega

/-- Where the rest of the text starts (`nodeIndexForPosition`), for a position inside the text or at its end. -/
theorem nodeIndex_cases {is : List Tree} {a' b pos : Nat} (hc : ContigL is a' b) (h1 : a' ≤ pos) (h2 : pos ≤ b) :
    (nodeIndexForPosition is pos 0 = none ∧ pos = b) ∨
    (∃ (fc : Nat) (t : Tree) (rest : List Tree) (s : Nat), nodeIndexForPosition is pos 0 = some fc ∧ is.drop fc = t :: rest ∧
      ContigL (t :: rest) s b ∧ s ≤ pos ∧ pos < b) := by
  by_cases hlt : pos < b
  · right
    obtain ⟨i, t, rest, s, e, i1, i2, i3, i4, _, _⟩ := nodeIndex_contig 0 hc h1 hlt
    exact ⟨i, t, rest, s, by rw [i1, Nat.zero_add], i2, i3, i4, hlt⟩
  · left
    exact ⟨nodeIndex_contig_none 0 hc (by omega), by omega⟩


theorem refDefLoop_cuts (x : PExt) (src : Bytes) (orphan : Option PB) {b : Nat} (hb : b ≤ src.length) (a0 : Int) :
    ∀ (fuel : Nat) (r : Rd) (l : PLabel) (is : List Tree) (result : List PB) (a' : Nat),
      RW b r → ContigL is a' b → a' ≤ r.pos → r.pos < b → DefChain src b a0 result → lastStop a0 result ≤ (r.pos : Int) →
      LoopOut src b a0 orphan l.stop (refDefLoop x src orphan fuel r l is result) := by
  intro fuel
  induction fuel with
  | zero =>
    intro r l is result a' _ _ _ hlt hr hm
    exact LoopOut.giveUp (last := PB.mk l [] is) hr (by omega)
  | succ fuel ih =>
    intro r l is result a' hrw hcl ha hlt hr hm
    have hgive : LoopOut src b a0 orphan l.stop (result ++ [PB.mk l [] is]) :=
      LoopOut.giveUp (last := PB.mk l [] is) hr (by omega)
    have hI := rwl_closed (src := src) (b := b) (lb := r.pos + 1) hb
    obtain ⟨kf, hkf⟩ := rdFuel_pos src is
    have hfl : ∀ q : Rd, b - q.pos < rdFuel src is := fun q => by have := rdFuel_gt src is; omega
    rcases e1 : parseLinkLabel src (rdFuel src is) r with ⟨label, r1⟩
    have k1 : label.span.isValid = true → RWL b (r.pos + 1) r1 := by
      intro hv
      have := parseLinkLabel_adv hb kf r hrw (by rw [← hkf, e1]; exact hv)
      rw [← hkf, e1] at this; exact this
    rcases e2 : r1.current src with ⟨c2, r2⟩
    rcases e3 : r2.next src with ⟨ok3, r3⟩
    rcases e4 : skipLinkSpace src (rdFuel src is) r3 with ⟨ok4, r4⟩
    rcases e5 : parseLinkDestination src (rdFuel src is) r4 with ⟨dest, r5⟩
    rcases e6 : readEOL src (rdFuel src is) r5 with ⟨destEOL, r6⟩
    rcases e7 : r6.current src with ⟨c7, r7⟩
    rcases e8 : skipLinkSpace src (rdFuel src is) r7 with ⟨ok8, r8⟩
    rcases e9 : parseLinkTitle src (rdFuel src is) r8 with ⟨title, r9⟩
    rcases e10 : readEOL src (rdFuel src is) r9 with ⟨titleEOL, r10⟩
    -- the readers
    have chain : label.span.isValid = true → RWL b (r.pos + 1) r5 ∧ RWL b (r.pos + 1) r6 ∧ RWL b (r.pos + 1) r7 ∧
        RWL b (r.pos + 1) r9 ∧ RWL b (r.pos + 1) r10 := by
      intro hv
      have q1 := k1 hv
      have q2 := hI.cur' q1 e2
      have q3 := hI.nxt' q2 e3
      have q4 : RWL b (r.pos + 1) r4 := by have := skipLinkSpace_I hI (rdFuel src is) r3 q3; rw [e4] at this; exact this
      have q5 : RWL b (r.pos + 1) r5 := by have := parseLinkDestination_I hI (rdFuel src is) r4 q4; rw [e5] at this; exact this
      have q6 : RWL b (r.pos + 1) r6 := by have := readEOL_I hI (rdFuel src is) r5 q5; rw [e6] at this; exact this
      have q7 := hI.cur' q6 e7
      have q8 : RWL b (r.pos + 1) r8 := by have := skipLinkSpace_I hI (rdFuel src is) r7 q7; rw [e8] at this; exact this
      have q9 : RWL b (r.pos + 1) r9 := by have := parseLinkTitle_I hI (rdFuel src is) r8 q8; rw [e9] at this; exact this
      have q10 : RWL b (r.pos + 1) r10 := by have := readEOL_I hI (rdFuel src is) r9 q9; rw [e10] at this; exact this
      exact ⟨q5, q6, q7, q9, q10⟩
    -- the two line ends
    have dspec : label.span.isValid = true →
        (destEOL = -1 ∧ ∃ c, r6.current src = (c, r6) ∧ c ≠ 0 ∧ isSpaceTabOrLineEnding c = false) ∨
        (destEOL = (r6.pos : Int) ∧ LocalCut src b destEOL) := fun hv =>
      (readEOL_spec hb (rdFuel src is) r5 (chain hv).1.1 (hfl r5) e6).2.2
    have tspec : label.span.isValid = true →
        (titleEOL = -1 ∧ ∃ c, r10.current src = (c, r10) ∧ c ≠ 0 ∧ isSpaceTabOrLineEnding c = false) ∨
        (titleEOL = (r10.pos : Int) ∧ LocalCut src b titleEOL) := fun hv =>
      (readEOL_spec hb (rdFuel src is) r9 (chain hv).2.2.2.1.1 (hfl r9) e10).2.2
    have hr7 : r7.pos = r6.pos := by have := current_pos src r6; rw [e7] at this; exact this
    -- a negative `destEOL` makes the second `skipLinkSpace` succeed
    have hneg : label.span.isValid = true → destEOL < 0 → ok8 = true := by
      intro hv hn
      rcases dspec hv with ⟨_, c, hc, c0, cs⟩ | ⟨he, _⟩
      · rw [hc] at e7
        simp only [Prod.mk.injEq] at e7
        obtain ⟨rfl, rfl⟩ := e7
        rw [hkf, skipLinkSpace_true kf hc c0 cs] at e8
        simp only [Prod.mk.injEq] at e8
        exact e8.1.symm
      · omega
    -- a definition that ends at `destEOL` / `titleEOL`
    have nbD : ∀ (d : PB), label.span.isValid = true → 0 ≤ destEOL → d.label.stop = destEOL →
        DefChain src b a0 (result ++ [d]) ∧ destEOL = (r6.pos : Int) := by
      intro d hv h0 hd
      rcases dspec hv with ⟨he, _⟩ | ⟨he, hlc⟩
      · omega
      · have h6 := (chain hv).2.1
        have := h6.1.pos_le
        have := h6.2
        exact ⟨defChain_snoc hr (by rw [hd, he]; omega) (by rw [hd, he]; omega) (by rw [hd]; exact hlc), he⟩
    have nbT : ∀ (d : PB), label.span.isValid = true → 0 ≤ titleEOL → d.label.stop = titleEOL →
        DefChain src b a0 (result ++ [d]) ∧ titleEOL = (r10.pos : Int) := by
      intro d hv h0 hd
      rcases tspec hv with ⟨he, _⟩ | ⟨he, hlc⟩
      · omega
      · have h10 := (chain hv).2.2.2.2
        have := h10.1.pos_le
        have := h10.2
        exact ⟨defChain_snoc hr (by rw [hd, he]; omega) (by rw [hd, he]; omega) (by rw [hd]; exact hlc), he⟩
    -- the rest of the text after a definition that ends at the reader `q`
    have afterDef : ∀ (q : Rd) (d : PB) (eol : Int), RWL b (r.pos + 1) q → DefChain src b a0 (result ++ [d]) →
        d.label.stop = eol → eol = (q.pos : Int) →
        LoopOut src b a0 orphan l.stop (match nodeIndexForPosition is q.pos 0 with
          | none => withOrph orphan (result ++ [d])
          | some fc => refDefLoop x src orphan fuel q { l with start := q.pos } (is.drop fc) (result ++ [d])) := by
      intro q d eol hq hdc hd he
      rcases nodeIndex_cases hcl (by have := hq.2; omega) hq.1.pos_le with ⟨hn, hpb⟩ | ⟨fc, t, rest, s, hn, hdrop, hct, hs, hqlt⟩
      · rw [hn]
        exact LoopOut.withOrphan hdc (by rw [hd, he, hpb, Int.toNat_natCast]; exact Gap.refl _ _)
      · rw [hn]
        simp only
        rw [hdrop]
        exact ih q { l with start := q.pos } (t :: rest) (result ++ [d]) s hq.1 hct hs hqlt hdc
          (by rw [lastStop_concat, hd, he]; exact Int.le_refl _)
    rw [refDefLoop]
    simp only [e1]
    simp only [e2]
    simp only [e3]
    simp only [e4]
    simp only [e5]
    simp only [e6]
    simp only [e7]
    simp only [e8]
    simp only [e9]
    simp only [e10]
    refine loopOut_ite (fun _ => hgive) (fun hv => ?_)
    have hv' : label.span.isValid = true := by simpa using hv
    refine loopOut_ite (fun _ => hgive) (fun _ => ?_)
    refine loopOut_ite (fun _ => hgive) (fun _ => ?_)
    refine loopOut_ite (fun _ => hgive) (fun _ => ?_)
    refine loopOut_ite (fun _ => hgive) (fun _ => ?_)
    refine loopOut_ite (fun hok => ?_) (fun _ => ?_)
    · -- the reader hit the end after the destination: all the rest is blank
      have hd0 : 0 ≤ destEOL := by
        by_cases hn : destEOL < 0
        · have := hneg hv' hn; simp [this] at hok
        · omega
      have hok8 : ok8 = false := by simpa using hok
      obtain ⟨hdc, he⟩ := nbD _ hv' hd0 (mkPB_stop _ _ _ _)
      have h7 := (chain hv').2.2.1
      have hg := skipLinkSpace_walk hb (rdFuel src is) r7 r8 h7.1 (hfl r7) (by rw [e8, hok8])
      refine LoopOut.withOrphan hdc ?_
      rw [mkPB_stop, he, Int.toNat_natCast, ← hr7]; exact hg
    · refine loopOut_ite (fun _ => ?_) (fun _ => ?_)
      · refine loopOut_ite (fun _ => hgive) (fun hd => ?_)
        have hd0 : 0 ≤ destEOL := by omega
        obtain ⟨hdc, he⟩ := nbD _ hv' hd0 (mkPB_stop _ _ _ _)
        exact afterDef r6 _ destEOL (chain hv').2.1 hdc (mkPB_stop _ _ _ _) he
      · refine loopOut_ite (fun _ => ?_) (fun ht => ?_)
        · refine loopOut_ite (fun _ => hgive) (fun hd => ?_)
          have hd0 : 0 ≤ destEOL := by omega
          obtain ⟨hdc, he⟩ := nbD _ hv' hd0 (mkPB_stop _ _ _ _)
          have h6 := (chain hv').2.1
          rcases nodeIndex_cases hcl (by have := h6.2; omega) h6.1.pos_le with ⟨hn, hpb⟩ | ⟨fc, t, rest, s, hn, hdrop, hct, hs, hqlt⟩
          · rw [hn]
            exact LoopOut.withOrphan hdc (by rw [mkPB_stop, he, hpb, Int.toNat_natCast]; exact Gap.refl _ _)
          · rw [hn]
            simp only
            exact LoopOut.giveUp (last := PB.mk { l with start := r6.pos } [] (is.drop fc)) hdc
              (by rw [lastStop_concat, mkPB_stop, he]; omega)
        · have ht0 : 0 ≤ titleEOL := by omega
          obtain ⟨hdc, he⟩ := nbT _ hv' ht0 (mkPB_stop _ _ _ _)
          exact afterDef r10 _ titleEOL (chain hv').2.2.2.2 hdc (mkPB_stop _ _ _ _) he


/-! ### onCloseParagraph -/

theorem ContigL.last_stop : ∀ {is : List Tree} {a b : Nat}, ContigL is a b → is ≠ [] →
    ∃ t, is.getLast? = some t ∧ t.label.stop = (b : Int) := by
  intro is
  induction is with
  | nil => intro a b _ h; exact absurd rfl h
  | cons t rest ih =>
    intro a b h _
    obtain ⟨_, _, c, t3, _, t5⟩ := h
    cases rest with
    | nil =>
      have : c = b := t5
      exact ⟨t, rfl, by rw [t3, this]⟩
    | cons u rest' =>
      obtain ⟨t', h1, h2⟩ := ih t5 (by simp)
      exact ⟨t', by rw [List.getLast?_cons_cons]; exact h1, h2⟩

theorem onCloseParagraph_cuts : onCloseParagraph_cuts_target := by
  intro x src l bs is a b hc hne hb hbe hset
  cases is with
  | nil => exact absurd rfl hne
  | cons first rest =>
    have hfirst : first.label.start = (a : Int) := hc.1
    have hstart : first.label.start.toNat = a := by rw [hfirst]; simp
    have hab : a < b := hc.lt hne
    have hrw : RW b (newReader (first :: rest) a) :=
      ⟨Or.inl ⟨a, hc, Nat.le_refl _, hab⟩, by show (-1 : Int) + 1 ≤ (a : Int); omega, by show 0 < 3; omega,
        fun hp => by have : a = b := hp; omega⟩
    have key : ∀ orphan, LoopOut src b (a : Int) orphan l.stop
        (refDefLoop x src orphan ((first :: rest).length + 2) (newReader (first :: rest) first.label.start.toNat) l (first :: rest) []) := by
      intro orphan
      rw [hstart]
      exact refDefLoop_cuts x src orphan hb (a : Int) _ _ l (first :: rest) [] a hrw hc (Nat.le_refl _) hab trivial (Int.le_refl _)
    by_cases hk : l.kind = BK.setextHeading
    · have hk' : (l.kind == BK.setextHeading) = true := by simpa using hk
      simp only [onCloseParagraph, hk', if_true]
      generalize hor : mkPB BK.paragraph _ (-1) [mkInline IK.unparsed _ l.stop] = orph
      obtain ⟨pre, tail, h1, h2, h3⟩ := key (some orph)
      refine ⟨pre, tail, h1, h2, ?_⟩
      rcases h3 with ⟨_, _, t3, _⟩ | ⟨last, t1, t2, t3⟩ | ⟨o, t1, t2, t3⟩
      · cases t3
      · exact Or.inr (Or.inl ⟨last, t1, t2, t3⟩)
      · refine Or.inr (Or.inr ⟨o, t1, t2, hk, ?_⟩)
        simp only [Option.some.injEq] at t3
        subst t3
        subst hor
        obtain ⟨tl, hl1, hl2⟩ := hc.last_stop hne
        obtain ⟨hs1, hs2⟩ := hset hk
        rw [hl1]
        simp only [Option.map_some, Option.getD_some, hl2, Int.toNat_natCast]
        refine ⟨by simp [mkPB, PB.label], by simp [mkPB, PB.label], by simp [mkPB, PB.blocks], ?_⟩
        have hbody : ((src.take l.stop.toNat).drop b).length = l.stop.toNat - b := by
          simp only [List.length_drop, List.length_take]; omega
        generalize (src.take l.stop.toNat).drop b = body at hbody ⊢
        have hw : (body.reverse.dropWhile isSpaceTabOrLineEnding).length ≤ body.length := by
          have := dropWhile_length_le isSpaceTabOrLineEnding body.reverse
          simpa using this
        generalize body.reverse.dropWhile isSpaceTabOrLineEnding = noWs at hw ⊢
        cases noWs with
        | nil =>
          refine ⟨_, b, rfl, by simp [Node.isI, mkInline, Tree.label], by simp only [mkInline_start], Nat.le_refl _, hs1, by simp only [mkInline_stop]⟩
        | cons u t =>
          have := dropWhile_length_le (· == u) (u :: t)
          simp only [List.length_cons] at this hw
          refine ⟨_, b + ((u :: t).dropWhile (· == u)).length, rfl, by simp [Node.isI, mkInline, Tree.label],
            by simp only [mkInline_start], by omega, ?_, by simp only [mkInline_stop]⟩
          have hd1 : ((u :: t).dropWhile (· == u)).length ≤ t.length := by
            rw [List.dropWhile_cons_of_pos (by simp)]
            exact dropWhile_length_le _ _
          omega
    · have hk' : (l.kind == BK.setextHeading) = false := by simpa using hk
      simp only [onCloseParagraph, hk', Bool.false_eq_true, if_false]
      obtain ⟨pre, tail, h1, h2, h3⟩ := key none
      refine ⟨pre, tail, h1, h2, ?_⟩
      rcases h3 with ⟨t1, t2, _, t4⟩ | ⟨last, t1, t2, t3⟩ | ⟨o, _, _, t3⟩
      · exact Or.inl ⟨t1, t2, hk, t4⟩
      · exact Or.inr (Or.inl ⟨last, t1, t2, t3⟩)
      · cases t3

/-! ### Non-vacuity -/

/-- The hypotheses of `onCloseParagraph_cuts` on a concrete text: the two lines `[a]: b⏎` and `[c]: d⏎`. -/
example : ContigL [mkInline IK.unparsed 0 7, mkInline IK.unparsed 7 14] 0 14 :=
  ⟨rfl, rfl, 7, rfl, by decide, rfl, rfl, 14, rfl, by decide, rfl⟩

/-- … and what the theorem says there: closed at 14 (the start of the next line), the paragraph consists of
    definitions only, ending at 7 and 14. -/
example : CloseParaSpec [91, 97, 93, 58, 32, 98, 10, 91, 99, 93, 58, 32, 100, 10, 10]
    { kind := BK.paragraph, start := 0, stop := 14 } 0 14
    (onCloseParagraph CM.Props.C01.x0 [91, 97, 93, 58, 32, 98, 10, 91, 99, 93, 58, 32, 100, 10, 10]
      (.mk { kind := BK.paragraph, start := 0, stop := 14 } [] [mkInline IK.unparsed 0 7, mkInline IK.unparsed 7 14])) :=
  onCloseParagraph_cuts _ _ _ _ _ 0 14 ⟨rfl, rfl, 7, rfl, by decide, rfl, rfl, 14, rfl, by decide, rfl⟩ (by simp) (by decide)
    (by decide) (fun h => by cases h)

example : (onCloseParagraph CM.Props.C01.x0 [91, 97, 93, 58, 32, 98, 10, 91, 99, 93, 58, 32, 100, 10, 10]
      (.mk { kind := BK.paragraph, start := 0, stop := 14 } [] [mkInline IK.unparsed 0 7, mkInline IK.unparsed 7 14])).map
      (fun b => (b.label.kind, b.label.start, b.label.stop)) = [(BK.linkRefDef, 0, 7), (BK.linkRefDef, 7, 14)] := by
  decide +kernel

end CM.Proofs
