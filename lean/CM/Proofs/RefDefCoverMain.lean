import CM.Proofs.RefDefCoverStream2
import CM.Proofs.RefDefSpansMain
/-
C03, block half — summary: the `RefDefCoverOK` hypothesis of `Cov.drain_coverage` / `Cov.drain_cover` is discharged.

* `refDefCoverOK`: the two Boolean checks of the checked block parser `blocksLPk` never fail on an in-memory run.
* `drain_coverage_uncond`: for every NUL-free input, `Spec.coverage` holds for every root block the block phase
  delivers — no hypothesis.
* `drain_cover_uncond`: the same with NUL bytes, about the padded buffer slice.

How the proof goes: (A, files `RefDefCoverRd1…3`, `…Collect1/2`, `…Loop`, `…Loop2`, `…Close`, `…Close2`) a paragraph whose
inline children are lines in the strong sense (`NodeOK2`: `RDS.NodeOK`, Indent nodes sit on TAB bytes, a text node ends
with a line ending or at the end of the source), leaves of kind Unparsed / Indent, is split by `onCloseParagraph` into
well-formed blocks that cover every byte needing coverage that the paragraph covered (`paraCover_of_nodes`): the
scanners only skip bytes that need no coverage (`NN`), `collectTextNodes` re-tiles the inner spans of label, destination
and title (`collect_ok`: it only drops backslashes before punctuation and positions between the lines), and the rest
of the paragraph keeps its inline children from the cut on; (B, files `RefDefCoverT*`) the block phase keeps "every
paragraph is made of lines in the strong sense, or does not begin with `[`" (`GoodT2`, `processLine_st2`);
(C, `RefDefCoverStream1/2`, this file) the stream machine keeps the joint invariant — spans (C02), `GoodT2`, the node grammar
(C05), well-formedness and coverage (C03) — from line to line and across `makeRoot`, and it makes both checks pass.
-/
namespace CM.Proofs.RDC
open CM CM.Model CM.Gen CM.Spec CM.Proofs CM.Proofs.BSp CM.Proofs.RDS CM.Proofs.Cov CM.Proofs.BT CM.Proofs.BG

theorem new_sessJ (x : PExt) (bs : List PB) (ls : Nat) (p : BP) (h : PBSpansL QT true 0 ls bs)
    (hg : ∀ b ∈ bs, GoodT2 (p.buf.take ls) (ls : Int) b) (hk : KidsOK bs) (hw : ∀ b ∈ bs, WF QT b)
    (hc : CovL p.buf ls bs) (hmk : ∀ k rest, bs = k :: rest → k.isOpen = true) (he : EolAt p.buf ls) :
    SessJ ls p ((blocksLP x).new bs) := by
  have hK := new_sessK x bs ls p h hw hc hmk
  exact ⟨new_LPInv' x bs, docRoot_spans bs ls (Int.natCast_nonneg _) h, Or.inl (by show (-1 : Int) < 0; decide),
    docRoot_good2 bs hg, docRoot_G bs hk, hK.wf, hK.cov, hK.fr, hK.fo, he⟩

theorem nextBlock_J (x : PExt) (buf0 : Bytes) (p : BP) (hp : BPJ buf0 p) :
    isCoverFail (nextBlock (blocksLPk x) p).1 = false ∧
    ∀ r p', nextBlock (blocksLPk x) p = (.block r, p') → BPJ buf0 p' := by
  have hb := hp.k.sp
  unfold nextBlock
  cases hmk : makeRoot p p.blocks with
  | some rp =>
    obtain ⟨r0, p0⟩ := rp
    refine ⟨rfl, fun r p' h => ?_⟩
    simp only [Prod.mk.injEq, NBOut.block.injEq] at h
    obtain ⟨rfl, rfl⟩ := h
    have hK := makeRoot_K buf0 p p.blocks true 0 p.i hb.err hb.ile (Int.le_refl _) (Int.le_refl _) hb.blocks hp.k.wf hp.k.cov
      hp.k.sub _ _ hmk
    obtain ⟨m1, m2, m3⟩ := makeRoot_good2 p p.blocks true 0 hb.ile hb.blocks hp.good hp.np hp.eol _ _ hmk
    exact ⟨hK.2, m1, (makeRoot_G hmk hp.kids).2, m2, m3⟩
  | none =>
    simp only []
    have hrl : readline (p.rd.data.length + p.rd.sched.length + 2) p =
        (decide (0 < lineLen (p.buf.drop p.i)), { p with i := p.i + lineLen (p.buf.drop p.i) }) :=
      CM.Model.readline_mem (p.rd.data.length + p.rd.sched.length + 1) p hb.err hb.ile
    have hi2 : p.i + lineLen (p.buf.drop p.i) ≤ p.buf.length := by
      have := lineLen_le (p.buf.drop p.i)
      simp only [List.length_drop] at this
      have := hb.ile
      omega
    split
    · -- left-over blocks: continue their session
      simp only [hrl]
      exact parseLines_J x buf0 _ _ p.i ({ p with i := p.i + lineLen (p.buf.drop p.i) } : BP) hb.err hi2 rfl hp.k.sub hp.np
        (new_sessJ x p.blocks p.i _ hb.blocks hp.good hp.kids hp.k.wf hp.k.cov (fun k rest e => by
          rw [e] at hmk; exact makeRoot_none_open hmk) hp.eol)
    · -- a fresh session
      rename_i hlen
      have hbl : p.blocks = [] := by
        cases hb' : p.blocks with
        | nil => rfl
        | cons a t => rw [hb'] at hlen; simp at hlen
      split
      · rename_i q' hsb
        obtain ⟨hq'np, _⟩ := skipBlank_np _ _ _ _ (by exact hb.err) rfl (by exact hp.np) hsb
        refine ⟨?_, fun r p' h => ?_⟩
        · cases hpn : q'.panic with
          | none => rfl
          | some m =>
            simp only [isCoverFail, beq_eq_false_iff_ne, ne_eq]
            intro e; apply hq'np; rw [hpn, e]
        · cases hpn : q'.panic with
          | none => rw [hpn] at h; simp at h
          | some m => rw [hpn] at h; simp at h
      · rename_i q q2 hsb
        obtain ⟨_, hq⟩ := skipBlank_np _ _ _ _ (by exact hb.err) rfl (by exact hp.np) hsb
        have hqnp := hq q rfl
        obtain ⟨q1, q2', q3, q4, q5⟩ := skipBlank_K _ _ q q2 (by exact hb.err) (by simp) rfl hsb
        have hqb : q.blocks = [] := by rw [q3]; exact hbl
        rw [hqb]
        exact parseLines_J x buf0 _ _ 0 q q1 q2' q4 (fun c hc => hp.k.sub c (List.mem_of_mem_drop (q5 c hc))) hqnp
          (new_sessJ x [] 0 q (PBSpansL_nil _ _ _ _) (fun _ h => by cases h) (fun _ h => by cases h) (fun _ h => by cases h)
            (fun j hj => by omega) (fun _ _ e => by cases e) (Or.inl rfl))

theorem drain_J (x : PExt) (buf0 : Bytes) : ∀ (fuel : Nat) (p : BP) (acc : List Root), BPJ buf0 p →
    isCoverFail (drain (blocksLPk x) fuel p acc).2.1 = false := by
  intro fuel
  induction fuel with
  | zero => intro p acc _; simp only [drain]; decide
  | succ fuel ih =>
    intro p acc hp
    obtain ⟨h1, h2⟩ := nextBlock_J x buf0 p hp
    unfold drain
    cases hnb : nextBlock (blocksLPk x) p with
    | mk o p' =>
      rw [hnb] at h1
      cases o with
      | block r => exact ih p' (r :: acc) (h2 r p' hnb)
      | err e => rfl
      | panic m => exact h1

theorem memParser_J (inp : Bytes) : BPJ (padNulls inp 0) (memParser inp) :=
  ⟨memParser_K inp, fun _ h => (by cases h), fun _ h => (by cases h), fun h => (by cases h), Or.inl rfl⟩

/-- **The `RefDefCoverOK` check (and the `RefDefSpansOK` check) never fails** on a run of the checked block parser on an
    in-memory input. -/
theorem refDefCoverOK : ∀ (x : PExt) (inp : Bytes) (fuel : Nat),
    isCoverFail (drain (blocksLPk x) fuel (memParser inp) []).2.1 = false :=
  fun x inp fuel => drain_J x (padNulls inp 0) fuel (memParser inp) [] (memParser_J inp)

/-- **C03 for the block phase, unconditionally** (input without NUL bytes): the executable statement `Spec.coverage` —
    no byte of `Source` covered twice, every letter, digit and byte ≥ 0x80 covered exactly once — holds for every root block
    the block parser delivers on an in-memory input. -/
theorem drain_coverage_uncond (x : PExt) (inp : Bytes) (fuel : Nat) (hz : ∀ c ∈ inp, c ≠ 0) :
    ∀ r ∈ (drain (blocksLP x) fuel (memParser inp) []).1, coverage r.source (pbToTree r.block) = true :=
  Cov.drain_coverage x inp fuel hz (refDefCoverOK x inp fuel)

/-- **With NUL bytes**: every root block has valid spans, is well formed, and covers every needed byte (a NUL counts) of
    the slice of the padded buffer its `Source` was made from. -/
theorem drain_cover_uncond (x : PExt) (inp : Bytes) (fuel : Nat) :
    ∀ r ∈ (drain (blocksLP x) fuel (memParser inp) []).1, RootK (padNulls inp 0) r :=
  Cov.drain_cover x inp fuel (refDefCoverOK x inp fuel)

/-- The checked machine is the machine, always. -/
theorem drainK_checked_eq_uncond (x : PExt) (inp : Bytes) (fuel : Nat) :
    drain (blocksLP x) fuel (memParser inp) [] = drain (blocksLPk x) fuel (memParser inp) [] :=
  drainK_checked_eq x fuel _ [] (refDefCoverOK x inp fuel)

/-! ### Non-vacuity -/

section Examples

/-- Link reference definitions with a title over two lines, CRLF line endings, escapes and an entity, a partially consumed
    tab inside a block quote, a setext heading made of a definition only. -/
def rcDoc : Bytes := Bytes.ofString "[a\\]b]: /u\\(\r\n'x\r\ny&amp;z'\r\n[b]: <v w>\r\nrest\r\n\r\n> [c]: /w\n>\t\"t\"\n> ===\n\n[d]: /z\n"

-- the theorem delivers the coverage of all roots of this document …
example : ∀ r ∈ (drain (blocksLP btX) 40 (memParser rcDoc) []).1, coverage r.source (pbToTree r.block) = true :=
  drain_coverage_uncond btX rcDoc 40 (by decide +kernel)
-- … there are five of them (two definitions, the rest of the first paragraph, the block quote, the last definition)
example : (drain (blocksLP btX) 40 (memParser rcDoc) []).1.map (fun r => (r.block.kind, r.block.label.start, r.block.label.stop)) =
    [(BK.linkRefDef, 0, 28), (BK.linkRefDef, 0, 12), (BK.paragraph, 0, 6), (BK.blockQuote, 0, 22), (BK.linkRefDef, 0, 8)] := by
  decide +kernel
-- with NUL bytes (`RDS.rdDoc` ends with a paragraph that is a single NUL)
example : ∀ r ∈ (drain (blocksLP btX) 40 (memParser rdDoc) []).1, RootK (padNulls rdDoc 0) r := drain_cover_uncond btX rdDoc 40

/-- The per-paragraph theorem on the open paragraph `[foo]: /url "t"⏎rest⏎` of `RDS.exSrc` at the start of its third line
    (`===`): the hypotheses hold … -/
theorem ex_nodes : ∀ t ∈ exIs, NodeOK2 exSrc t := by
  intro t ht
  refine ⟨nodesOK_of_check (by decide +kernel) t ht, ?_⟩
  simp only [exIs, List.mem_cons, List.not_mem_nil, or_false] at ht
  rcases ht with rfl | rfl
  · exact ⟨(fun h => by cases h), (fun _ => Or.inr (by decide +kernel))⟩
  · exact ⟨(fun h => by cases h), (fun _ => Or.inr (by decide +kernel))⟩

-- … so `RefDefCoverOK` holds for it (closing at 21; the source ends at 25 after the underline):
example : RefDefCoverOK btX exSrc 21 (exSrc.length : Int) exL exIs = true :=
  paraCover_of_nodes btX exSrc 21 exL exIs rfl (by decide) (by decide) (by decide +kernel) (by decide +kernel)
    (Or.inl ex_nodes) (by decide +kernel) (by decide +kernel)

-- `collect_ok` on the label of that paragraph: the children of the LinkLabel node `[1, 4)` cover `foo`
example : PcFin exSrc exIs 1 4 (collectTextNodes btX.ext exSrc 4 IK.text false (rdFuel exSrc exIs) (newReader exIs 1) 1 []) :=
  collect_ok (ctx2_of (lo := 0) (hi := 21) (by decide) (by decide +kernel) ex_nodes (by decide +kernel)) btX.ext 1 4 IK.text false
    (fun h => by cases h) (fun _ => ⟨0, _, _, rfl, by decide, by decide, by decide⟩)

end Examples

end CM.Proofs.RDC

#print axioms CM.Proofs.RDC.refDefCoverOK
#print axioms CM.Proofs.RDC.drain_coverage_uncond
#print axioms CM.Proofs.RDC.drain_cover_uncond
#print axioms CM.Proofs.RDC.paraCover_of_nodes
#print axioms CM.Proofs.RDC.collect_ok
#print axioms CM.Proofs.RDC.refDefLoop_cover
#print axioms CM.Proofs.RDC.processLine_st2
