import CM.Proofs.LeafBlocksMulti
/-
C06 (block piece, leaf blocks): HTML blocks whose end condition is not met before the end of input (in particular the
blocks of type 6 and 7, which end at a blank line): the opening line, a continuation line, the end of input, the run.
The model numbers the start conditions from 0: index `i` is CommonMark's type `i + 1`.
-/
namespace CM.Proofs.Leaf
open CM CM.Model CM.Gen
open CM.Proofs CM.Proofs.BT

/-! ### side conditions -/

/-- The first line of an HTML block whose first applicable start condition is number `i0` (0-based) and which does not
    meet the end condition itself. -/
def htmlFirstOK (i0 : Nat) (l : Bytes) : Bool :=
  plainLine l && (l.head? == some 0x3C) && decide (i0 < 7) &&
  (List.range i0).all (fun j => !htmlBlockStart j (l ++ [LF])) && htmlBlockStart i0 (l ++ [LF]) &&
  !htmlBlockEnd i0 (l ++ [LF])

/-- A further line: not blank, and the end condition does not hold on it (after its indentation). -/
def htmlContOK (i0 : Nat) (l : Bytes) : Bool :=
  !isBlankLine l && !htmlBlockEnd i0 ((l ++ [LF]).dropWhile (fun c => c == SP || c == TAB))

theorem isBlankLine_dropWhile (l : Bytes) : isBlankLine (l.dropWhile (fun c => c == SP || c == TAB)) = isBlankLine l := by
  induction l with
  | nil => rfl
  | cons b t ih =>
    simp only [List.dropWhile_cons]
    split
    · rename_i h
      have hw : Gen.isSpaceTabOrLineEnding b = true := by
        simp only [Bool.or_eq_true, beq_iff_eq] at h
        rcases h with h | h <;> subst h <;> decide
      rw [ih]; simp [isBlankLine, hw]
    · rfl

/-- For the types 6 and 7 (indices 5 and 6) the end condition is a blank line: every non-blank line continues the block. -/
theorem htmlContOK_67 (i0 : Nat) (l : Bytes) (hi : i0 = 5 ∨ i0 = 6) (h : isBlankLine l = false) : htmlContOK i0 l = true := by
  have : htmlBlockEnd i0 ((l ++ [LF]).dropWhile (fun c => c == SP || c == TAB)) = false := by
    rcases hi with hi | hi <;> subst hi <;>
    · show isBlankLine _ = false
      rw [isBlankLine_dropWhile, blank_of_append_LF]; exact h
  simp [htmlContOK, h, this]

theorem not_blank_lt (t : Bytes) : isBlankLine (0x3C :: t) = false := by
  have : Gen.isSpaceTabOrLineEnding 0x3C = false := by decide
  simp [isBlankLine, this]

/-! ### `startHTML` on the empty document -/

theorem htmlStartLoop_hit (x : PExt) (line : Bytes) (p : LP) (i0 : Nat) (hi0 : i0 < 7)
    (hnone : ∀ j, j < i0 → htmlBlockStart j line = false) (hstart : htmlBlockStart i0 line = true)
    (hk : p.containerKind ≠ BK.paragraph) (hend : htmlBlockEnd i0 line = false) :
    ∀ (fuel i : Nat), i ≤ i0 → i0 - i < fuel →
      htmlStartLoop x line fuel i p = p.openBlock x BK.htmlBlock (fun l => { l with n := i0 }) := by
  intro fuel
  induction fuel with
  | zero => intro i _ h; omega
  | succ fuel ih =>
    intro i hle hf
    unfold htmlStartLoop
    have h7 : ¬ (i ≥ 7) := by omega
    simp only [h7, if_false]
    by_cases hii : i = i0
    · subst hii
      have : (p.containerKind == BK.paragraph) = false := by simpa using hk
      simp only [hstart, if_true, this, Bool.and_false, Bool.false_eq_true, if_false, hend]
    · have hlt : i < i0 := by omega
      simp only [hnone i hlt, Bool.false_eq_true, if_false]
      exact ih (i + 1) (by omega) (by omega)

theorem startHTML_fresh (x : PExt) (p : LP) (i0 : Nat)
    (hroot : p.root = docRoot []) (hd : p.depth = 0) (hi : p.i = 0) (hls : p.lineStart = 0)
    (hst : p.state = stateOpening) (hind : p.indent = 0)
    (hhead : p.bytesAfterIndent.head? = some 0x3C) (hi0 : i0 < 7)
    (hnone : ∀ j, j < i0 → htmlBlockStart j p.bytesAfterIndent = false) (hstart : htmlBlockStart i0 p.bytesAfterIndent = true)
    (hend : htmlBlockEnd i0 p.bytesAfterIndent = false) :
    startHTML x p = { p with state := stateOpenMatched, root := doc1 (leafOpen BK.htmlBlock i0 []), depth := 1 } := by
  unfold startHTML
  have h0 : ¬ (0 ≥ codeBlockIndentLimit) := by decide
  have hh : (p.bytesAfterIndent.head? != some 0x3C) = false := by simp [hhead]
  simp only [hind, h0, if_false, hh, Bool.false_eq_true]
  rw [htmlStartLoop_hit x _ p i0 hi0 hnone hstart (by rw [containerKind_doc0 p hroot hd]; decide) hend 8 0 (by omega) (by omega),
    openBlock_doc0 x p BK.htmlBlock i0 hroot hd (by rw [hst]; decide) hls hi (by decide), hst]
  rfl

/-- The first line of the HTML block on the empty document. -/
theorem processLine_html_first (x : PExt) (p : LP) (rest : Bytes) (i0 : Nat)
    (hroot : p.root = docRoot []) (hd : p.depth = 0) (hi : p.i = 0) (hls : p.lineStart = 0)
    (hst : p.state = stateOpening) (hc : CurOK p) (htp : p.tabPartial = false) (hline : p.line = 0x3C :: rest)
    (hnb : isBlankLine p.line = false) (hi0 : i0 < 7)
    (hnone : ∀ j, j < i0 → htmlBlockStart j p.line = false) (hstart : htmlBlockStart i0 p.line = true)
    (hend : htmlBlockEnd i0 p.line = false) :
    (processLine x p).root = doc1 (leafOpen BK.htmlBlock i0 [mkInline IK.rawHTML (0 : Nat) (p.line.length : Nat)]) ∧
    (processLine x p).panic = p.panic := by
  obtain ⟨hind, hbai⟩ := noIndent p 0x3C rest hc hi hline (by decide) (by decide)
  have hlt : p.indent < codeBlockIndentLimit := by rw [hind]; decide
  have hs := startHTML_fresh x p i0 hroot hd hi hls hst hind (by rw [hbai, hline]; rfl) hi0 (by rw [hbai]; exact hnone)
    (by rw [hbai]; exact hstart) (by rw [hbai]; exact hend)
  have hbq : hasBytePrefix p.bytesAfterIndent blockQuotePrefix = false := by rw [hbai, hline]; rfl
  have hatx : (parseATXHeading p.bytesAfterIndent).level = 0 := by rw [hbai, hline]; simp [parseATXHeading, countPrefix]
  have hfen : (parseCodeFence p.bytesAfterIndent).n = 0 := by rw [hbai, hline]; simp [parseCodeFence, noFence]
  have hts : tryStarts (blockStartFns x) p = startHTML x p := by
    unfold blockStartFns
    rw [tryStarts_skip _ _ p hst (startBlockQuote_none x p hlt hbq),
      tryStarts_skip _ _ p hst (startATX_none x p hlt hatx),
      tryStarts_skip _ _ p hst (startFenced_none x p hfen),
      tryStarts_hit _ _ p hst (Or.inl (by rw [hs]))]
  rw [processLine_doc0 x p hroot hd hst (by rw [hline]; simp),
    show p.line.length + 8 = (p.line.length + 6) + 1 + 1 from rfl,
    openingLoop_step x _ p (Or.inr (by rw [containerKind_doc0 p hroot hd]; decide)), hts, hs]
  simp only [beq_self_eq_true, if_true]
  rw [openingLoop_accepts x _ _ (by rw [containerKind_doc1 _ BK.htmlBlock i0 [] rfl rfl]; decide)
    (by rw [containerKind_doc1 _ BK.htmlBlock i0 [] rfl rfl]; decide)]
  simp only [if_true]
  rw [addLineText_doc1 x { p with state := stateOpenMatched, root := doc1 (leafOpen BK.htmlBlock i0 []), depth := 1 }
    BK.htmlBlock i0 [] IK.rawHTML rfl rfl htp (by
    show isBlankLine (p.line.drop p.i) = false; rw [hi, List.drop_zero]; exact hnb) (Or.inr ⟨rfl, rfl⟩)]
  refine ⟨?_, rfl⟩
  show doc1 _ = doc1 _
  rw [hls, hi]
  simp

/-! ### a continuation line, the end of input -/

theorem ruleMatch_html_cont (x : PExt) (p : LP) (h : htmlBlockEnd p.container.label.n.toNat p.bytesAfterIndent = false) :
    ruleMatch x BK.htmlBlock p = some (true, p) := by
  unfold ruleMatch
  simp [BK.htmlBlock, BK.document, BK.list, BK.listItem, BK.blockQuote, BK.fencedCode, BK.indentedCode, h]

theorem ruleMatch_html_blank (x : PExt) (p : LP) (h : htmlBlockEnd p.container.label.n.toNat p.bytesAfterIndent = true)
    (hb : p.isRestBlank = true) : ruleMatch x BK.htmlBlock p = some (false, p) := by
  unfold ruleMatch
  simp [BK.htmlBlock, BK.document, BK.list, BK.listItem, BK.blockQuote, BK.fencedCode, BK.indentedCode, h, hb]

theorem container_doc1 (p : LP) (c : PB) (hroot : p.root = doc1 c) (hd : p.depth = 1) : p.container = c := by
  simp [LP.container, hd, hroot, doc1, docRoot, spineGet]

theorem processLine_html_cont (x : PExt) (p : LP) (i0 : Nat) (inl : List Tree)
    (hroot : p.root = doc1 (leafOpen BK.htmlBlock i0 inl)) (hi : p.i = 0) (htp : p.tabPartial = false)
    (hne : p.line ≠ []) (hnb : isBlankLine p.line = false)
    (hend : htmlBlockEnd i0 (p.line.dropWhile (fun c => c == SP || c == TAB)) = false) :
    (processLine x p).root = doc1 (leafOpen BK.htmlBlock i0
      (inl ++ [mkInline IK.rawHTML ((p.lineStart : Nat) : Int) ((p.lineStart + p.line.length : Nat) : Int)])) ∧
    (processLine x p).panic = p.panic := by
  have hrm : ruleMatch x BK.htmlBlock { p with depth := 1, state := stateDescending } =
      some (true, { p with depth := 1, state := stateDescending }) := by
    apply ruleMatch_html_cont
    rw [container_doc1 { p with depth := 1, state := stateDescending } _ hroot rfl]
    show htmlBlockEnd (i0 : Int).toNat ((p.line.drop p.i).dropWhile _) = false
    rw [hi, List.drop_zero, Int.toNat_natCast]; exact hend
  unfold processLine
  rw [descend_doc1 x p BK.htmlBlock i0 inl true hroot hrm]
  simp only [if_true, show (stateDescending == stateDescendTerminated) = false from rfl]
  have hemp : p.line.isEmpty = false := by cases h : p.line <;> simp_all
  unfold openNewBlocks
  simp only [hemp, Bool.false_eq_true, if_false, if_true]
  have hkq : ({ p with depth := 1, state := stateDescending } : LP).containerKind = BK.htmlBlock :=
    containerKind_doc1 _ BK.htmlBlock i0 inl hroot rfl
  rw [show p.line.length + 8 = (p.line.length + 7) + 1 from rfl,
    openingLoop_accepts x _ _ (by rw [hkq]; decide) (by rw [hkq]; decide)]
  simp only [if_true]
  rw [addLineText_doc1 x { p with depth := 1, state := stateDescending } BK.htmlBlock i0 inl IK.rawHTML hroot rfl htp (by
    show isBlankLine (p.line.drop p.i) = false; rw [hi, List.drop_zero]; exact hnb) (Or.inr ⟨rfl, rfl⟩)]
  refine ⟨?_, rfl⟩
  show doc1 _ = doc1 _
  rw [hi, Nat.add_zero]

theorem html_stepOK (x : PExt) (i0 : Nat) : StepOK x BK.htmlBlock i0 IK.rawHTML (fun l => htmlContOK i0 l = true) := by
  intro lp inl src s l hroot hsrc _ hok
  simp only [htmlContOK, Bool.and_eq_true, Bool.not_eq_true'] at hok
  rw [blocksLP_line]
  have r := reset_facts lp src s
  generalize lp.reset src s = p at r
  have hline : p.line = l ++ [LF] := by rw [r.line, hsrc]
  have h := processLine_html_cont x p i0 inl (by rw [r.root, hroot]) r.i r.tabPartial (by rw [hline]; simp)
    (by rw [hline, blank_of_append_LF]; exact hok.1) (by rw [hline]; exact hok.2)
  rw [r.lineStart, hline, r.panic] at h
  simpa using h

theorem htmlFirstOK_elim {i0 : Nat} {l0 : Bytes} (h : htmlFirstOK i0 l0 = true) :
    plainLine l0 = true ∧ l0.head? = some 0x3C ∧ i0 < 7 ∧ (∀ j, j < i0 → htmlBlockStart j (l0 ++ [LF]) = false) ∧
    htmlBlockStart i0 (l0 ++ [LF]) = true ∧ htmlBlockEnd i0 (l0 ++ [LF]) = false := by
  unfold htmlFirstOK at h
  simp only [Bool.and_eq_true, beq_iff_eq, decide_eq_true_eq, Bool.not_eq_true'] at h
  obtain ⟨⟨⟨⟨⟨hpl, hh⟩, hi0⟩, hnone⟩, hstart⟩, hend⟩ := h
  refine ⟨hpl, hh, hi0, ?_, hstart, hend⟩
  intro j hj
  have := List.all_eq_true.mp hnone j (List.mem_range.mpr hj)
  simpa using this

theorem html_first (x : PExt) (i0 : Nat) (l0 : Bytes) (h : htmlFirstOK i0 l0 = true) :
    ((blocksLP x).line ((blocksLP x).new []) (l0 ++ [LF]) 0).root =
        doc1 (leafOpen BK.htmlBlock i0 [mkInline IK.rawHTML (0 : Nat) ((0 + (l0.length + 1) : Nat) : Int)]) ∧
    ((blocksLP x).line ((blocksLP x).new []) (l0 ++ [LF]) 0).panic = none := by
  obtain ⟨hpl, hh, hi0, hnone, hstart, hend⟩ := htmlFirstOK_elim h
  obtain ⟨rest, rfl⟩ : ∃ rest, l0 = 0x3C :: rest := by
    cases l0 with
    | nil => simp at hh
    | cons b t => simp at hh; exact ⟨t, by rw [hh]⟩
  show (processLine x (newLP.reset (0x3C :: rest ++ [LF]) 0)).root = _ ∧ (processLine x (newLP.reset (0x3C :: rest ++ [LF]) 0)).panic = none
  obtain ⟨r1, r2, r3, r4, r5, r6, r7, r8, _, r10, _⟩ := reset_first (0x3C :: rest ++ [LF]) _ rfl
  generalize newLP.reset (0x3C :: rest ++ [LF]) 0 = p at r1 r2 r3 r4 r5 r6 r7 r8 r10 ⊢
  have := processLine_html_first x p (rest ++ [LF]) i0 r1 r2 r3 r4 r5 r7 r10 r8
    (by rw [r8]; exact not_blank_lt _) hi0 (by rw [r8]; exact hnone) (by rw [r8]; exact hstart) (by rw [r8]; exact hend)
  rw [r6, r8] at this
  refine ⟨?_, this.2⟩
  rw [this.1]
  simp

theorem html_eof (x : PExt) (lp : LP) (i0 : Nat) (inl : List Tree) (src : Bytes) (s : Nat)
    (hroot : lp.root = doc1 (leafOpen BK.htmlBlock i0 inl)) (hsrc : src.drop s = []) :
    ((blocksLP x).line lp src s).root = .mk { kind := BK.document, start := 0, stop := (s : Nat) }
        [leafClosed BK.htmlBlock i0 (s : Nat) inl] [] ∧
    ((blocksLP x).line lp src s).panic = lp.panic := by
  rw [blocksLP_line]
  have r := reset_facts lp src s
  generalize lp.reset src s = p at r
  have hline : p.line = [] := by rw [r.line, hsrc]
  have hroot' : p.root = doc1 (leafOpen BK.htmlBlock i0 inl) := by rw [r.root, hroot]
  have hrm : ∃ ok, ruleMatch x BK.htmlBlock { p with depth := 1, state := stateDescending } =
      some (ok, { p with depth := 1, state := stateDescending }) := by
    cases he : htmlBlockEnd ({ p with depth := 1, state := stateDescending } : LP).container.label.n.toNat
        ({ p with depth := 1, state := stateDescending } : LP).bytesAfterIndent with
    | false => exact ⟨true, ruleMatch_html_cont x _ he⟩
    | true =>
      refine ⟨false, ruleMatch_html_blank x _ he ?_⟩
      simp only [LP.isRestBlank, hline, List.drop_nil]; rfl
  obtain ⟨ok, hrm⟩ := hrm
  have h := processLine_eof x p BK.htmlBlock i0 inl ok hroot' hline hrm
  rw [r.lineStart, r.source, r.panic, closeBlock_leaf x src _ BK.htmlBlock i0 inl (by decide) (by decide) (by decide) (by decide)] at h
  exact h

/-! ### the run -/

/-- **HTML block** (the run of the stream machine): a first line beginning with `<` whose first applicable start condition
    is number `i0` (`htmlFirstOK`; `i0 = 5` is CommonMark's type 6, e.g. `<div>`), further non-blank lines on which the end
    condition does not hold (`htmlContOK`; for the types 6 and 7 every non-blank line), then the end of input: exactly one
    root, an HTMLBlock with `n = i0` spanning the document with ONE RawHTML child per line, spanning the line and its line
    ending; then the end of input. -/
theorem html_block_run (x : PExt) (i0 : Nat) (l0 : Bytes) (ls : List Bytes) (fuel : Nat)
    (h0 : htmlFirstOK i0 l0 = true) (hls : ∀ l ∈ ls, plainLine l = true ∧ htmlContOK i0 l = true) (hfuel : 2 ≤ fuel) :
    drain (blocksLP x) fuel (memParser (leafDoc l0 ls [])) [] =
      ([{ source := leafDoc l0 ls [], startLine := 1, startOffset := 0, endOffset := (leafDoc l0 ls []).length,
          block := leafClosed BK.htmlBlock i0 ((leafDoc l0 ls []).length : Nat) (runNodes IK.rawHTML 0 (l0 :: ls)) }],
       .err .eof, doneBP (leafDoc l0 ls []).length (1 + lineCount (leafDoc l0 ls []))) := by
  obtain ⟨hpl, hh, _, _, _, _⟩ := htmlFirstOK_elim h0
  have hnb0 : isBlankLine l0 = false := by
    cases l0 with
    | nil => simp at hh
    | cons b t => simp at hh; subst hh; exact not_blank_lt _
  have hlen : (leafDoc l0 ls []).length = l0.length + 1 + (body ls).length := by
    simp [leafDoc]; omega
  refine leaf_run x BK.htmlBlock i0 IK.rawHTML (fun l => htmlContOK i0 l = true) l0 ls [] fuel
    [mkInline IK.rawHTML (0 : Nat) ((0 + (l0.length + 1) : Nat) : Int)]
    { kind := BK.document, start := 0, stop := ((leafDoc l0 ls []).length : Nat) }
    (leafClosed BK.htmlBlock i0 ((leafDoc l0 ls []).length : Nat) (runNodes IK.rawHTML 0 (l0 :: ls)))
    hpl hnb0 hls rfl (by simp) (html_first x i0 l0 h0) (html_stepOK x i0) ?_ rfl hfuel
  intro lp hroot hpanic
  have := html_eof x lp i0 _ (leafDoc l0 ls []) (l0.length + 1 + (body ls).length) hroot (by rw [← hlen]; simp)
  refine ⟨?_, this.2.trans hpanic⟩
  rw [this.1, hlen]
  simp [runNodes]

end CM.Proofs.Leaf
