import CM.Proofs.BlankPrefixStep
import CM.Proofs.BlankSuffixPrefix
/-
C14, clause (b): prepending whole blank lines changes nothing but offsets and line numbers — for EVERY line parser.

Main theorems (summary at the end of the file).
-/
namespace CM.Proofs
open CM CM.Model CM.Gen

@[simp] theorem shiftRoot_source (d m : Nat) (r : Root) : (shiftRoot d m r).source = r.source := rfl
@[simp] theorem shiftRoot_block (d m : Nat) (r : Root) : (shiftRoot d m r).block = r.block := rfl
@[simp] theorem shiftRoot_startOffset (d m : Nat) (r : Root) : (shiftRoot d m r).startOffset = r.startOffset + d := rfl
@[simp] theorem shiftRoot_endOffset (d m : Nat) (r : Root) : (shiftRoot d m r).endOffset = r.endOffset + d := rfl
@[simp] theorem shiftRoot_startLine (d m : Nat) (r : Root) : (shiftRoot d m r).startLine = r.startLine + m := rfl

/-- The outcome of a `drain` is never a block, so shifting does not change it. -/
theorem drain_outcome_not_block (L : LineParserI) : ∀ (f : Nat) (p : BP) (acc : List Root) (r : Root),
    (drain L f p acc).2.1 ≠ .block r := by
  intro f
  induction f with
  | zero => intro p acc r h; simp [drain] at h
  | succ f ih =>
    intro p acc r
    rcases hn : nextBlock L p with ⟨o, p'⟩
    cases o with
    | block r' => simp only [drain, hn]; exact ih p' _ r
    | err e => simp only [drain, hn]; intro h; cases h
    | panic m => simp only [drain, hn]; intro h; cases h

theorem shiftOut_drain (L : LineParserI) (d m f : Nat) (p : BP) (acc : List Root) :
    shiftOut d m (drain L f p acc).2.1 = (drain L f p acc).2.1 := by
  have := drain_outcome_not_block L f p acc
  cases h : (drain L f p acc).2.1 with
  | block r => exact absurd h (this r)
  | err e => rfl
  | panic s => rfl

/-! ### (1) Blank lines in front -/

/-- **C14 (b), every line parser.** `p` is a concatenation of whole blank lines (`blankLines p`), the junction does
    not merge a CR ending `p` with an LF starting `x` (`¬ CRLFSplit p x`, decidable). Then the run on `p ++ x` IS the
    run on `x` with the same `drain` fuel, shifted: every root has `startOffset`/`endOffset` increased by `p.length`,
    `startLine` increased by `lineCount p`, identical `source` and `block`; the outcome (`.err .eof` / panic) is the
    same; even the final parser states agree up to the shift.

    Fuel: `NextBlock`'s per-line loop runs on `bpFuel`, which is larger by `p.length` in the first call on `p ++ x`.
    The only assumption is that the first call on `x` does not end with the fuel panic of that loop (an artefact of
    the model: the Go loop is unbounded); see `blank_prefix_shift_target_false` for why it cannot be dropped, and
    `blank_prefix_shift_well` / `blank_prefix_shift_contract` for line parsers where it always holds. -/
theorem blank_prefix_shift (L : LineParserI) (p x : Bytes) (hp : blankLines p = true) (hj : ¬ CRLFSplit p x)
    (fuel : Nat) (h0 : 0 < fuel) (hf : isFuelPanic (nextBlock L (memParser x)).1 = false) :
    drain L fuel (memParser (p ++ x)) [] = shiftRun p.length (lineCount p) (drain L fuel (memParser x) []) := by
  cases fuel with
  | zero => omega
  | succ fuel =>
    have h1 := nextBlock_blank_prefix L p x hp hj
    rw [nextBlock_eq_F] at hf
    rw [nextBlockF_more_fuel L _ _ p.length _ hf, ← nextBlock_eq_F] at h1
    have herr' := (nextBlock_sticky L (memParser x) rfl).1
    rcases hq : nextBlock L (memParser x) with ⟨o, q'⟩
    rw [hq] at h1 herr'
    cases o with
    | block r =>
      simp only [drain, h1, hq, shiftRes, shiftOut]
      exact drain_shift L _ _ fuel q' [r] herr'
    | err e => simp only [drain, h1, hq, shiftRes, shiftOut]; rfl
    | panic msg => simp only [drain, h1, hq, shiftRes, shiftOut]; rfl

/-- The same with the assumption on the whole run: the run on `x` does not end with the fuel panic of the per-line
    loop. -/
theorem blank_prefix_shift_run (L : LineParserI) (p x : Bytes) (hp : blankLines p = true) (hj : ¬ CRLFSplit p x)
    (fuel : Nat) (h0 : 0 < fuel) (hf : isFuelPanic (drain L fuel (memParser x) []).2.1 = false) :
    drain L fuel (memParser (p ++ x)) [] = shiftRun p.length (lineCount p) (drain L fuel (memParser x) []) := by
  cases fuel with
  | zero => omega
  | succ fuel =>
    apply blank_prefix_shift L p x hp hj _ h0
    rcases hq : nextBlock L (memParser x) with ⟨o, q'⟩
    cases o with
    | block r => rfl
    | err e => rfl
    | panic msg => simpa only [drain, hq] using hf

/-- What a client sees: the roots of `p ++ x` are the shifted roots of `x` (`shiftRoot` keeps `source` and `block`:
    `shiftRoot_source`, `shiftRoot_block`), the outcome is the same. -/
theorem blank_prefix_observe (L : LineParserI) (p x : Bytes) (hp : blankLines p = true) (hj : ¬ CRLFSplit p x)
    (fuel : Nat) (hf : isFuelPanic (nextBlock L (memParser x)).1 = false) :
    observe (drain L fuel (memParser (p ++ x)) []) =
      ((drain L fuel (memParser x) []).1.map (shiftRoot p.length (lineCount p)), (drain L fuel (memParser x) []).2.1) := by
  cases fuel with
  | zero => rfl
  | succ fuel =>
    rw [blank_prefix_shift L p x hp hj _ (Nat.succ_pos _) hf]
    simp only [observe, shiftRun, shiftOut_drain]

/-- Any two fuels at which the run on `x` ends. -/
theorem blank_prefix_shift_fuels (L : LineParserI) (p x : Bytes) (hp : blankLines p = true) (hj : ¬ CRLFSplit p x)
    (f : Nat) (hends : drainEnds L f (memParser x) = true) (hf : isFuelPanic (nextBlock L (memParser x)).1 = false)
    (f1 f2 : Nat) (h1 : f ≤ f1) (h2 : f ≤ f2) :
    drain L f1 (memParser (p ++ x)) [] = shiftRun p.length (lineCount p) (drain L f2 (memParser x) []) := by
  have h0 : 0 < f := by cases f with
    | zero => simp [drainEnds] at hends
    | succ f => omega
  rw [blank_prefix_shift L p x hp hj f1 (by omega) hf, drain_more_fuel L f _ [] hends f1 h1, drain_more_fuel L f _ [] hends f2 h2]

/-- For line parsers satisfying `LPWell` (C08) no fuel assumption is needed. -/
theorem blank_prefix_shift_well {L : LineParserI} (W : LPWell L) (p x : Bytes) (hp : blankLines p = true)
    (hj : ¬ CRLFSplit p x) (fuel : Nat) (h0 : 0 < fuel) :
    drain L fuel (memParser (p ++ x)) [] = shiftRun p.length (lineCount p) (drain L fuel (memParser x) []) := by
  cases fuel with
  | zero => omega
  | succ fuel =>
    have h1 := nextBlock_blank_prefix L p x hp hj
    have hge := bpFuel_mem_ge (memParser x)
    have h2 := (nextBlockF_mem W (memParser x) rfl (Nat.zero_le _) (blocksOK_init x)
      (bpFuel (memParser x)) (bpFuel (memParser x) + p.length) (bpFuel (memParser x)) (bpFuel (memParser x))
      (by omega) (by omega) (by omega) (by omega)).1
    rw [h2, ← nextBlock_eq_F] at h1
    have herr' := (nextBlock_sticky L (memParser x) rfl).1
    rcases hq : nextBlock L (memParser x) with ⟨o, q'⟩
    rw [hq] at h1 herr'
    cases o with
    | block r =>
      simp only [drain, h1, hq, shiftRes, shiftOut]
      exact drain_shift L _ _ fuel q' [r] herr'
    | err e => simp only [drain, h1, hq, shiftRes, shiftOut]; rfl
    | panic msg => simp only [drain, h1, hq, shiftRes, shiftOut]; rfl

/-- For line parsers satisfying the tiling contract `LPContract` (C01) no fuel assumption is needed either. -/
theorem blank_prefix_shift_contract {L : LineParserI} (C : LPContract L) (p x : Bytes) (hp : blankLines p = true)
    (hj : ¬ CRLFSplit p x) (fuel : Nat) (h0 : 0 < fuel) :
    drain L fuel (memParser (p ++ x)) [] = shiftRun p.length (lineCount p) (drain L fuel (memParser x) []) := by
  apply blank_prefix_shift L p x hp hj _ h0
  have hP : PendInv C (memParser x).blocks ((memParser x).buf.take (memParser x).i) := Or.inl ⟨rfl, rfl⟩
  rcases nextBlock_spec C (MInv.init x) hP with ⟨r, p', g, y', h, _⟩ | ⟨p', h, _⟩
  · rw [h]; rfl
  · rw [h]; rfl

/-! ### (1) Examples: non-vacuity, and why the side conditions are needed -/

/-- SP LF TAB CR LF: two whole blank lines. -/
def demoBlank : Bytes := [32, 10, 9, 13, 10]

example : blankLines demoBlank = true := by decide +kernel
example : ¬ CRLFSplit demoBlank demoInput := by decide +kernel
example : lineCount demoBlank = 2 := by decide +kernel
example : isFuelPanic (nextBlock paraLP (memParser demoInput)).1 = false := by decide +kernel

example : summary (drain paraLP 10 (memParser demoInput) []) =
    ([([97, 13, 10, 98, 13, 10], 1, 0, 6), ([239, 191, 189, 99, 13], 4, 8, 11), ([100], 6, 12, 13)],
     some .eof, none) := by decide +kernel

example : summary (drain paraLP 10 (memParser (demoBlank ++ demoInput)) []) =
    ([([97, 13, 10, 98, 13, 10], 3, 5, 11), ([239, 191, 189, 99, 13], 6, 13, 16), ([100], 8, 17, 18)],
     some .eof, none) := by decide +kernel

/-- The theorem applies (every hypothesis satisfiable on a non-trivial input). -/
example : drain paraLP 10 (memParser (demoBlank ++ demoInput)) [] = shiftRun 5 2 (drain paraLP 10 (memParser demoInput) []) :=
  blank_prefix_shift paraLP demoBlank demoInput (by decide +kernel) (by decide +kernel) 10 (by decide)
    (by decide +kernel)

example : drain paraLP 10 (memParser (demoBlank ++ demoInput)) [] = shiftRun 5 2 (drain paraLP 10 (memParser demoInput) []) :=
  blank_prefix_shift_well paraWell demoBlank demoInput (by decide +kernel) (by decide +kernel) 10 (by decide)

/-- The real block-phase line parser: `SP LF CR LF` in front of `# h CRLF CRLF a NUL LF`. -/
example : drain (blocksLP demoExt) 40 (memParser ([32, 10, 13, 10] ++ [35, 32, 104, 13, 10, 13, 10, 97, 0, 10])) [] =
    shiftRun 4 2 (drain (blocksLP demoExt) 40 (memParser [35, 32, 104, 13, 10, 13, 10, 97, 0, 10]) []) :=
  blank_prefix_shift (blocksLP demoExt) [32, 10, 13, 10] _ (by decide +kernel) (by decide +kernel) 40 (by decide)
    (by decide +kernel)

example : summary (drain (blocksLP demoExt) 40 (memParser ([32, 10, 13, 10] ++ [35, 32, 104, 13, 10, 13, 10, 97, 0, 10])) []) =
    ([([35, 32, 104, 13, 10], 3, 4, 9), ([97, 239, 191, 189, 10], 5, 11, 14)], some .eof, none) := by decide +kernel

/-- The junction condition is needed: `p = CR` is a whole blank line, `x = LF a LF`; in `p ++ x` the CR and the LF
    merge into ONE line ending, so the root starts on line 2, not on line 1 + 1 + 1 = 3. -/
example : blankLines [13] = true ∧ CRLFSplit [13] [10, 97, 10] := by decide +kernel
example : summary (drain paraLP 5 (memParser ([13] ++ [10, 97, 10])) []) = ([([97, 10], 2, 2, 4)], some .eof, none) := by
  decide +kernel
example : summary (shiftRun 1 1 (drain paraLP 5 (memParser [10, 97, 10]) [])) = ([([97, 10], 3, 2, 4)], some .eof, none) := by
  decide +kernel

/-- (1) without the fuel assumption. -/
def blank_prefix_shift_target : Prop :=
  ∀ (L : LineParserI) (p x : Bytes), blankLines p = true → ¬ CRLFSplit p x → ∀ fuel : Nat,
    observe (drain L fuel (memParser (p ++ x)) []) =
      ((drain L fuel (memParser x) []).1.map (shiftRoot p.length (lineCount p)), (drain L fuel (memParser x) []).2.1)

/-- `slowLP 6` closes its block at its 6th line, whatever the lines are. On `x = a` the per-line loop has fuel
    `bpFuel = 5` and panics; on `LF a` it has fuel 6 and delivers a root: the model's fuel is an artefact (the Go
    loop is unbounded), so the statement needs "the run on `x` does not exhaust the per-line fuel". -/
example : summary (drain (slowLP 6) 5 (memParser [97]) []) = ([], none, some "parseLines: fuel") := by decide +kernel
example : summary (drain (slowLP 6) 5 (memParser ([10] ++ [97])) []) = ([([], 2, 1, 1)], some .eof, none) := by
  decide +kernel

theorem blank_prefix_shift_target_false : ¬ blank_prefix_shift_target := by
  intro h
  have := h (slowLP 6) [10] [97] (by decide +kernel) (by decide +kernel) 5
  have h2 : (observe (drain (slowLP 6) 5 (memParser ([10] ++ [97])) [])).1.length =
      ((drain (slowLP 6) 5 (memParser [97]) []).1.map (shiftRoot [10].length (lineCount [10]))).length :=
    congrArg (fun r => r.1.length) this
  revert h2
  decide +kernel

/-! ### (2) Blank lines at the end -/

theorem getLast?_padNulls (x : Bytes) : (padNulls x 0).getLast? = x.getLast? := by
  rcases List.eq_nil_or_concat x with rfl | ⟨init, c, rfl⟩
  · rfl
  · rw [List.concat_eq_append, Model.padNulls_append]
    by_cases hc : c = 0
    · subst hc; rw [Model.padNulls_cons_zero]; simp
    · rw [Model.padNulls_cons_ne hc]; simp

theorem lockInv_memParser {x t : Bytes} (hx : terminated x = true) (hj : ¬ CRLFSplit x t) : LockInv t (memParser x) := by
  refine ⟨Nat.zero_le _, ?_, ?_, rfl⟩
  · show terminated (padNulls x 0) = true
    unfold terminated; rw [getLast?_padNulls]; exact hx
  · show ¬ CRLFSplit (padNulls x 0) t
    intro ⟨h1, h2⟩
    exact hj ⟨by rw [← getLast?_padNulls]; exact h1, h2⟩

theorem memParser_append_ext {t : Bytes} (ht : isBlankLine t = true) (x : Bytes) :
    memParser (x ++ t) = extBP t (memParser x) := by
  simp only [memParser, extBP, Model.padNulls_append, padNulls_eq_self_of_blank ht]

/-- **Trailing blank bytes, line parsers that cannot tell a blank line from the end of input (`EOFBlank`).**
    `x` is empty or ends in a line ending, `t` consists of blank bytes (in particular: whole blank lines), the
    junction does not merge a CR with an LF. If the run on `x` reaches no panic site of the stream machine and does
    not exhaust the fuel of the per-line loop, the run on `x ++ t` delivers the same roots (every field) and ends
    with the same outcome. The two runs are in lockstep until the run on `x` meets the end of its input; there the
    line parser is fed the empty end-of-input line in one run and the first line of `t` in the other, and `EOFBlank`
    says it reacts in the same way. For arbitrary `L` this is false: `trailing_blank_irrelevant_target_false`. -/
theorem trailing_blank_irrelevant_partial {L : LineParserI} (H : EOFBlank L) (x t : Bytes) (hx : terminated x = true)
    (ht : isBlankLine t = true) (hj : ¬ CRLFSplit x t) (fuel : Nat)
    (hM : (drain L fuel (memParser x) []).2.2.panic = none)
    (hF : isFuelPanic (drain L fuel (memParser x) []).2.1 = false) :
    observe (drain L fuel (memParser (x ++ t)) []) = observe (drain L fuel (memParser x) []) := by
  by_cases htne : t = []
  · subst htne; rw [List.append_nil]
  · rw [memParser_append_ext ht]
    obtain ⟨h1, h2⟩ := drain_lock H htne ht fuel (memParser x) [] (lockInv_memParser hx hj) hM hF
    simp only [observe, h1, h2]

/-- (2) as asked, for every line parser. -/
def trailing_blank_irrelevant_target : Prop :=
  ∀ (L : LineParserI) (x t : Bytes), terminated x = true → blankLines t = true → ¬ CRLFSplit x t → ∀ fuel : Nat,
    (drain L fuel (memParser x) []).2.2.panic = none → isFuelPanic (drain L fuel (memParser x) []).2.1 = false →
    observe (drain L fuel (memParser (x ++ t)) []) = observe (drain L fuel (memParser x) [])

/-- A line parser whose block stays open until the end of input (like an unclosed fenced code block): the trailing
    blank lines become part of the last root. The line parser CAN observe them: it is fed the empty end-of-input line
    at `lineStart = len(source)` in one run, and the blank lines before that in the other. -/
def fenceLP : LineParserI where
  σ := Int
  new _ := -1
  line _ src ls := if src.length ≤ ls then (src.length : Int) else -1
  kids s := [PB.mk { kind := 1, start := 0, stop := s } [] []]
  panicked _ := none

example : summary (drain fenceLP 5 (memParser [97, 10]) []) = ([([97, 10], 1, 0, 2)], some .eof, none) := by
  decide +kernel
example : summary (drain fenceLP 5 (memParser ([97, 10] ++ [10])) []) = ([([97, 10, 10], 1, 0, 3)], some .eof, none) := by
  decide +kernel

theorem trailing_blank_irrelevant_target_false : ¬ trailing_blank_irrelevant_target := by
  intro h
  have := h fenceLP [97, 10] [10] (by decide +kernel) (by decide +kernel) (by decide +kernel) 5 (by decide +kernel)
    (by decide +kernel)
  have h2 : (observe (drain fenceLP 5 (memParser ([97, 10] ++ [10])) [])).1.map (·.endOffset) =
      (observe (drain fenceLP 5 (memParser [97, 10]) [])).1.map (·.endOffset) := by rw [this]
  revert h2
  decide +kernel

/-- The real block-phase line parser observes them too: an unclosed fenced code block (three backquotes, LF, `a`, LF)
    extends over the trailing blank line. -/
example : summary (drain (blocksLP demoExt) 40 (memParser [96, 96, 96, 10, 97, 10]) []) =
    ([([96, 96, 96, 10, 97, 10], 1, 0, 6)], some .eof, none) := by decide +kernel
example : summary (drain (blocksLP demoExt) 40 (memParser ([96, 96, 96, 10, 97, 10] ++ [10])) []) =
    ([([96, 96, 96, 10, 97, 10, 10], 1, 0, 7)], some .eof, none) := by decide +kernel

/-- `paraLP` (a blank line or the end of input closes the paragraph at the start of that line) satisfies `EOFBlank`. -/
theorem paraLP_eofBlank : EOFBlank paraLP where
  panicked := fun _ _ _ _ _ => rfl
  kids := by
    intro s src l _ hb
    simp [paraLP, hb, Model.isBlankLine_nil]
  closed := by
    intro s src _
    have hl : paraLP.line s src src.length = (src.length : Int) := by simp [paraLP, Model.isBlankLine_nil]
    have hk : paraLP.kids (paraLP.line s src src.length) =
        [PB.mk { kind := 1, start := 0, stop := (src.length : Int) } [] []] := by
      show [PB.mk _ [] []] = _
      rw [hl]
    have ho : (PB.mk { kind := 1, start := 0, stop := (src.length : Int) } [] []).isOpen = false := by
      simp only [PB.isOpen, PB.label]
      exact decide_eq_false (by omega)
    rw [hk]
    refine ⟨by simp, ?_⟩
    simp only [closedChain, ho]
    simp

/-- `demoInput` does not end in a line ending; `demoInput ++ LF` does. Three trailing blank lines `CR LF SP LF LF`. -/
example : terminated (demoInput ++ [10]) = true := by decide +kernel
example : blankLines [13, 10, 32, 10, 10] = true := by decide +kernel

example : summary (drain paraLP 10 (memParser (demoInput ++ [10])) []) =
    ([([97, 13, 10, 98, 13, 10], 1, 0, 6), ([239, 191, 189, 99, 13], 4, 8, 11), ([100, 10], 6, 12, 14)],
     some .eof, none) := by decide +kernel

example : summary (drain paraLP 10 (memParser ((demoInput ++ [10]) ++ [13, 10, 32, 10, 10])) []) =
    ([([97, 13, 10, 98, 13, 10], 1, 0, 6), ([239, 191, 189, 99, 13], 4, 8, 11), ([100, 10], 6, 12, 14)],
     some .eof, none) := by decide +kernel

/-- The theorem applies. -/
example : observe (drain paraLP 10 (memParser ((demoInput ++ [10]) ++ [13, 10, 32, 10, 10])) []) =
    observe (drain paraLP 10 (memParser (demoInput ++ [10])) []) :=
  trailing_blank_irrelevant_partial paraLP_eofBlank _ _ (by decide +kernel) (by decide +kernel) (by decide +kernel) 10
    (by decide +kernel) (by decide +kernel)

/-- "`x` ends in a line ending" is needed even for `paraLP`: without it the blank bytes complete the last line. -/
example : summary (drain paraLP 10 (memParser ([100] ++ [10])) []) = ([([100, 10], 1, 0, 2)], some .eof, none) := by
  decide +kernel
example : summary (drain paraLP 10 (memParser [100]) []) = ([([100], 1, 0, 1)], some .eof, none) := by
  decide +kernel

/-! ### (2') What IS true for every line parser: the roots delivered before the end of the input is reached -/

theorem memParser_append_ext' (x t : Bytes) : memParser (x ++ t) = extBP (padNulls t 0) (memParser x) := by
  simp only [memParser, extBP, Model.padNulls_append]

/-- **Prefix stability, every line parser, ANY trailing bytes `t`** (blank or not). `x` is empty or ends in a line
    ending and the junction does not merge a CR with an LF. If after its `(n+1)`-th `NextBlock` call the run on `x` has
    its parse position strictly inside its buffer (it has not been told about the end of the input yet), has recorded
    no panic, and none of these calls exhausted the per-line fuel, then each of these calls returns exactly the same
    (the same root, every field) on `x ++ t`. Once the parse position reaches the end of the buffer the line parser
    is fed the end-of-input line and can tell the difference (`fenceLP`, and the real parser on an unclosed fence). -/
theorem trailing_prefix_stable (L : LineParserI) (x t : Bytes) (hx : terminated x = true) (hj : ¬ CRLFSplit x t)
    (n : Nat)
    (hin : (callN L n (memParser x)).2.i < (callN L n (memParser x)).2.buf.length)
    (hM : (callN L n (memParser x)).2.panic = none)
    (hF : ∀ m, m ≤ n → isFuelPanic (callN L m (memParser x)).1 = false) :
    ∀ m, m ≤ n → (callN L m (memParser (x ++ t))).1 = (callN L m (memParser x)).1 := by
  intro m hm
  rw [memParser_append_ext']
  have hinv : LockInv (padNulls t 0) (memParser x) :=
    lockInv_memParser hx (by rw [crlfSplit_padNulls]; exact hj)
  exact (callN_lock L (padNulls t 0) n (memParser x) hinv hin hM hF m hm).1

/-- One outcome as decidable data. -/
def outSummary (o : NBOut) : List (Bytes × Nat × Nat × Nat) × Option PErr × Option String :=
  summary ((match o with | .block r => [r] | _ => []), o, default)

/-- `demoInput ++ LF`, then `e LF` (not blank) appended: the first two roots are the same, the third is not (the
    parse position had reached the end of the buffer when it was closed). -/
example : outSummary (callN paraLP 1 (memParser (demoInput ++ [10]))).1 =
    ([([239, 191, 189, 99, 13], 4, 8, 11)], none, none) := by decide +kernel
example : outSummary (callN paraLP 1 (memParser ((demoInput ++ [10]) ++ [101, 10]))).1 =
    ([([239, 191, 189, 99, 13], 4, 8, 11)], none, none) := by decide +kernel
example : outSummary (callN paraLP 2 (memParser (demoInput ++ [10]))).1 =
    ([([100, 10], 6, 12, 14)], none, none) := by decide +kernel
example : outSummary (callN paraLP 2 (memParser ((demoInput ++ [10]) ++ [101, 10]))).1 =
    ([([100, 10, 101, 10], 6, 12, 16)], none, none) := by decide +kernel

/-- The theorem applies to the first two calls (`n = 1`). -/
example : ∀ m, m ≤ 1 → (callN paraLP m (memParser ((demoInput ++ [10]) ++ [101, 10]))).1 =
    (callN paraLP m (memParser (demoInput ++ [10]))).1 :=
  trailing_prefix_stable paraLP _ _ (by decide +kernel) (by decide +kernel) 1 (by decide +kernel) (by decide +kernel)
    (by decide +kernel)

/-- The real block-phase line parser, first call: the heading of `# h CRLF CRLF a NUL LF` whatever follows. -/
example : ∀ m, m ≤ 0 → (callN (blocksLP demoExt) m (memParser ([35, 32, 104, 13, 10, 13, 10, 97, 0, 10] ++ [98, 10]))).1 =
    (callN (blocksLP demoExt) m (memParser [35, 32, 104, 13, 10, 13, 10, 97, 0, 10])).1 :=
  trailing_prefix_stable (blocksLP demoExt) _ _ (by decide +kernel) (by decide +kernel) 0 (by decide +kernel)
    (by decide +kernel) (by decide +kernel)

/-
Summary.

(1) `blank_prefix_shift` (every `L`): `drain L fuel (memParser (p ++ x)) [] = shiftRun p.length (lineCount p) (drain L fuel (memParser x) [])`
    for `blankLines p`, `¬ CRLFSplit p x`, `0 < fuel`, and the first call on `x` not ending in the per-line fuel
    panic. Variants: `blank_prefix_shift_run` (assumption on the outcome of the run), `blank_prefix_observe` (roots and
    outcome, all fuels), `blank_prefix_shift_fuels` (two different `drain` fuels), `blank_prefix_shift_well` (`LPWell`,
    no fuel assumption), `blank_prefix_shift_contract` (`LPContract`, no fuel assumption).
    Needed: the junction condition (example with `p = CR`, `x = LF a LF`); the fuel assumption
    (`blank_prefix_shift_target_false`, `slowLP 6`).
    Proof: `shiftBP` commutes with every function of the machine on the in-memory parser (BlankShift.lean); the
    blank-line loop consumes `p` line by line (`skipBlank_prefix`, BlankLines.lean); more fuel for the per-line loop
    changes nothing unless it was exhausted (`parseLines_more_fuel`).
(2) `trailing_blank_irrelevant_target` is FALSE (`trailing_blank_irrelevant_target_false`, `fenceLP`; also the real
    `blocksLP` on an unclosed fenced code block): the line parser is fed the end-of-input line at `lineStart = len(source)`
    in one run and the blank lines in the other. True: `trailing_blank_irrelevant_partial` under `EOFBlank L`
    (satisfied by `paraLP`: `paraLP_eofBlank`), and for EVERY `L` and ANY trailing bytes `trailing_prefix_stable`:
    the calls made before the parse position reaches the end of the buffer return the same.
-/

end CM.Proofs
