import CM.Ops.All
/-
Line-protocol driver: one op per input line (`op<TAB>arg<TAB>…`), one answer line each.
-/
open CM CM.Ops

def dispatch (line : String) : String :=
  match line.splitOn "\t" with
  | [] => bad
  | op :: args =>
    match allOps.lookup op with
    | some f => f args
    | none => bad

partial def loop (h : IO.FS.Stream) (out : IO.FS.Stream) : IO Unit := do
  let line ← h.getLine
  if line.isEmpty then return ()
  let line := if line.back == '\n' then (line.dropEnd 1).copy else line
  if line == "flush" then
    out.flush
  else
    out.putStrLn (dispatch line)
  loop h out

def main : IO Unit := do
  let stdin ← IO.getStdin
  let stdout ← IO.getStdout
  loop stdin stdout
