//go:build verif

package main

import (
	"bytes"
	"errors"
	"fmt"
	"strings"

	cm "zombiezen.com/go/commonmark"
	"zombiezen.com/go/commonmark/format"
)

func init() { props["C20"] = runC20 }

// scriptWriter records every write and fails at the failAt'th one (0-based; -1 = never).
type scriptWriter struct {
	writes [][]byte
	failAt int
	err    error
}

func (w *scriptWriter) Write(p []byte) (int, error) {
	idx := len(w.writes)
	w.writes = append(w.writes, append([]byte(nil), p...))
	if idx == w.failAt {
		return 0, w.err
	}
	return len(p), nil
}

func (w *scriptWriter) WriteString(s string) (int, error) { return w.Write([]byte(s)) }

// plainWriter has no WriteString (exercises the fallback path).
type plainWriter struct{ w *scriptWriter }

func (p plainWriter) Write(b []byte) (int, error) { return p.w.Write(b) }

func formatDoc(roots []*cm.RootBlock, failAt int, e error, plain bool) (w *scriptWriter, err error, perr string) {
	w = &scriptWriter{failAt: failAt, err: e}
	perr = safely(func() {
		if plain {
			err = format.Format(plainWriter{w}, roots)
		} else {
			err = format.Format(w, roots)
		}
	})
	return
}

func joinWrites(w *scriptWriter) []byte { return bytes.Join(w.writes, nil) }

// c20Clause1 returns "" if Format is total, deterministic, read-only and fails cleanly on doc.
func c20Clause1(doc []byte, maxFail int) string {
	res := parseMem(doc)
	if res.err != "" {
		return ""
	}
	before := make([]string, len(res.roots))
	for i, r := range res.roots {
		before[i] = wireRoot(r) + hx(r.Source)
	}
	w0, err, perr := formatDoc(res.roots, -1, nil, false)
	if perr != "" {
		return "Format panics: " + perr
	}
	if err != nil {
		return "Format fails on a healthy writer: " + err.Error()
	}
	w1, _, _ := formatDoc(res.roots, -1, nil, true)
	if !bytes.Equal(joinWrites(w0), joinWrites(w1)) {
		return "Format is not deterministic (or depends on the writer's WriteString)"
	}
	for i, r := range res.roots {
		if wireRoot(r)+hx(r.Source) != before[i] {
			return "Format modifies the tree or Source"
		}
	}
	n := len(w0.writes)
	e1 := errors.New("writer failure 1")
	for k := 0; k < n && k < maxFail; k++ {
		w, err, perr := formatDoc(res.roots, k, e1, k%2 == 1)
		if perr != "" {
			return fmt.Sprintf("Format panics with a writer failing at write %d: %s", k, perr)
		}
		if err != e1 {
			return fmt.Sprintf("writer fails at write %d with %v but Format returns %v", k, e1, err)
		}
		if len(w.writes) != k+1 {
			return fmt.Sprintf("writer fails at write %d but %d writes were issued", k, len(w.writes))
		}
		for i := 0; i < k; i++ {
			if !bytes.Equal(w.writes[i], w0.writes[i]) {
				return fmt.Sprintf("writes before the failure differ at %d", i)
			}
		}
	}
	return ""
}

// c20Clause2: the formatted text of a canonical document parses to the same rendering and is a fixed point.
func c20Clause2(md []byte) string {
	t1 := parseMem(md)
	if t1.err != "" {
		return ""
	}
	w1, err, perr := formatDoc(t1.roots, -1, nil, false)
	if perr != "" || err != nil {
		return ""
	}
	f1 := joinWrites(w1)
	t2 := parseMem(f1)
	h1, _ := render(t1.roots, t1.refs, renderCfg{})
	h2, _ := render(t2.roots, t2.refs, renderCfg{})
	if normBlocks(h1) != normBlocks(h2) {
		return fmt.Sprintf("formatting changes the meaning: formatted %q renders %q, original renders %q", f1, h2, h1)
	}
	w2, _, _ := formatDoc(t2.roots, -1, nil, false)
	if f2 := joinWrites(w2); !bytes.Equal(f2, f1) {
		return fmt.Sprintf("formatting is not a fixed point: %q then %q", f1, f2)
	}
	return ""
}

func runC20(c *Ctx) {
	c.Res.Rule = "clause 1: every document of the general stream (corpus, line/fragment/mutation generators incl. CR/CRLF, tabs, NUL, invalid UTF-8) and every generated canonical document: Format on a healthy writer (with and without WriteString) succeeds, is byte-identical on both, leaves tree and Source unchanged; with a writer failing at write k (every k up to 40 quick / 200 thorough) it returns exactly that error, issues no write after the failing one, and the writes before it equal the healthy run's; clause 2: canonical documents of the formatter's supported set (Spec.inFDoc, DESIGN.md §7) serialised under seeded choices: the formatted text parses to a document with the same rendering (token-canonical HTML) and formats to itself; non-trivial = >= 3 writes issued (clause 1) / document in FDoc with a container or >= 2 blocks (clause 2); distinct by input"
	maxFail := 40
	if !c.quick() {
		maxFail = 200
	}
	one := func(idx int, fam string, doc []byte) {
		c.fam(fam, "cases", 1)
		r := c20Clause1(doc, maxFail)
		c.count(string(doc), len(doc) > 3)
		if r != "" {
			c.report("format-clause1:"+kindOfFailure(r), doc, fam, r, func(x []byte) bool { return kindOfFailure(c20Clause1(x, maxFail)) == kindOfFailure(r) }, func(x []byte) string { return c20Clause1(x, maxFail) })
		}
	}
	// the formatter's writer against its Lean model (the subject of theorems fw_sticky / format_first_error)
	if !replayMode {
		corr := &Batch{c: c}
		pieces := []string{"a", "ab\n", "\n", "\n\n", "x\ny", "", " ", "é", "\nq", "t \n"}
		indents := []string{"> ", "  ", "   ", "", "1. ", "\t", "> > ", " \u00a0", "x "}
		for i := 0; i < c.N(20000, 400000); i++ {
			rng := newRng(c.Seed, "c20-fw", i)
			var ops []format.VerifWriterOp
			var wire []string
			for k := 1 + rng.Intn(10); k > 0; k-- {
				switch rng.Intn(5) {
				case 0:
					a := rng.Pick(indents)
					ops = append(ops, format.VerifWriterOp{Op: "push", Arg: a})
					wire = append(wire, "push:"+hx([]byte(a)))
				case 1:
					ops = append(ops, format.VerifWriterOp{Op: "pop"})
					wire = append(wire, "pop")
				default:
					a := rng.Pick(pieces) + rng.Pick(pieces)
					ops = append(ops, format.VerifWriterOp{Op: "s", Arg: a})
					wire = append(wire, "s:"+hx([]byte(a)))
				}
			}
			failAt := -1
			fa := "-"
			if rng.Intn(3) > 0 {
				failAt = rng.Intn(12)
				fa = fmt.Sprint(failAt)
			}
			w := &scriptWriter{failAt: failAt, err: errors.New("e")}
			var err error
			var hw, sl bool
			if p := safely(func() { err, hw, sl = format.VerifRunWriter(w, ops) }); p != "" {
				c.report("format-writer-panics", nil, "writer", p+" ops="+strings.Join(wire, ";"), nil, nil)
				continue
			}
			logs := "-"
			if len(w.writes) > 0 {
				parts := make([]string, len(w.writes))
				for j, x := range w.writes {
					parts[j] = hx(x)
				}
				logs = strings.Join(parts, ";")
			}
			c.fam("writer", "cases", 1)
			c.count("fw:"+fa+strings.Join(wire, ";"), failAt >= 0 && failAt < len(w.writes))
			corr.Add("fw\t"+fa+"\t"+strings.Join(wire, ";"), fmt.Sprintf("%s %s %s %s", b01(err != nil), b01(hw), b01(sl), logs))
			if err != nil && len(w.writes) != failAt+1 {
				c.report("write-after-error", nil, "writer", "ops="+strings.Join(wire, ";"), nil, nil)
			}
		}
		corr.Flush()
	}
	if replayMode {
		one(0, "replay", replayInput)
		if r := c20Clause2(replayInput); r != "" {
			c.report("format-clause2", replayInput, "replay", r, nil, nil)
		}
		return
	}
	docStream(c.Seed, "c20", c.N(12000, 300000), true, func(idx int, kind string, doc []byte) bool {
		one(idx, kind, doc)
		return true
	})
	// Format itself against its Lean model (Model/FormatDoc.lean, the subject of the C20Doc theorems): every write, the
	// error and panic flags, healthy and failing writers, parsed and synthetic forests
	{
		corrF := &Batch{c: c}
		xfmtAll(c, corrF, 2)
	}
	n := c.N(12000, 400000)
	inF := 0
	for i := 0; i < n; i++ {
		seed := c.Seed*7000003 + uint64(i)
		size := 1 + i%4
		crlf := i%3 == 1
		d, ok := askDoc(c, seed, size, crlf, "all")
		if !ok {
			continue
		}
		c.fam("canonical", "cases", 1)
		if i%4 == 0 {
			one(i, "canonical", d.md)
		}
		if !d.fdoc {
			continue
		}
		inF++
		c.fam("canonical", "in-FDoc", 1)
		nt := d.top >= 2 || bytes.Contains(d.md, []byte("> ")) || strings.Contains(string(d.md), "- ")
		c.count("fdoc:"+string(d.md), nt)
		if nt && len(d.md) < 100 {
			c.sample(map[string]string{"canonical markdown": string(d.md)})
		}
		if r := c20Clause2(d.md); r != "" {
			best := d
			mask := uint64(1)<<uint(d.top) - 1
			for j := 0; j < d.top && d.top <= 20; j++ {
				try := mask &^ (1 << uint(j))
				if dd, ok := askDoc(c, seed, size, crlf, fmt.Sprint(try)); ok && dd.fdoc && c20Clause2(dd.md) != "" {
					mask, best = try, dd
				}
			}
			c.report("format-clause2:"+kindOfFailure(r), best.md, "canonical", fmt.Sprintf("seed=%d size=%d mask=%d: %s", seed, size, mask, c20Clause2(best.md)), nil, nil)
		}
	}
}
