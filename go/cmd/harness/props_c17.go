//go:build verif

package main

import (
	"bytes"
	"fmt"
	"strings"

	"golang.org/x/net/html"
	cm "zombiezen.com/go/commonmark"
)

func init() { props["C17"] = runC17 }

// onlyLt reports whether filtered is plain with some '<' replaced by "&lt;" and nothing else changed.
func onlyLt(plain, filtered []byte) bool {
	i, j := 0, 0
	for j < len(plain) {
		switch {
		case i < len(filtered) && filtered[i] == plain[j]:
			i++
			j++
		case plain[j] == '<' && bytes.HasPrefix(filtered[i:], []byte("&lt;")):
			i += 4
			j++
		default:
			return false
		}
	}
	return i == len(filtered)
}

// xnetStartTags: start tags per golang.org/x/net/html's tokenizer (a sanity check of the Lean transcription,
// never a verdict: it differs from WHATWG in raw-text handling, which we stop at).
func xnetStartTags(b []byte) (tags []string, sawRawText bool) {
	z := html.NewTokenizer(bytes.NewReader(b))
	for {
		tt := z.Next()
		switch tt {
		case html.ErrorToken:
			return
		case html.StartTagToken, html.SelfClosingTagToken:
			name, _ := z.TagName()
			n := string(name)
			tags = append(tags, n)
			switch n {
			case "script", "style", "title", "textarea", "xmp", "iframe", "noembed", "noframes", "plaintext", "noscript":
				sawRawText = true
				return
			}
		}
	}
}

var c17Filters = []string{"gfm", "all", "none", "set:script,style,title,textarea,xmp,iframe,noembed,noframes,plaintext,s", "set:s,b"}

func rejectsAllRawText(f string) bool {
	return f == "gfm" || f == "all" || strings.HasPrefix(f, "set:script,style,title,textarea,xmp,iframe,noembed,noframes,plaintext")
}

func runC17(c *Ctx) {
	c.Res.Rule = "raw runs: every string <= k over {<,>,!,-,/,?,[,],s,3,SP,\",',=,C} through filterRaw with a predicate rejecting the name s (exhaustive), random raw runs from HTML-ish fragments (comments, CDATA, declarations, processing instructions, quoted attributes, stray <, upper case), and whole documents (corpus, seeded generators, HTML blocks and inline raw HTML) rendered with FilterTag in {GFM, reject-all, reject-none, name sets}; (a) the filtered bytes must be the unfiltered bytes with only '<' -> '&lt;' substitutions (whole rendering and single runs), reject-none must change nothing; (b) the Lean transcription of the WHATWG tokenizer (Spec.startTags) run over the filtered output must report no start tag whose name the predicate rejects (predicates rejecting every raw-text element only); filterRaw is also compared with the Lean model byte for byte (correspondence); non-trivial = the input contains '<' followed by a rejected name or one of <!-- <![ <? ; distinct by (input, predicate)"
	corr := &Batch{c: c}
	orc := &OracleBatch{c: c}
	rawOne := func(fam string, filter string, raw []byte) {
		c.fam(fam, "cases", 1)
		out := cm.VerifFilterRaw(filterFunc(filter), raw)
		nt := bytes.Contains(raw, []byte("<s")) || bytes.Contains(raw, []byte("<!")) || bytes.Contains(raw, []byte("<?")) || bytes.Contains(bytes.ToLower(raw), []byte("<script"))
		c.count(filter+string(raw), nt)
		if nt && len(raw) < 40 && len(raw) > 5 {
			c.sample(map[string]string{"raw": printable(raw), "predicate": filter, "filtered": string(out)})
		}
		corr.Add("filter\t"+filterWire(filter)+"\t"+hx(raw), hx(out))
		if !onlyLt(raw, out) {
			c.report("filter-changes-more-than-lt", raw, fam, fmt.Sprintf("predicate %s: %q -> %q", filter, raw, out), func(x []byte) bool {
				return !onlyLt(x, cm.VerifFilterRaw(filterFunc(filter), x))
			}, nil)
		}
		if filter == "none" && !bytes.Equal(out, raw) {
			c.report("reject-none-changes-output", raw, fam, string(out), nil, nil)
		}
		if rejectsAllRawText(filter) {
			orc.Add("tok\t"+filterWire(filter)+"\t"+hx(out), "-", func(got string) {
				c.report("rejected-start-tag-survives-filter", raw, fam, "", func(x []byte) bool {
					o := cm.VerifFilterRaw(filterFunc(filter), x)
					return c.drv.Ask1("tok\t"+filterWire(filter)+"\t"+hx(o)) != "-"
				}, func(m []byte) string {
					o := cm.VerifFilterRaw(filterFunc(filter), m)
					return fmt.Sprintf("predicate %s: raw %q filtered %q: tokenizer sees rejected start tag(s) %s", filter, m, o, c.drv.Ask1("tok\t"+filterWire(filter)+"\t"+hx(o)))
				})
			})
		}
	}
	docOne := func(idx int, fam string, doc []byte) {
		res := parseMem(doc)
		if res.err != "" {
			return
		}
		c.fam(fam, "cases", 1)
		plain, perr := render(res.roots, res.refs, renderCfg{})
		if perr != "" {
			return
		}
		// one renderer value whose predicate is replaced between calls: every call must obey the predicate it is made with
		if idx%2 == 0 {
			shared := &cm.HTMLRenderer{ReferenceMap: res.refs}
			for pass := 0; pass < 2; pass++ {
				for k := range c17Filters {
					f := c17Filters[k]
					if pass == 1 {
						f = c17Filters[len(c17Filters)-1-k]
					}
					shared.FilterTag = filterFunc(f)
					var buf bytes.Buffer
					if p := safely(func() { shared.Render(&buf, res.roots) }); p != "" {
						continue
					}
					if want, perr := render(res.roots, res.refs, renderCfg{filter: f}); perr == "" && !bytes.Equal(want, buf.Bytes()) {
						c.report("filtering-depends-on-renderer-history", doc, fam, fmt.Sprintf("predicate %s on a renderer used with other predicates before: %q, on a fresh renderer: %q", f, buf.Bytes(), want), nil, nil)
					}
				}
			}
		}
		for _, f := range c17Filters {
			f := f
			out, perr := render(res.roots, res.refs, renderCfg{filter: f})
			if perr != "" {
				continue
			}
			c.count(f+string(doc), bytes.Contains(doc, []byte("<")))
			if !onlyLt(plain, out) {
				c.report("filtered-rendering-differs-by-more-than-lt", doc, fam, fmt.Sprintf("predicate %s: %q vs %q", f, plain, out), func(x []byte) bool {
					r := parseMem(x)
					a, _ := render(r.roots, r.refs, renderCfg{})
					b, _ := render(r.roots, r.refs, renderCfg{filter: f})
					return !onlyLt(a, b)
				}, nil)
			}
			if f == "none" && !bytes.Equal(out, plain) {
				c.report("reject-none-changes-rendering", doc, fam, "", nil, nil)
			}
			if f != "" && f != "none" {
				// the hypothesis of the whole-page theorem (render_no_rejected_start_tag): no name candidate straddles
				// a verbatim-copied source slice and what is written next. A parser tree that fails it is outside
				// the theorem's reach (reported, since the property is then only covered by the tokenizer oracle).
				for ri, rb := range res.roots {
					cfg := renderCfg{filter: f, soft: cm.SoftBreakBehavior(idx % 3), ignoreRaw: false}
					op := fmt.Sprintf("seams\t%d\t%s\t%s\t%s\t%s\t%s\t%s", int(cfg.soft), b01(cfg.ignoreRaw), filterWire(f), hx(rb.Source), wireRoot(rb), refMapWire(res.refs), extWire(rb.Source, rb.AsNode()))
					ri := ri
					orc.Add(op, "ok", func(got string) {
						c.report("whole-page-theorem-hypothesis-rawSeamsOK-fails-on-parser-tree", doc, fam, fmt.Sprintf("root %d predicate %s: %s", ri, f, got), nil, nil)
					})
				}
			}
			if rejectsAllRawText(f) {
				orc.Add("tok\t"+filterWire(f)+"\t"+hx(out), "-", func(got string) {
					c.report("rejected-start-tag-in-rendering", doc, fam, "", func(x []byte) bool {
						r := parseMem(x)
						o, _ := render(r.roots, r.refs, renderCfg{filter: f})
						return c.drv.Ask1("tok\t"+filterWire(f)+"\t"+hx(o)) != "-"
					}, func(m []byte) string {
						r := parseMem(m)
						o, _ := render(r.roots, r.refs, renderCfg{filter: f})
						return fmt.Sprintf("predicate %s: output %q: rejected start tag(s) %s", f, o, c.drv.Ask1("tok\t"+filterWire(f)+"\t"+hx(o)))
					})
				})
			}
		}
	}
	if replayMode {
		for _, f := range c17Filters {
			rawOne("replay", f, replayInput)
		}
		docOne(0, "replay", replayInput)
		corr.Flush()
		orc.Flush()
		return
	}
	alpha := []string{"<", ">", "!", "-", "/", "?", "[", "]", "s", "3", " ", "\"", "'", "=", "C"}
	max := 5
	if !c.quick() {
		max = 6
	}
	sFilter := "set:script,style,title,textarea,xmp,iframe,noembed,noframes,plaintext,s"
	enumStrings(alpha, max, func(s []byte) bool {
		rawOne("exhaustive", sFilter, s)
		return true
	})
	c.fam("exhaustive", "maxlen", max)
	// tag grammar: a start or end tag of an allowed or a rejected element, every short run of attribute syntax,
	// then a rejected start tag and a tail that would close a quote the filter (wrongly) believes to be open.
	{
		prefixes := []string{"<x", "</x", "<s", "</s", "<X", "</ x"}
		tails := []string{"", "\">", "'>", ">"}
		mid := []string{" ", "/", "=", "\"", "'", ">", "a"}
		one := func(fam string, m []byte) {
			for _, p := range prefixes {
				for _, t := range tails {
					rawOne(fam, sFilter, []byte(p+string(m)+"<s>"+t))
				}
			}
		}
		k := 4
		if !c.quick() {
			k = 6
		}
		enumStrings(mid, k, func(s []byte) bool {
			one("tag-grammar-exhaustive", s)
			return true
		})
		c.fam("tag-grammar-exhaustive", "maxlen", k)
		for i := 0; i < c.N(20000, 400000); i++ {
			rng := newRng(c.Seed, "c17-tag", i)
			var sb strings.Builder
			for n := 5 + rng.Intn(6); n > 0; n-- {
				sb.WriteString(rng.Pick(mid))
			}
			one("tag-grammar-random", []byte(sb.String()))
		}
	}
	frag := []string{"<DIV>", "<XMP>", "<Xmp>", "<PRE>", "<Pre>", "<EM>", "<TD>", "<Script>", "<STYLE>", "<a x=\n'>", "<a x='", "<a x=\"", "'>", "<!--'>", "<!--\">", "\n\n", "<", ">", "<s>", "<S>", "<s ", "<script>", "</script>", "<SCRIPT x=y>", "<scr", "ipt>", "<!--", "-->", "--!>", "<!-->", "<!--->", "<!---", "<![CDATA[", "]]>", "<!D", "<!d x \">\">", "<?", "?>", "<3", "< ", "<s<s>", "<a title=\"", "\">", "<a title='>'>", "=", "\"", "'", "/", "</s>", "</ s>", "</>", "<>", "s", " ", "\n", "x", "<textarea>", "<TITLE>", "<style", "<xmp/>", "<iframe\n>", "<plaintext>", "<noembed>", "<noframes>", "-", "!", "[", "]"}
	n := c.N(60000, 1500000)
	for i := 0; i < n; i++ {
		rng := newRng(c.Seed, "c17-raw", i)
		var sb strings.Builder
		for k := 1 + rng.Intn(7); k > 0; k-- {
			sb.WriteString(rng.Pick(frag))
		}
		rawOne("fragments", c17Filters[i%len(c17Filters)], []byte(sb.String()))
		// cross-check of the tokenizer transcription against x/net/html (never a verdict)
		if i%10 == 0 {
			raw := []byte(sb.String())
			tags, stop := xnetStartTags(raw)
			if !stop {
				want := "-"
				if len(tags) > 0 {
					parts := make([]string, len(tags))
					for k, t := range tags {
						parts[k] = hx([]byte(t))
					}
					want = strings.Join(parts, ",")
				}
				got := c.drv.Ask1("tags\t" + hx(raw))
				if got != want {
					c.fam("tokenizer-crosscheck", "differs-from-x/net/html", 1)
					if c.Res.ExtChecks == nil {
						c.Res.ExtChecks = map[string]string{}
					}
					if len(c.Res.ExtChecks) < 5 {
						c.Res.ExtChecks[printable(raw)] = "lean=" + got + " xnet=" + want
					}
				} else {
					c.fam("tokenizer-crosscheck", "agrees", 1)
				}
			}
		}
	}
	docStream(c.Seed, "c17", c.N(8000, 200000), true, func(idx int, kind string, doc []byte) bool {
		docOne(idx, kind, doc)
		return true
	})
	for i := 0; i < c.N(8000, 200000); i++ {
		rng := newRng(c.Seed, "c17-doc", i)
		var sb strings.Builder
		for k := 1 + rng.Intn(6); k > 0; k-- {
			switch rng.Intn(4) {
			case 0:
				sb.WriteString("\n\n<div>\n")
			case 1:
				sb.WriteString("\n")
			case 2:
				sb.WriteString(" text ")
			}
			sb.WriteString(rng.Pick(frag))
		}
		docOne(i, "html-docs", []byte(sb.String()))
	}
	corr.Flush()
	orc.Flush()
}
