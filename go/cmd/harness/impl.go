//go:build verif

package main

import (
	"bytes"
	"errors"
	"fmt"
	"io"
	"strings"
	"time"

	cm "zombiezen.com/go/commonmark"
)

// parseResult is what either entry point delivers.
type parseResult struct {
	roots []*cm.RootBlock
	refs  cm.ReferenceMap
	err   string // "" | "eof" | "panic: …" | "error: …"
}

func safely(f func()) (panicMsg string) {
	defer func() {
		if r := recover(); r != nil {
			panicMsg = fmt.Sprint(r)
		}
	}()
	f()
	return ""
}

// parseMem runs commonmark.Parse on a private copy of the input.
func parseMem(input []byte) parseResult {
	var res parseResult
	buf := append([]byte(nil), input...)
	if p := safely(func() { res.roots, res.refs = cm.Parse(buf) }); p != "" {
		res.err = "panic: " + p
	}
	return res
}

// schedReader delivers data according to a schedule of chunk sizes; size 0 = empty read.
// After the schedule is exhausted it delivers everything that is left.
type schedReader struct {
	data    []byte
	sched   []int
	eofWith bool // return io.EOF together with the last data
	failAt  int  // fail after this many bytes in total (-1 = never)
	failErr error
	off     int
	reads   int
	// recovers: the failure is reported ONCE; a parser that (wrongly) reads again gets the rest of the data
	recovers bool
	failed   bool
	// readsAfterFail counts Read calls made after the failure was reported (must stay 0)
	readsAfterFail int
}

func (r *schedReader) Read(p []byte) (int, error) {
	r.reads++
	if r.failed {
		r.readsAfterFail++
	}
	if r.failAt >= 0 && r.off >= r.failAt {
		if !r.recovers || !r.failed {
			r.failed = true
			if r.recovers {
				r.failAt = -1
			}
			return 0, r.failErr
		}
	}
	n := len(p)
	if len(r.sched) > 0 {
		n = r.sched[0]
		r.sched = r.sched[1:]
		if n > len(p) {
			n = len(p)
		}
	}
	rem := len(r.data) - r.off
	if r.failAt >= 0 && r.failAt-r.off < rem {
		rem = r.failAt - r.off
	}
	if n > rem {
		n = rem
	}
	copy(p, r.data[r.off:r.off+n])
	r.off += n
	if r.failAt >= 0 && r.off >= r.failAt && n > 0 && r.eofWith {
		r.failed = true
		if r.recovers {
			r.failAt = -1
		}
		return n, r.failErr
	}
	if r.off >= len(r.data) && (r.failAt < 0 || r.failAt > len(r.data)) {
		if n == 0 || r.eofWith {
			return n, io.EOF
		}
	}
	return n, nil
}

// parseStream drains a BlockParser over the reader, extracting references and rewriting inlines
// exactly as Parse does. extraCalls further NextBlock calls are made after the first error.
func parseStream(r io.Reader, extraCalls int) (res parseResult, lateErrs []string) {
	p := safely(func() {
		bp := cm.NewBlockParser(r)
		res.refs = make(cm.ReferenceMap)
		for {
			b, err := bp.NextBlock()
			if err != nil {
				if err == io.EOF {
					res.err = "eof"
				} else {
					res.err = "error: " + err.Error()
				}
				for i := 0; i < extraCalls; i++ {
					b2, err2 := bp.NextBlock()
					switch {
					case b2 != nil:
						lateErrs = append(lateErrs, "block-after-error")
					case err2 == nil:
						lateErrs = append(lateErrs, "nil-error")
					case err2 == io.EOF:
						lateErrs = append(lateErrs, "eof")
					default:
						lateErrs = append(lateErrs, "error: "+err2.Error())
					}
				}
				break
			}
			res.roots = append(res.roots, b)
			res.refs.Extract(b.Source, b.AsNode())
		}
		ip := &cm.InlineParser{ReferenceMatcher: res.refs}
		for _, b := range res.roots {
			ip.Rewrite(b)
		}
	})
	if p != "" {
		res.err = "panic: " + p
	}
	return
}

func rootsWire(roots []*cm.RootBlock) string {
	if len(roots) == 0 {
		return "-"
	}
	parts := make([]string, len(roots))
	for i, r := range roots {
		parts[i] = fmt.Sprintf("%d,%d,%d,%s", r.StartOffset, r.EndOffset, r.StartLine, hx(r.Source))
	}
	return strings.Join(parts, ";")
}

// fullWire is the canonical form of a whole parse: per root offsets, line, source, tree; then the map.
func fullWire(res parseResult) string {
	var sb strings.Builder
	for _, r := range res.roots {
		fmt.Fprintf(&sb, "%d,%d,%d,%s,", r.StartOffset, r.EndOffset, r.StartLine, hx(r.Source))
		sb.WriteString(wireRoot(r))
		sb.WriteString(" | ")
	}
	sb.WriteString("refs=" + refMapWire(res.refs))
	sb.WriteString(" err=" + res.err)
	return sb.String()
}

type renderCfg struct {
	soft      cm.SoftBreakBehavior
	ignoreRaw bool
	filter    string // "", "gfm", "all", "none", or "set:a,b"
}

func (c renderCfg) String() string {
	return fmt.Sprintf("%d/%v/%s", c.soft, c.ignoreRaw, c.filter)
}

func filterFunc(name string) func([]byte) bool {
	switch {
	case name == "":
		return nil
	case name == "gfm":
		return cm.FilterTagGFM
	case name == "all":
		return func([]byte) bool { return true }
	case name == "none":
		return func([]byte) bool { return false }
	case strings.HasPrefix(name, "set:"):
		set := map[string]bool{}
		for _, s := range strings.Split(name[4:], ",") {
			set[s] = true
		}
		return func(t []byte) bool { return set[string(t)] }
	}
	return nil
}

func render(roots []*cm.RootBlock, refs cm.ReferenceMap, cfg renderCfg) (out []byte, perr string) {
	r := &cm.HTMLRenderer{ReferenceMap: refs, SoftBreakBehavior: cfg.soft, IgnoreRaw: cfg.ignoreRaw, FilterTag: filterFunc(cfg.filter)}
	var buf bytes.Buffer
	perr = safely(func() {
		if err := r.Render(&buf, roots); err != nil {
			perr = "error: " + err.Error()
		}
	})
	return buf.Bytes(), perr
}

func renderDefault(input []byte) []byte {
	res := parseMem(input)
	out, _ := render(res.roots, res.refs, renderCfg{})
	return out
}

func renderSafe(input []byte) []byte {
	res := parseMem(input)
	out, _ := render(res.roots, res.refs, renderCfg{ignoreRaw: true})
	return out
}

var allCfgs = func() []renderCfg {
	var out []renderCfg
	for _, s := range []cm.SoftBreakBehavior{cm.SoftBreakPreserve, cm.SoftBreakSpace, cm.SoftBreakHarden} {
		for _, ig := range []bool{false, true} {
			for _, f := range []string{"", "gfm", "all", "none", "set:script,b,p,em", "set:/em,strong,/p,li,/a,/code,br"} {
				out = append(out, renderCfg{s, ig, f})
			}
		}
	}
	return out
}()

// withTimeout runs f in a goroutine; false = did not finish in time (the goroutine is abandoned).
func withTimeout(d time.Duration, f func()) bool {
	done := make(chan struct{})
	go func() {
		defer close(done)
		f()
	}()
	select {
	case <-done:
		return true
	case <-time.After(d):
		return false
	}
}

var errInjected = errors.New("injected reader failure")
