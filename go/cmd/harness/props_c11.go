//go:build verif

package main

import (
	"bytes"
	"fmt"
	"strings"
	"unicode"
	"unicode/utf8"

	cm "zombiezen.com/go/commonmark"
)

func init() { props["C11"] = runC11 }

// emphStructure returns the canonical structure of a one-paragraph document as the implementation parsed it:
// text bytes, {e…} for emphasis, {s…} for strong. ok=false when the document is not one paragraph of
// text/emphasis/strong only (then it is outside C11's domain).
func emphStructure(doc []byte) (out []byte, src []byte, ok bool) {
	res := parseMem(doc)
	if res.err != "" || len(res.roots) != 1 || res.roots[0].Kind() != cm.ParagraphKind {
		return nil, nil, false
	}
	root := res.roots[0]
	ok = true
	var walk func(in *cm.Inline)
	walk = func(in *cm.Inline) {
		switch in.Kind() {
		case cm.TextKind:
			out = append(out, root.Source[in.Span().Start:in.Span().End]...)
		case cm.EmphasisKind, cm.StrongKind:
			if in.Kind() == cm.StrongKind {
				out = append(out, "{s"...)
			} else {
				out = append(out, "{e"...)
			}
			for i := 0; i < in.ChildCount(); i++ {
				walk(in.Child(i))
			}
			out = append(out, '}')
		default:
			ok = false
		}
	}
	for i := 0; i < root.ChildCount(); i++ {
		if in := root.Child(i).Inline(); in != nil {
			walk(in)
		}
	}
	// the inline parser never sees the paragraph's leading indentation; to the flanking rules the start of
	// the line is white space either way
	return out, bytes.TrimLeft(root.Source, " \t"), ok
}

func uextTable(src []byte) string {
	seen := map[rune]bool{}
	var parts []string
	add := func(r rune) {
		if !seen[r] {
			seen[r] = true
			// the tables come from Go's unicode package, NOT from the library under test: a library predicate that
			// drifts from them is then a correspondence difference with the model
			parts = append(parts, fmt.Sprintf("%d,%s,%s", r, b01(unicode.Is(unicode.Zs, r)), b01(unicode.In(r, unicode.Pc, unicode.Pd, unicode.Pe, unicode.Pf, unicode.Pi, unicode.Po, unicode.Ps))))
		}
	}
	add(' ')
	add(utf8.RuneError)
	for _, r := range string(src) {
		add(r)
	}
	// every suffix/prefix decode may also yield RuneError or partial runes; add runes decoded from the end of every prefix
	for i := 1; i <= len(src); i++ {
		r, _ := utf8.DecodeLastRune(src[:i])
		add(r)
	}
	return strings.Join(parts, ";")
}

func runC11(c *Ctx) {
	c.Res.Rule = "one-paragraph lines: every string <= k over {*, _, a, SP, '.'} (exhaustive; k=8 quick, 9 thorough), every string <= k' over that alphabet plus a non-ASCII letter, NBSP and a non-ASCII punctuation mark (k'=5 quick, 6 thorough), random lines <= 40; the implementation's emphasis/strong structure (from the parsed tree) is compared with the Lean model of the Go loop with its search bounds (correspondence) and with the Lean transcription of CommonMark's process-emphasis without the bounds (oracle); flags and the generated match/bucket predicates are compared exhaustively on their finite domains; non-trivial = the line contains at least two delimiter runs; distinct by input"
	corr := &Batch{c: c}
	orc := &OracleBatch{c: c}
	specOf := func(x []byte) (string, string, bool) {
		st, src, ok := emphStructure(x)
		if !ok {
			return "", "", false
		}
		// the model works on the paragraph's source text (what the inline parser sees)
		return hx(st), "emph\tspec\t" + hx(src) + "\t" + uextTable(src), true
	}
	one := func(fam string, doc []byte) {
		c.fam(fam, "cases", 1)
		st, src, ok := emphStructure(doc)
		if !ok {
			c.fam(fam, "outside-domain", 1)
			c.Res.Evals++
			return
		}
		runs := strings.Count(string(doc), "*") + strings.Count(string(doc), "_")
		nt := runs >= 2
		c.count(string(doc), nt)
		if nt && len(doc) > 4 && len(doc) < 14 {
			c.sample(map[string]string{"line": printable(doc), "structure": string(st)})
		}
		tbl := uextTable(src)
		corr.Add("emph\timpl\t"+hx(src)+"\t"+tbl, hx(st))
		orc.Add("emph\tspec\t"+hx(src)+"\t"+tbl, hx(st), func(got string) {
			c.report("emphasis-differs-from-spec-procedure", doc, fam, "", func(x []byte) bool {
				a, op, ok := specOf(x)
				return ok && c.drv.Ask1(op) != a
			}, func(m []byte) string {
				a, op, _ := specOf(m)
				return fmt.Sprintf("implementation %q, CommonMark process-emphasis %q", unhx(a), unhx(c.drv.Ask1(op)))
			})
		})
	}
	if replayMode {
		one("replay", replayInput)
		corr.Flush()
		orc.Flush()
		return
	}
	// the two rune classifiers against CommonMark 0.30 section 2.1 over Go's Unicode tables, for EVERY code point, and
	// the two table facts the theorems unicode_whitespace_eq_spec / unicode_punctuation_eq_spec assume
	{
		asciiPunct := "!\"#$%&'()*+,-./:;<=>?@[\\]^_`{|}~"
		tableOK := unicode.Is(unicode.Zs, 0x20)
		for r := rune(0); r <= unicode.MaxRune; r++ {
			inP := unicode.In(r, unicode.Pc, unicode.Pd, unicode.Pe, unicode.Pf, unicode.Pi, unicode.Po, unicode.Ps)
			if r < 0x80 && inP && !strings.ContainsRune(asciiPunct, r) {
				tableOK = false
			}
			wantWS := unicode.Is(unicode.Zs, r) || r == '\t' || r == '\n' || r == '\f' || r == '\r'
			wantP := inP || (r < 0x80 && strings.ContainsRune(asciiPunct, r))
			if got := cm.VerifIsUnicodeWhitespace(r); got != wantWS {
				c.report("unicode-whitespace-classifier-differs-from-spec", []byte(string(r)), "all-code-points", fmt.Sprintf("U+%04X: isUnicodeWhitespace=%v, CommonMark 0.30 (Zs, tab, LF, FF, CR)=%v", r, got, wantWS), nil, nil)
				break
			}
			if got := cm.VerifIsUnicodePunctuation(r); got != wantP {
				c.report("unicode-punctuation-classifier-differs-from-spec", []byte(string(r)), "all-code-points", fmt.Sprintf("U+%04X: isUnicodePunctuation=%v, CommonMark 0.30 (ASCII punctuation or Pc Pd Pe Pf Pi Po Ps)=%v", r, got, wantP), nil, nil)
				break
			}
		}
		if !tableOK {
			c.report("unicode-table-hypothesis-fails", nil, "all-code-points", "U+0020 not in Zs, or an ASCII non-punctuation character in a P category", nil, nil)
		}
		c.fam("all-code-points", "cases", int(unicode.MaxRune)+1)
	}
	// generated predicates on their finite domains
	for ot := 1; ot <= 4; ot++ {
		for ct := 1; ct <= 4; ct++ {
			for f := 0; f < 16; f++ {
				for on := 0; on <= 8; on++ {
					for cn := 0; cn <= 8; cn++ {
						oo, oc, co, cc := f&1 != 0, f&2 != 0, f&4 != 0, f&8 != 0
						corr.Add(fmt.Sprintf("dmatch\t%d\t%s\t%s\t%d\t%d\t%s\t%s\t%d", ot, b01(oo), b01(oc), on, ct, b01(co), b01(cc), cn),
							b01(cm.VerifIsEmphasisDelimiterMatch(ot, oo, oc, on, ct, co, cc, cn)))
					}
				}
			}
		}
	}
	for t := 1; t <= 4; t++ {
		for o := 0; o < 2; o++ {
			for n := 0; n <= 8; n++ {
				corr.Add(fmt.Sprintf("dmatch\t%d\t%d\t%d", t, o, n), fmt.Sprint(cm.VerifOpenersBottomIndex(t, o == 1, n)))
			}
		}
	}
	c.fam("generated-predicates", "cases", 4*4*16*81+4*2*9)
	max := 8
	if !c.quick() {
		max = 9
	}
	enumStrings([]string{"*", "_", "a", " ", "."}, max, func(s []byte) bool {
		one("exhaustive-ascii", s)
		return true
	})
	c.fam("exhaustive-ascii", "maxlen", max)
	max2 := 5
	if !c.quick() {
		max2 = 6
	}
	enumStrings([]string{"*", "_", "a", " ", ".", "é", " ", "“"}, max2, func(s []byte) bool {
		one("exhaustive-unicode", s)
		return true
	})
	c.fam("exhaustive-unicode", "maxlen", max2)
	// every ASCII punctuation character that starts no inline construct, as the neighbour of a delimiter run
	// (several are Unicode *symbols*, which the spec still counts as punctuation)
	for _, p := range []string{"$", "+", "=", "^", "|", "~", "%", ",", ";", ":", "\"", "'", "(", ")", "{", "}", "@", "/", "?", "-", "#", "."} {
		for _, d := range []string{"*", "_", "**", "__"} {
			for _, t := range []string{"a" + p + d + "a" + d, d + "a" + d + p, "a" + d + p + d + "a", d + p + d + "a", "a" + p + d + "b" + d + p + "c", d + p + "a" + p + d, p + d + "a" + d + p, "a" + d + p + "b" + d, d + "a" + p + d + "b"} {
				one("ascii-punctuation-neighbours", []byte(t))
			}
		}
	}
	// non-ASCII SYMBOLS (Sc, Sm, So: not punctuation in 0.30) and the form feed (Unicode whitespace) as neighbours
	for _, p := range []string{"£", "€", "©", "×", "→", "\f", "¡", "\u2003"} {
		for _, d := range []string{"*", "_", "**", "__"} {
			for _, t := range []string{"a" + p + d + "a" + d, d + "a" + d + p, "a" + d + p + d + "a", d + p + d + "a", "a" + p + d + "b" + d + p + "c", d + p + "a" + p + d, p + d + "a" + d + p, "a" + d + p + "b" + d, d + "a" + p + d + "b", d + p + "b" + d} {
				one("symbol-and-formfeed-neighbours", []byte(t))
			}
		}
	}
	// very many delimiter runs in one paragraph (a bound on the delimiter stack would show here)
	for _, n := range []int{300, 513, 600, 1100} {
		for _, unit := range []string{"*a* ", "**a** ", "_a_ ", "*a ", "a* ", "*a**b* ", "_a *b_ c* "} {
			if c.quick() && n > 600 && unit != "*a* " {
				continue
			}
			one("many-runs", []byte(strings.Repeat(unit, n)))
		}
	}
	// emphasis around bracket pairs that do or do not become links (live and dead brackets): the whole inline parser,
	// compared with the Lean model of Parse (parse op)
	{
		pc := &Batch{c: c}
		pieces := []string{"[", "]", "](c)", "[b](c)", "[d]", "*", "_", "**", "a", " ", "x", "![", "[r]", "][r]"}
		for i := 0; i < c.N(6000, 100000); i++ {
			rng := newRng(c.Seed, "c11-brackets", i)
			var sb strings.Builder
			for k := 2 + rng.Intn(10); k > 0; k-- {
				sb.WriteString(rng.Pick(pieces))
			}
			d := sb.String() + "\n"
			if rng.Intn(2) == 0 {
				d += "\n[r]: /u\n"
			}
			c.fam("brackets-and-emphasis", "cases", 1)
			parseCorr(c, pc, []byte(d))
		}
		for _, d := range []string{"[a [b](c) *d] e*\n", "*a [b [c](d) e*] f\n", "[x [y](z) __d] e__\n", "[a [b](c) *d*] e\n", "*[a*](c)\n", "[*a](c)*\n", "**[a [b](c) d]** e\n"} {
			parseCorr(c, pc, []byte(d))
		}
		pc.Flush()
	}
	alpha := []string{"*", "**", "***", "_", "__", "a", "b", " ", ".", ",", "é", " ", "“", "”", "(", ")", " ", "\xff", "ß", "$", "+", "~", "^", "|", "=", "£", "×", "\f"}
	for i := 0; i < c.N(40000, 1000000); i++ {
		rng := newRng(c.Seed, "c11", i)
		var sb strings.Builder
		for k := 1 + rng.Intn(14); k > 0; k-- {
			sb.WriteString(rng.Pick(alpha))
		}
		one("random", []byte(sb.String()))
	}
	corr.Flush()
	orc.Flush()
}
