//go:build verif

package main

import (
	"bytes"

	"fmt"
	"golang.org/x/net/html"
	"regexp"
	"strings"

	"zombiezen.com/go/commonmark/format"
)

func init() {
	props["C06"] = runC06
}

var multiNL = regexp.MustCompile(`\n{2,}`)

// normBlocks removes the insignificant inter-block whitespace: runs of two or more line feeds
// (the renderer's joiner between root blocks; a definition renders as nothing between two joiners).
func normBlocks(b []byte) string {
	return multiNL.ReplaceAllString(canonHTML(b), "")
}

// canonHTML re-serialises HTML token by token: character references in text and attribute values are
// decoded and escaped again in one way, so that `&#42;` and `*` (the same HTML) compare equal.
// Structure, tag names, attribute names/order/values and text are all kept.
func canonHTML(b []byte) string {
	z := html.NewTokenizer(bytes.NewReader(b))
	var sb strings.Builder
	for {
		tt := z.Next()
		if tt == html.ErrorToken {
			return sb.String()
		}
		t := z.Token()
		switch tt {
		case html.TextToken:
			sb.WriteString(html.EscapeString(t.Data))
		case html.StartTagToken, html.SelfClosingTagToken:
			sb.WriteString("<" + t.Data)
			for _, a := range t.Attr {
				sb.WriteString(" " + a.Key + "=\"" + html.EscapeString(a.Val) + "\"")
			}
			sb.WriteString(">")
		case html.EndTagToken:
			sb.WriteString("</" + t.Data + ">")
		default:
			sb.WriteString(t.String())
		}
	}
}

type genDoc struct {
	md, html []byte
	top      int
	fdoc     bool
}

func askDoc(c *Ctx, seed uint64, size int, crlf bool, mask string) (genDoc, bool) {
	a := c.drv.Ask1(fmt.Sprintf("gendoc\t%d\t%d\t%s\t%s", seed, size, b01(crlf), mask))
	parts := strings.Fields(a)
	if len(parts) != 4 {
		return genDoc{}, false
	}
	var top int
	fmt.Sscan(parts[2], &top)
	return genDoc{md: unhx(parts[0]), html: unhx(parts[1]), top: top, fdoc: parts[3] == "1"}, true
}

// c06Check returns "" if the canonical document renders to the HTML it denotes.
func c06Check(d genDoc) string {
	got := renderDefault(d.md)
	if normBlocks(got) != normBlocks(d.html) {
		return fmt.Sprintf("rendered %q, denoted %q", got, d.html)
	}
	return ""
}

func runC06(c *Ctx) {
	c.Res.Rule = "abstract documents generated in Lean (Spec.DocGen: paragraphs, ATX/setext headings, thematic breaks, fenced/indented code, block quotes, tight/loose bullet and ordered lists with nesting, HTML blocks, reference definitions; words with escaped punctuation, entities, emphasis, strong, code spans, inline/reference links, images, autolinks, raw tags, hard and soft breaks), nesting depth 1..4, serialised by Spec.ser under seeded choices (markers, fence characters and lengths, content indentation 1-4, backslash vs numeric-reference escaping, * vs _, title quoting, <dest> vs bare, ATX closing sequence, setext underline length, thematic-break spelling, 1-3 blank lines) with LF and CRLF; the implementation's Parse+RenderHTML output must equal Spec.denoteDoc modulo runs of >= 2 line feeds; plus the two named corollaries on dedicated generators (every-punctuation-escaped text, verbatim code blocks); non-trivial = document with >= 2 top-level blocks or a container; distinct by serialised text"
	if replayMode {
		// replay files carry the serialised document and its denotation
		return
	}
	one := func(seed uint64, size int, crlf bool, fam string) {
		d, ok := askDoc(c, seed, size, crlf, "all")
		if !ok {
			c.note("gendoc failed for seed %d", seed)
			return
		}
		c.fam(fam, "cases", 1)
		nt := d.top >= 2 || bytes.Contains(d.md, []byte("> ")) || bytes.Contains(d.md, []byte("- "))
		c.count(string(d.md), nt)
		if nt && len(d.md) < 120 {
			c.sample(map[string]string{"markdown": string(d.md), "denotes": string(d.html)})
		}
		if r := c06Check(d); r != "" {
			// shrink over the top-level blocks
			best := d
			mask := uint64(1)<<uint(d.top) - 1
			for i := 0; i < d.top && d.top <= 20; i++ {
				try := mask &^ (1 << uint(i))
				if dd, ok := askDoc(c, seed, size, crlf, fmt.Sprint(try)); ok && c06Check(dd) != "" {
					mask, best = try, dd
				}
			}
			c.report("canonical-document-renders-differently", best.md, fam, fmt.Sprintf("seed=%d size=%d crlf=%v mask=%d: %s", seed, size, crlf, mask, c06Check(best)), nil, nil)
		}
	}
	n := c.N(12000, 400000)
	for i := 0; i < n; i++ {
		seed := c.Seed*1000003 + uint64(i)
		size := 1 + i%4
		one(seed, size, i%5 == 4, fmt.Sprintf("depth-%d", size))
	}
	// corollary 1: backslash-escaping every punctuation character of a text yields the text literally
	punct := "!\"#$%&'()*+,-./:;<=>?@[\\]^_`{|}~"
	for i := 0; i < c.N(5000, 100000); i++ {
		rng := newRng(c.Seed, "c06-esc", i)
		var text, md strings.Builder
		for k := 1 + rng.Intn(12); k > 0; k-- {
			switch rng.Intn(3) {
			case 0:
				ch := punct[rng.Intn(len(punct))]
				text.WriteByte(ch)
				md.WriteByte('\\')
				md.WriteByte(ch)
			case 1:
				w := rng.Pick([]string{"a", "b1", "é", "Z"})
				text.WriteString(w)
				md.WriteString(w)
			default:
				if text.Len() > 0 && !strings.HasSuffix(text.String(), " ") {
					text.WriteByte(' ')
					md.WriteByte(' ')
				}
			}
		}
		t := strings.TrimSpace(text.String())
		m := strings.TrimSpace(md.String())
		if t == "" || strings.HasSuffix(m, "\\") {
			continue
		}
		c.fam("escaped-text", "cases", 1)
		c.count("esc:"+m, true)
		want := "<p>" + string(escapeHTMLGo(t)) + "</p>"
		if got := string(renderDefault([]byte(m + "\n"))); got != want {
			c.report("escaped-punctuation-not-literal", []byte(m+"\n"), "escaped-text", fmt.Sprintf("got %q want %q", got, want), func(x []byte) bool { return false }, nil)
		}
	}
	// corollary 2: code block contents come out verbatim
	for i := 0; i < c.N(5000, 100000); i++ {
		rng := newRng(c.Seed, "c06-code", i)
		var lines []string
		for k := 1 + rng.Intn(5); k > 0; k-- {
			lines = append(lines, rng.Pick([]string{"x", "  y", "", "*a*", "<b>&", "```", "~~~", "# h", "> q", "    z", "\\", "[l]: u", "- i", "\ttab"}))
		}
		fenceCh := rng.Pick([]string{"`", "~"})
		fence := strings.Repeat(fenceCh, 4+rng.Intn(3))
		md := fence + "\n" + strings.Join(lines, "\n") + "\n" + fence + "\n"
		var want strings.Builder
		want.WriteString("<pre><code>")
		for _, l := range lines {
			want.Write(escapeHTMLGo(l))
			want.WriteByte('\n')
		}
		want.WriteString("</code></pre>")
		c.fam("verbatim-code", "cases", 1)
		c.count("code:"+md, true)
		if got := string(renderDefault([]byte(md))); got != want.String() {
			c.report("fenced-code-not-verbatim", []byte(md), "verbatim-code", fmt.Sprintf("got %q want %q", got, want.String()), nil, nil)
		}
		// indented
		first := strings.TrimSpace(lines[0])
		if first == "" {
			continue
		}
		body := []string{first}
		body = append(body, lines[1:]...)
		for len(body) > 0 && strings.TrimSpace(body[len(body)-1]) == "" {
			body = body[:len(body)-1]
		}
		var imd, iwant strings.Builder
		iwant.WriteString("<pre><code>")
		for _, l := range body {
			if l == "" {
				imd.WriteString("\n")
			} else {
				imd.WriteString("    " + l + "\n")
			}
			iwant.Write(escapeHTMLGo(l))
			iwant.WriteByte('\n')
		}
		iwant.WriteString("</code></pre>")
		if got := string(renderDefault([]byte(imd.String()))); got != iwant.String() {
			c.report("indented-code-not-verbatim", []byte(imd.String()), "verbatim-code", fmt.Sprintf("got %q want %q", got, iwant.String()), nil, nil)
		}
	}
	_ = format.Format
}

func escapeHTMLGo(s string) []byte {
	r := strings.NewReplacer("&", "&amp;", "<", "&lt;", ">", "&gt;", "\"", "&quot;", "'", "&#39;")
	return []byte(r.Replace(s))
}
