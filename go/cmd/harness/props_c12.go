//go:build verif

package main

import (
	"bytes"
	"fmt"
	"sort"
	"strings"

	"golang.org/x/text/cases"
	cm "zombiezen.com/go/commonmark"
)

func init() { props["C12"] = runC12 }

func foldTable(label []byte) string {
	seen := map[rune]bool{}
	var parts []string
	for _, r := range string(label) {
		if seen[r] {
			continue
		}
		seen[r] = true
		f := cases.Fold().String(string(r))
		if f != string(r) {
			parts = append(parts, fmt.Sprintf("%d:%s", r, hx([]byte(f))))
		}
	}
	if len(parts) == 0 {
		return "-"
	}
	return strings.Join(parts, ";")
}

// refOrder lists the map in the order the definitions appear (document pre-order over the roots).
func refInsertionOrder(res parseResult) string {
	var keys []string
	seen := map[string]bool{}
	for _, r := range res.roots {
		cm.Walk(r.AsNode(), &cm.WalkOptions{Pre: func(c *cm.Cursor) bool {
			b := c.Node().Block()
			if b == nil {
				return false
			}
			if b.Kind() == cm.LinkReferenceDefinitionKind && b.ChildCount() >= 2 {
				k := b.Child(0).Inline().LinkReference()
				if k != "" && !seen[k] {
					seen[k] = true
					keys = append(keys, k)
				}
				return false
			}
			return true
		}})
	}
	if len(keys) == 0 {
		return "-"
	}
	parts := make([]string, len(keys))
	for i, k := range keys {
		d := res.refs[k]
		tp := "0"
		if d.TitlePresent {
			tp = "1"
		}
		parts[i] = hx([]byte(k)) + "," + hx([]byte(d.Destination)) + "," + tp + "," + hx([]byte(d.Title))
	}
	return strings.Join(parts, ";")
}

func collectRefNodes(n cm.Node, out *[]string) {
	if in := n.Inline(); in != nil && (in.Kind() == cm.LinkKind || in.Kind() == cm.ImageKind) {
		if ref := in.LinkReference(); ref != "" {
			*out = append(*out, ref)
		}
	}
	for i, c := 0, n.ChildCount(); i < c; i++ {
		collectRefNodes(n.Child(i), out)
	}
}

var labelAtoms = []string{"a", "B", "ß", "ẞ", "SS", "ss", "İ", "i̇", "ǅ", "ǆ", "Σ", "σ", "ς", "É", "é", "k", "K", "K", " ", "  ", "\t", "\n", " \n ", "\\]", "\\[", "x", "Y", "1", "-", " ", "\f", " ", "Å", "å", "ﬁ", "fi", "\\", "a\\", "\\ ", "\\a", "\\2"}

func genLabel(r *Rng) string { return genLabelFrom(r, labelAtoms) }

// docLabelAtoms: labels written into documents may also hold NUL bytes (read as U+FFFD, CommonMark 0.30 section 2.3).
var docLabelAtoms = append(append([]string{}, labelAtoms...), "\x00", "\x00", "\x00\x00", "\ufffd")

func genLabelFrom(r *Rng, atoms []string) string {
	var sb strings.Builder
	for k := 1 + r.Intn(5); k > 0; k-- {
		sb.WriteString(r.Pick(atoms))
	}
	return sb.String()
}

// variant changes case and white space in ways that should (mostly) preserve matching.
func variant(r *Rng, l string) string {
	switch r.Intn(6) {
	case 0:
		return strings.ToUpper(l)
	case 1:
		return strings.ToLower(l)
	case 2:
		return strings.ReplaceAll(l, " ", "  ")
	case 3:
		return " " + l + "\t"
	case 4:
		return strings.ReplaceAll(l, " ", "\n")
	default:
		return genLabel(r) // usually a different label
	}
}

func runC12(c *Ctx) {
	c.Res.Rule = "(a) labels built from letters with multi-character and context folds (ß, ẞ, İ, ǅ, Σ/σ/ς, K (Kelvin), ﬁ, Å), escaped brackets, NBSP / form feed / em space and white space incl. line endings; all strings <= k over {a,B,ß,SP,TAB,LF,NBSP,\\]}: VerifNormalizeLabel vs the Lean model (correspondence) vs the Lean specification (oracle); pairs (definition label, use label) in generated documents: the use resolves iff the specification's normal forms are equal; (b) documents with competing definitions (top level, in block quotes, in list items, before and after the use): the map must equal 'first definition in document pre-order' computed independently, and the Lean extraction model (correspondence); (c) every reference link/image node names a key of the map, every key is a fixed point of normalisation, and the map equals extracting from the roots again; closure clauses also on the general document stream; non-trivial = label with a non-ASCII letter or internal white space, or a document with >= 2 definitions of one label; distinct by input"
	corr := &Batch{c: c}
	orc := &OracleBatch{c: c}
	normOne := func(fam string, label []byte) {
		c.fam(fam, "cases", 1)
		got := cm.VerifNormalizeLabel(label)
		nt := !isASCII(label) || strings.ContainsAny(strings.TrimSpace(string(label)), " \t\n")
		c.count("norm:"+string(label), nt)
		if nt && len(label) < 16 {
			c.sample(map[string]string{"label": printable(label), "normalized": got})
		}
		tbl := foldTable(label)
		corr.Add("norm\timpl\t"+hx(label)+"\t"+tbl, hx([]byte(got)))
		orc.Add("norm\tspec\t"+hx(label)+"\t"+tbl, hx([]byte(got)), func(g string) {
			c.report("label-normalisation-differs-from-spec", label, fam, "", func(x []byte) bool {
				return c.drv.Ask1("norm\tspec\t"+hx(x)+"\t"+foldTable(x)) != hx([]byte(cm.VerifNormalizeLabel(x)))
			}, func(m []byte) string {
				return fmt.Sprintf("implementation %q, specification %q", cm.VerifNormalizeLabel(m), unhx(c.drv.Ask1("norm\tspec\t"+hx(m)+"\t"+foldTable(m))))
			})
		})
	}
	closure := func(fam string, doc []byte) {
		res := parseMem(doc)
		if res.err != "" {
			return
		}
		var refs []string
		for _, r := range res.roots {
			collectRefNodes(r.AsNode(), &refs)
		}
		for _, ref := range refs {
			if _, ok := res.refs[ref]; !ok {
				c.report("reference-node-without-key", doc, fam, fmt.Sprintf("LinkReference %q is not a key of the map", ref), nil, nil)
			}
		}
		for k := range res.refs {
			if n := cm.VerifNormalizeLabel([]byte(k)); n != k {
				c.report("key-not-in-normal-form", doc, fam, fmt.Sprintf("key %q normalises to %q", k, n), nil, nil)
			}
		}
		again := make(cm.ReferenceMap)
		for _, r := range res.roots {
			again.Extract(r.Source, r.AsNode())
		}
		if refMapWire(again) != refMapWire(res.refs) {
			c.report("map-differs-from-extraction", doc, fam, "", nil, nil)
		}
		// model of Extract
		if len(res.roots) > 0 && len(res.roots) < 12 {
			parts := make([]string, len(res.roots))
			var ext []string
			seen := map[string]bool{}
			for i, r := range res.roots {
				parts[i] = hx(r.Source) + "|" + wireRoot(r)
				extTable(r.Source, r.AsNode(), seen, &ext)
			}
			e := "-"
			if len(ext) > 0 {
				e = strings.Join(ext, ";")
			}
			corr.Add("extract\t"+e+"\t"+strings.Join(parts, " ~ "), refInsertionOrder(res))
		}
	}
	if replayMode {
		normOne("replay", replayInput)
		closure("replay", replayInput)
		corr.Flush()
		orc.Flush()
		return
	}
	max := 5
	if !c.quick() {
		max = 6
	}
	enumStrings([]string{"a", "B", "ß", " ", "\t", "\n", " ", "\\]"}, max, func(s []byte) bool {
		normOne("exhaustive-labels", s)
		return true
	})
	c.fam("exhaustive-labels", "maxlen", max)
	for i := 0; i < c.N(30000, 600000); i++ {
		normOne("random-labels", []byte(genLabel(newRng(c.Seed, "c12-label", i))))
	}
	// matching relation and first-definition-wins on generated documents
	wrappers := []string{"%s\n", "> %s\n", "- %s\n", "1. %s\n", "> - %s\n", "   %s\n"}
	for i := 0; i < c.N(20000, 400000); i++ {
		rng := newRng(c.Seed, "c12-doc", i)
		label := strings.TrimSpace(genLabelFrom(rng, docLabelAtoms))
		if label == "" || strings.ContainsAny(label, "[]") && !strings.Contains(label, "\\") {
			continue
		}
		use := variant(rng, label)
		if !inlineSafeLabel(use) || !inlineSafeLabel(label) {
			continue
		}
		ndefs := 1 + rng.Intn(3)
		var blocks []string
		type def struct{ label, dest string }
		var defs []def
		for d := 0; d < ndefs; d++ {
			dl := label
			if d > 0 {
				dl = variant(rng, label)
				if !inlineSafeLabel(dl) {
					dl = label
				}
			}
			dest := fmt.Sprintf("/d%d", d)
			defs = append(defs, def{dl, dest})
			blocks = append(blocks, fmt.Sprintf(rng.Pick(wrappers), "["+dl+"]: "+dest))
		}
		// one time in four the definitions are consecutive lines of ONE paragraph (each must still be recognised:
		// a definition ends at its line ending, whatever follows), sometimes with a title on some of them
		onePara := false
		if rng.Intn(4) == 0 {
			onePara = true
			indentCont := rng.Intn(3) == 0
			var para strings.Builder
			for di, d := range defs {
				if indentCont && di > 0 {
					// up to three spaces of indentation on a continuation line are not part of the paragraph's content
					para.WriteString(strings.Repeat(" ", 1+rng.Intn(3)))
				}
				para.WriteString("[" + d.label + "]: " + d.dest + rng.Pick([]string{"", "", " 't'", " \"one\""}) + "\n")
			}
			blocks = []string{para.String()}
		}
		useBlock := "[" + use + "]\n"
		pos := rng.Intn(len(blocks) + 1)
		all := append(append(append([]string{}, blocks[:pos]...), useBlock), blocks[pos:]...)
		doc := []byte(strings.Join(all, "\n"))
		// line-ending style: LF, CRLF or bare CR for the whole document (label matching does not depend on it)
		switch rng.Intn(4) {
		case 0:
			doc = bytes.ReplaceAll(doc, []byte("\n"), []byte("\r\n"))
		case 1:
			doc = bytes.ReplaceAll(doc, []byte("\n"), []byte("\r"))
		}
		c.fam("definition-docs", "cases", 1)
		res := parseMem(doc)
		if res.err != "" {
			continue
		}
		c.count(string(doc), ndefs >= 2 || !isASCII([]byte(label)))
		// independent expectation via the Lean specification's normal form
		normSpec := func(l string) string {
			l = strings.ReplaceAll(l, "\x00", "\ufffd")
			return c.drv.Ask1("norm\tspec\t" + hx([]byte(l)) + "\t" + foldTable([]byte(l)))
		}
		// which definitions did the parser actually recognise (a label variant may not be a valid label)
		var wantDest string
		found := false
		un := normSpec(use)
		order := refInsertionOrder(res) // also used for correspondence below
		_ = order
		for _, d := range defs {
			if normSpec(d.label) == un && un != "-" {
				// is this definition present in the tree at all? (ask the map by its own key)
				if _, ok := res.refs[cm.VerifNormalizeLabel([]byte(strings.ReplaceAll(d.label, "\x00", "\ufffd")))]; ok {
					wantDest, found = d.dest, true
					break
				}
			}
		}
		// definitions written as consecutive lines of one top-level paragraph, with labels that are labels: EVERY one of
		// them must have been recognised (its normal form is a key)
		if onePara {
			for _, d := range defs {
				if k := normSpec(d.label); k != "-" {
					if _, ok := res.refs[string(unhx(k))]; !ok {
						c.report("definition-not-recognised", doc, "definition-docs", fmt.Sprintf("definition [%s]: %s is not in the map (expected key %q)", d.label, d.dest, unhx(k)), nil, nil)
						break
					}
				}
			}
		}
		// every key of the map is the normal form of the label of one of the definitions written into the document
		for k := range res.refs {
			ok := false
			for _, d := range defs {
				if normSpec(d.label) == hx([]byte(k)) {
					ok = true
					break
				}
			}
			if !ok {
				c.report("map-key-is-not-the-normal-form-of-a-definition-label", doc, "definition-docs", fmt.Sprintf("key %q", k), nil, nil)
			}
		}
		html := string(renderSafe(doc))
		resolved := strings.Contains(html, "<a href=")
		// the use is a shortcut reference at top level: it resolves iff some recognised definition matches
		if found != resolved {
			c.report("reference-resolution-differs-from-label-matching", doc, "definition-docs", fmt.Sprintf("use %q (normal form %s) expected resolved=%v, got %v: %s", use, un, found, resolved, html), nil, nil)
		} else if found {
			// first matching definition in source order supplies the destination
			firstDest := ""
			for _, d := range defs {
				if normSpec(d.label) == un {
					firstDest = d.dest
					break
				}
			}
			_ = wantDest
			if !strings.Contains(html, "<a href=\""+firstDest+"\"") {
				c.report("first-definition-does-not-win", doc, "definition-docs", fmt.Sprintf("expected destination %s: %s", firstDest, html), nil, nil)
			}
		}
		closure("definition-docs", doc)
	}
	// labels near the 999-character limit, wrapped over lines, used inside nested containers: every use must resolve
	// exactly when the label is a label (at most 999 characters) - the definition sits at top level
	for i, d := range longLabelDocs() {
		c.fam("long-labels", "cases", 1)
		closure("long-labels", d)
		res := parseMem(d)
		if res.err != "" {
			continue
		}
		end := bytes.Index(d, []byte("]: /url"))
		labelLen := end - 1
		html := string(renderSafe(d))
		resolved := strings.Contains(html, "href=\"/url\"") || strings.Contains(html, "src=\"/url\"")
		if want := labelLen <= 999; resolved != want {
			c.report("long-label-resolution", d, "long-labels", fmt.Sprintf("document %d: label of %d characters: expected resolved=%v, got %v", i, labelLen, want, resolved), nil, nil)
		}
	}
	docStream(c.Seed, "c12", c.N(15000, 300000), true, func(idx int, kind string, doc []byte) bool {
		c.fam(kind, "cases", 1)
		c.Res.Evals++
		closure(kind, doc)
		return true
	})
	corr.Flush()
	orc.Flush()
	_ = sort.Strings
}

// inlineSafeLabel: the label can be written inside one paragraph: no blank line inside it and every
// continuation line starts with a letter (so that it cannot start a block or be a setext underline).
func inlineSafeLabel(l string) bool {
	// a label that ends in an odd number of backslashes escapes its own closing bracket: not a label
	nb := 0
	for i := len(l) - 1; i >= 0 && l[i] == '\\'; i-- {
		nb++
	}
	if nb%2 == 1 {
		return false
	}
	// every bracket inside a label must be escaped (preceded by an odd number of backslashes): otherwise it is not a label
	for i := 0; i < len(l); i++ {
		if l[i] == '[' || l[i] == ']' {
			k := 0
			for j := i - 1; j >= 0 && l[j] == '\\'; j-- {
				k++
			}
			if k%2 == 0 {
				return false
			}
		}
	}
	lines := strings.Split(l, "\n")
	for i, ln := range lines {
		t := strings.TrimLeft(ln, " \t")
		if i > 0 {
			if t == "" {
				return false
			}
			r := []rune(t)[0]
			if !(r >= 'a' && r <= 'z' || r >= 'A' && r <= 'Z' || r > 0x7f && r != 0xa0 && r != 0x2003) {
				return false
			}
		}
	}
	return strings.TrimSpace(l) != ""
}
