//go:build verif

package main

import (
	"fmt"
	"strings"
	"unicode/utf8"

	cm "zombiezen.com/go/commonmark"
)

func init() { props["C15"] = runC15 }

var classifierNames = []string{"isSpaceTabOrLineEnding", "isASCIILetter", "isASCIIDigit", "isASCIIPunctuation", "isASCIIControl", "isHex", "toLowerASCII", "isUnquotedAttributeValueChar", "urlHexDigit"}

type recognizer struct {
	name     string
	alphabet []string
	maxQ     int // exhaustive length, quick
	maxT     int // exhaustive length, thorough
	run      func(line []byte) (answer string, accepted bool)
}

var recognizers = []recognizer{
	{"tb", []string{"-", "_", "*", " ", "\t", "\n", "\r", "a"}, 6, 8, func(l []byte) (string, bool) {
		e := cm.VerifParseThematicBreak(l)
		return fmt.Sprint(e), e >= 0
	}},
	{"atx", []string{"#", " ", "\t", "a", "\\", "\n", "\r"}, 7, 9, func(l []byte) (string, bool) {
		lv, sp := cm.VerifParseATXHeading(l)
		return fmt.Sprintf("%d %d %d", lv, sp.Start, sp.End), lv > 0
	}},
	{"setext", []string{"=", "-", " ", "\t", "\n", "\r", "a"}, 6, 8, func(l []byte) (string, bool) {
		n := cm.VerifParseSetextHeadingUnderline(l)
		return fmt.Sprint(n), n > 0
	}},
	{"fence", []string{"`", "~", " ", "\t", "a", "\n", "\r"}, 7, 9, func(l []byte) (string, bool) {
		c, n, info := cm.VerifParseCodeFence(l)
		return fmt.Sprintf("%d %d %d %d", c, n, info.Start, info.End), n > 0
	}},
	{"lm", []string{"-", "+", "*", "1", "9", "0", ".", ")", " ", "\t", "a", "\n"}, 5, 6, func(l []byte) (string, bool) {
		d, n, e := cm.VerifParseListMarker(l)
		return fmt.Sprintf("%d %d %d", d, n, e), e >= 0
	}},
}

func runC15(c *Ctx) {
	c.Res.Rule = "classifiers: all 256 bytes x 9 functions (exhaustive); recognizers: every string up to length k over the rule's own alphabet (exhaustive) plus random longer lines and all lines of the corpus; URI/e-mail/autolink: exhaustive short strings over a 14-symbol alphabet plus random; non-trivial = the implementation accepts the line / changes the string; distinct by input"
	corr := &Batch{c: c}
	orc := &OracleBatch{c: c}

	if replayMode {
		for _, r := range recognizers {
			c15line(c, corr, orc, r, replayInput, "replay")
		}
		c15uri(c, corr, orc, replayInput, "replay")
		corr.Flush()
		orc.Flush()
		return
	}

	// classifiers: exhaustive, implementation vs generated definition (model) — the spec side is a theorem.
	for _, name := range classifierNames {
		for b := 0; b < 256; b++ {
			v, ok := cm.VerifClassifier(name, byte(b))
			ans := fmt.Sprint(v)
			if !ok {
				ans = "panic"
			}
			corr.Add(fmt.Sprintf("cls\t%s\t%d", name, b), ans)
			c.count("cls:"+name+fmt.Sprint(b), v != 0)
		}
	}
	c.fam("classifiers", "cases", 256*len(classifierNames))

	// recognizers
	for _, r := range recognizers {
		r := r
		max := r.maxQ
		if !c.quick() {
			max = r.maxT
		}
		enumStrings(r.alphabet, max, func(s []byte) bool {
			c15line(c, corr, orc, r, s, "exhaustive-"+r.name)
			return true
		})
		c.fam("exhaustive-"+r.name, "maxlen", max)
		n := c.N(20000, 400000)
		for i := 0; i < n; i++ {
			rng := newRng(c.Seed, "c15-"+r.name, i)
			k := 1 + rng.Intn(40)
			if i%10 == 0 {
				k = 1 + rng.Intn(200)
			}
			var sb strings.Builder
			for j := 0; j < k; j++ {
				if rng.Intn(8) == 0 {
					sb.WriteString(rng.Pick(piecesCore))
				} else {
					sb.WriteString(rng.Pick(r.alphabet))
				}
			}
			c15line(c, corr, orc, r, []byte(sb.String()), "random-"+r.name)
		}
	}
	// corpus lines through every recognizer
	for _, d := range corpusDocs() {
		for _, line := range strings.SplitAfter(string(d), "\n") {
			line = strings.TrimLeft(line, " ")
			for _, r := range recognizers {
				c15line(c, corr, orc, r, []byte(line), "corpus")
			}
		}
	}

	// helpers used by the models (validates Utf8/lineCount/columnWidth/isBlankLine transliterations)
	helperAlphabet := []string{"a", " ", "\t", "\n", "\r", "\xc3", "\xa9", "\xe2", "\x82", "\xac", "\xf0", "\x9f", "\x80", "\xed", "\xa0"}
	hmax := 4
	if !c.quick() {
		hmax = 5
	}
	enumStrings(helperAlphabet, hmax, func(s []byte) bool {
		r, w := utf8.DecodeRune(s)
		corr.Add("str\tdec\t"+hx(s), fmt.Sprintf("%d %d", r, w))
		r, w = utf8.DecodeLastRune(s)
		corr.Add("str\tdeclast\t"+hx(s), fmt.Sprintf("%d %d", r, w))
		corr.Add("str\tvalid\t"+hx(s), b01(utf8.Valid(s)))
		corr.Add("rec\tlines\t"+hx(s), fmt.Sprint(cm.VerifLineCount(s)))
		corr.Add("rec\tblank\t"+hx(s), b01(cm.VerifIsBlankLine(s)))
		corr.Add(fmt.Sprintf("rec\tcolw\t%d\t%s", len(s)%5, hx(s)), fmt.Sprint(cm.VerifColumnWidth(len(s)%5, s)))
		c.Res.Evals++
		return true
	})
	c.fam("helpers", "maxlen", hmax)

	// URI / email / autolink
	uriAlphabet := []string{"a", "G", "f", "9", "%", "/", "@", ".", "-", " ", "<", ">", ":", "\xc3\xa9", "\xff", "[", "+"}
	umax := 4
	if !c.quick() {
		umax = 5
	}
	enumStrings(uriAlphabet, umax, func(s []byte) bool {
		c15uri(c, corr, orc, s, "exhaustive-uri")
		return true
	})
	c.fam("exhaustive-uri", "maxlen", umax)
	// every code point whose LOW BYTE is an ASCII character NormalizeURI leaves alone (a byte-wise test on a rune would
	// let them through raw), sampled: all of U+0080..U+FFFF with such a low byte, stepping through the high byte
	for hi := rune(1); hi < 0x110; hi++ {
		for _, lo := range []rune{'-', '&', '#', '/', 'a', 'Z', '0', '~', '_', '%', '.', '!'} {
			r := hi<<8 | lo
			if r >= 0xD800 && r < 0xE000 {
				continue
			}
			c15uri(c, corr, orc, []byte("/p/"+string(r)+"x"), "low-byte-safe-code-points")
		}
	}
	n := c.N(30000, 600000)
	emailPieces := []string{"a", "b1", "-", ".", "@", "a@b", ".c", "a-b", "-a", "a-", strings.Repeat("x", 62), strings.Repeat("y", 63), strings.Repeat("z", 64), "_", "+", "!", "é", " ", "<", ">", "http:", "mailto:", "a+b.c-d:", "%41", "%", "%zz", "%4", "#", "?q=1&r=2", "(", ")", "'", "\"", "\\", "\x7f", "\x00", "ö", "\xf0\x9f\x98\x80", "\xe2\x82", "\xe4\xb8\xad", "\xe2\x80\xa6", "\xc4\xa3", "\xf0\x9f\xa4\xa3", "\xe2\x81\xbf", "\xe4\xb8\xa5"}
	for i := 0; i < n; i++ {
		rng := newRng(c.Seed, "c15-uri", i)
		var sb strings.Builder
		for k := 1 + rng.Intn(8); k > 0; k-- {
			sb.WriteString(rng.Pick(emailPieces))
		}
		c15uri(c, corr, orc, []byte(sb.String()), "random-uri")
	}
	corr.Flush()
	orc.Flush()
}

func b01(b bool) string {
	if b {
		return "1"
	}
	return "0"
}

func c15line(c *Ctx, corr *Batch, orc *OracleBatch, r recognizer, s []byte, fam string) {
	ans, acc := r.run(s)
	c.count(r.name+":"+string(s), acc)
	c.fam(fam, "cases", 1)
	if acc {
		c.fam(fam, "accepted", 1)
		if len(s) > 3 && len(s) < 30 {
			c.sample(map[string]string{"recognizer": r.name, "line": printable(s), "impl": ans})
		}
	}
	h := hx(s)
	corr.Add("rec\t"+r.name+"\t"+h, ans)
	if !isLine(s) {
		return // the specification speaks about lines: a line ending can only be at the end
	}
	orc.Add("recspec\t"+r.name+"\t"+h, ans, func(got string) {
		c.report("recognizer-"+r.name+"-differs-from-spec", s, fam, "", func(x []byte) bool {
			a, _ := r.run(x)
			return isLine(x) && c.drv.Ask1("recspec\t"+r.name+"\t"+hx(x)) != a
		}, func(m []byte) string {
			a, _ := r.run(m)
			return fmt.Sprintf("implementation %q, CommonMark 0.30 reading %q", a, c.drv.Ask1("recspec\t"+r.name+"\t"+hx(m)))
		})
	})
}

func c15uri(c *Ctx, corr *Batch, orc *OracleBatch, s []byte, fam string) {
	out := cm.NormalizeURI(string(s))
	c.count("uri:"+string(s), out != string(s))
	c.fam(fam, "cases", 1)
	h := hx(s)
	corr.Add("str\turi\t"+h, hx([]byte(out)))
	// alphabet + well-formed escapes (spec evaluated by the driver), idempotence (here)
	orc.Add("recspec\turiwf\t"+hx([]byte(out)), "1", func(got string) {
		c.report("normalizeURI-output-alphabet", s, fam, "", func(x []byte) bool {
			return c.drv.Ask1("recspec\turiwf\t"+hx([]byte(cm.NormalizeURI(string(x))))) != "1"
		}, func(m []byte) string { return "output " + printable([]byte(cm.NormalizeURI(string(m)))) })
	})
	if again := cm.NormalizeURI(out); again != out {
		c.report("normalizeURI-not-idempotent", s, fam, "", func(x []byte) bool {
			o := cm.NormalizeURI(string(x))
			return cm.NormalizeURI(o) != o
		}, nil)
	}
	isE := cm.IsEmailAddress(string(s))
	if isE {
		c.fam(fam, "emails", 1)
		c.count("email:"+string(s), true)
	}
	corr.Add("str\temail\t"+h, b01(isE))
	corr.Add("str\tpemail\t"+h, fmt.Sprint(cm.VerifParseEmail(s)))
	corr.Add("str\tautolink\t"+h, fmt.Sprint(cm.VerifParseAutolink(s)))
	withLt := append([]byte("<"), s...)
	corr.Add("str\tautolink\t"+hx(withLt), fmt.Sprint(cm.VerifParseAutolink(withLt)))
	orc.Add("recspec\temail\t"+h, b01(isE), func(got string) {
		c.report("email-differs-from-spec-regex", s, fam, "", func(x []byte) bool {
			return c.drv.Ask1("recspec\temail\t"+hx(x)) != b01(cm.IsEmailAddress(string(x)))
		}, func(m []byte) string { return fmt.Sprintf("IsEmailAddress=%v", cm.IsEmailAddress(string(m))) })
	})
	corr.Add("str\tesc\t"+h, hx(cm.VerifEscapeHTML(nil, s)))
}

// isLine reports whether s is a line: no CR or LF except one line ending (LF, CR or CRLF) at the end.
func isLine(s []byte) bool {
	body := s
	switch {
	case len(body) >= 2 && body[len(body)-2] == '\r' && body[len(body)-1] == '\n':
		body = body[:len(body)-2]
	case len(body) >= 1 && (body[len(body)-1] == '\n' || body[len(body)-1] == '\r'):
		body = body[:len(body)-1]
	}
	for _, b := range body {
		if b == '\n' || b == '\r' {
			return false
		}
	}
	return true
}
