//go:build verif

package main

import (
	"fmt"
	"strings"

	cm "zombiezen.com/go/commonmark"
)

func init() { props["C18"] = runC18 }

type walkPolicy struct {
	hasPre, hasPost bool
	prune           map[int]bool
	pruneList       []int
	abort           int
}

func (p walkPolicy) wire() string {
	pl := "-"
	if len(p.pruneList) > 0 {
		parts := make([]string, len(p.pruneList))
		for i, x := range p.pruneList {
			parts[i] = fmt.Sprint(x)
		}
		pl = strings.Join(parts, ",")
	}
	return fmt.Sprintf("%s/%s/%s/%d", b01(p.hasPre), b01(p.hasPost), pl, p.abort)
}

// c18cfg selects how walkTrace presents the tree (see the custom-accessors family).
var c18cfg struct {
	custom string
	shared *cm.WalkOptions
}

// presented applies the same presentation to the wire form of the tree (what the model walks).
func presented(w *wnode, custom string) *wnode {
	n := *w
	n.kids = nil
	kids := w.kids
	switch custom {
	case "cap2":
		if len(kids) > 2 {
			kids = kids[:2]
		}
	case "reverse":
		kids = append([]*wnode(nil), kids...)
		for i, j := 0, len(kids)-1; i < j; i, j = i+1, j-1 {
			kids[i], kids[j] = kids[j], kids[i]
		}
	}
	for _, k := range kids {
		n.kids = append(n.kids, presented(k, custom))
	}
	return &n
}

func nodeID(n cm.Node) string {
	if b := n.Block(); b != nil {
		return fmt.Sprintf("b%d:%d:%d", int(b.Kind()), b.Span().Start, b.Span().End)
	}
	if in := n.Inline(); in != nil {
		return fmt.Sprintf("i%d:%d:%d", int(in.Kind()), in.Span().Start, in.Span().End)
	}
	return "i0:-1:-1"
}

// walkTrace runs the real Walk with a scripted policy and returns the event trace and cursor-invariant failures.
// virtual != nil presents a virtual root (zero Node) over the given roots through custom child functions.
func walkTrace(root cm.Node, virtual []*cm.RootBlock, p walkPolicy) (trace string, bad string) {
	var evs []string
	pres, posts := 0, 0
	opts := &cm.WalkOptions{}
	if c18cfg.shared != nil {
		// ONE options value reused across walks, its accessors replaced between them
		opts = c18cfg.shared
		opts.Pre, opts.Post, opts.ChildCount, opts.Child = nil, nil, nil, nil
	}
	switch c18cfg.custom {
	case "cap2": // a custom ChildCount WITHOUT a custom Child: every node presents at most two children
		opts.ChildCount = func(n cm.Node) int {
			if k := n.ChildCount(); k < 2 {
				return k
			}
			return 2
		}
	case "reverse": // a custom Child WITHOUT a custom ChildCount: children presented in reverse order
		opts.Child = func(n cm.Node, i int) cm.Node { return n.Child(n.ChildCount() - 1 - i) }
	}
	if virtual != nil {
		opts.ChildCount = func(n cm.Node) int {
			if n == (cm.Node{}) {
				return len(virtual)
			}
			return n.ChildCount()
		}
		opts.Child = func(n cm.Node, i int) cm.Node {
			if n == (cm.Node{}) {
				return virtual[i].AsNode()
			}
			return n.Child(i)
		}
	}
	childOf := func(n cm.Node, i int) cm.Node {
		if opts.Child != nil {
			return opts.Child(n, i)
		}
		return n.Child(i)
	}
	check := func(c *cm.Cursor, isRoot bool) {
		if isRoot {
			if c.Parent() != (cm.Node{}) || c.Index() >= 0 {
				bad = "root cursor has a parent or a non-negative index"
			}
			return
		}
		if c.Index() < 0 {
			bad = "non-root cursor with negative index"
			return
		}
		if childOf(c.Parent(), c.Index()) != c.Node() {
			bad = "Parent().Child(Index()) != Node()"
		}
	}
	event := func(tag string, c *cm.Cursor) string {
		par, blk := "-", "-"
		if c.Parent() != (cm.Node{}) || (virtual != nil && c.Index() >= 0) {
			par = nodeID(c.Parent())
		}
		if c.ParentBlock() != nil {
			blk = nodeID(c.ParentBlock().AsNode())
		}
		return fmt.Sprintf("%s/%s/%d/%s/%s", tag, nodeID(c.Node()), c.Index(), par, blk)
	}
	first := true
	if p.hasPre {
		opts.Pre = func(c *cm.Cursor) bool {
			check(c, first)
			first = false
			evs = append(evs, event("P", c))
			r := !p.prune[pres]
			pres++
			return r
		}
	}
	if p.hasPost {
		opts.Post = func(c *cm.Cursor) bool {
			if !p.hasPre {
				first = false
			}
			evs = append(evs, event("Q", c))
			r := p.abort != posts
			posts++
			return r
		}
	}
	if perr := safely(func() { cm.Walk(root, opts) }); perr != "" {
		return "panic: " + perr, ""
	}
	if len(evs) == 0 {
		return "-", bad
	}
	return strings.Join(evs, " "), bad
}

func genPolicy(r *Rng, nodes int) walkPolicy {
	p := walkPolicy{hasPre: r.Intn(6) != 0, hasPost: r.Intn(6) != 0, prune: map[int]bool{}, abort: -1}
	if r.Intn(3) > 0 {
		for k := r.Intn(4); k > 0; k-- {
			x := r.Intn(nodes + 1)
			if !p.prune[x] {
				p.prune[x] = true
				p.pruneList = append(p.pruneList, x)
			}
		}
	}
	if r.Intn(3) == 0 {
		p.abort = r.Intn(nodes + 1)
	}
	return p
}

// synthTree builds a random tree that no parser output reaches (arbitrary kinds and arities).
func synthTree(r *Rng, depth int, block bool) *wnode {
	n := &wnode{isBlock: block, kind: 1 + r.Intn(13), start: r.Intn(50), stop: r.Intn(50)}
	if !block {
		n.kind = 1 + r.Intn(18)
	}
	if depth == 0 {
		return n
	}
	k := r.Intn(4)
	kidsBlock := block && r.Bool()
	for i := 0; i < k; i++ {
		n.kids = append(n.kids, synthTree(r, depth-1, kidsBlock))
	}
	return n
}

func runC18(c *Ctx) {
	c.Res.Rule = "trees: every root of every corpus document and of seeded generated documents, synthetic trees with arbitrary kinds/arities, and virtual roots over a document's root list through custom ChildCount/Child (as format.Format does); policies: scripted callbacks (nil Pre or Post, up to 3 pruned Pre ordinals, optional abort at a Post ordinal), 3 random policies per tree plus the no-prune policy; the real Walk's event trace (callback, node, index, parent, parent block) is compared with the Lean loop model (correspondence) and with the Lean recursive specification (oracle), and the cursor identity Parent().Child(Index())==Node() is checked in-process; non-trivial = tree with >= 4 nodes and a policy that prunes or aborts; distinct by (tree, policy)"
	corr := &Batch{c: c}
	orc := &OracleBatch{c: c}
	one := func(fam string, root cm.Node, virtual []*cm.RootBlock, wire string, nodes int, p walkPolicy, doc []byte) {
		c.fam(fam, "cases", 1)
		trace, bad := walkTrace(root, virtual, p)
		nt := nodes >= 4 && (len(p.pruneList) > 0 || p.abort >= 0)
		c.count(wire+p.wire(), nt)
		if nt && len(wire) < 300 {
			c.sample(map[string]string{"tree": wire, "policy(pre/post/prune/abort)": p.wire(), "trace": trace})
		}
		if bad != "" {
			c.report("cursor-invariant", doc, fam, bad+" tree="+wire+" policy="+p.wire(), nil, nil)
		}
		corr.Add("walk\timpl\t"+p.wire()+"\t"+wire, trace)
		orc.Add("walk\tspec\t"+p.wire()+"\t"+wire, trace, func(got string) {
			c.report("walk-order", doc, fam, fmt.Sprintf("policy %s tree %s: implementation %q specification %q", p.wire(), wire, trace, got), nil, nil)
		})
	}
	doDoc := func(idx int, fam string, doc []byte) {
		res := parseMem(doc)
		if res.err != "" {
			return
		}
		for ri, r := range res.roots {
			nodes := countNodes(r.AsNode())
			wire := wireRoot(r)
			one(fam, r.AsNode(), nil, wire, nodes, walkPolicy{hasPre: true, hasPost: true, prune: map[int]bool{}, abort: -1}, doc)
			for k := 0; k < 3; k++ {
				one(fam, r.AsNode(), nil, wire, nodes, genPolicy(newRng(c.Seed, "c18-pol", idx*1000+ri*10+k), nodes), doc)
			}
		}
		// custom accessors one at a time (ChildCount without Child, Child without ChildCount) on ONE reused options
		// value: default walk first, then each presentation; every trace must be the model's walk of the presented tree
		if idx%3 == 0 {
			shared := &cm.WalkOptions{}
			for ri, r := range res.roots {
				w, err := parseWire(wireRoot(r))
				if err != nil {
					continue
				}
				for k, custom := range []string{"", "cap2", "reverse", ""} {
					c18cfg.custom, c18cfg.shared = custom, shared
					pw := presented(w, custom)
					pol := genPolicy(newRng(c.Seed, "c18-cpol", idx*1000+ri*10+k), countW(pw))
					if k == 0 {
						pol = walkPolicy{hasPre: true, hasPost: true, prune: map[int]bool{}, abort: -1}
					}
					one("custom-accessors", r.AsNode(), nil, pw.String(), countW(pw), pol, doc)
				}
			}
			c18cfg.custom, c18cfg.shared = "", nil
		}
		if len(res.roots) > 0 && len(res.roots) < 8 {
			// virtual root with custom child functions
			var sb strings.Builder
			sb.WriteString("( i 0 -1 -1 0 0 0 0 -")
			nodes := 1
			for _, r := range res.roots {
				sb.WriteByte(' ')
				sb.WriteString(wireRoot(r))
				nodes += countNodes(r.AsNode())
			}
			sb.WriteString(" )")
			for k := 0; k < 2; k++ {
				one("virtual-root", cm.Node{}, res.roots, sb.String(), nodes, genPolicy(newRng(c.Seed, "c18-vpol", idx*10+k), nodes), doc)
			}
		}
	}
	if replayMode {
		doDoc(0, "replay", replayInput)
		corr.Flush()
		orc.Flush()
		return
	}
	docStream(c.Seed, "c18", c.N(6000, 150000), true, func(idx int, kind string, doc []byte) bool {
		doDoc(idx, kind, doc)
		return true
	})
	for i := 0; i < c.N(6000, 150000); i++ {
		r := newRng(c.Seed, "c18-synth", i)
		w := synthTree(r, 1+r.Intn(4), true)
		if !w.homogeneous() {
			continue
		}
		blk := w.toBlock()
		nodes := countNodes(blk.AsNode())
		one("synthetic", blk.AsNode(), nil, w.String(), nodes, genPolicy(r, nodes), nil)
	}
	corr.Flush()
	orc.Flush()
}

func countW(w *wnode) int {
	n := 1
	for _, k := range w.kids {
		n += countW(k)
	}
	return n
}
