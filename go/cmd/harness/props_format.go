//go:build verif

package main

import (
	"errors"
	"fmt"
	"strings"

	cm "zombiezen.com/go/commonmark"
)

// Formatter correspondence (XFMT): the real format.Format, run into a scripted writer that records every
// write and fails at write k, against the Lean model lean/CM/Model/FormatDoc.lean (op `format`):
// error flag, panic flag, number of writes and every single write (not just their concatenation).

func init() { props["XFMT"] = runXFMT }

// fmtRootsWire is "srcHex;tree ~ srcHex;tree …" ("-" for no blocks).
func fmtRootsWire(roots []*cm.RootBlock) string {
	if len(roots) == 0 {
		return "-"
	}
	parts := make([]string, len(roots))
	for i, r := range roots {
		parts[i] = hx(r.Source) + ";" + wireRoot(r)
	}
	return strings.Join(parts, " ~ ")
}

// rootsExt: html.UnescapeString on every character reference of every root.
func rootsExt(roots []*cm.RootBlock) string {
	var out []string
	seen := map[string]bool{}
	for _, r := range roots {
		extTable(r.Source, r.AsNode(), seen, &out)
	}
	if len(out) == 0 {
		return "-"
	}
	return strings.Join(out, ";")
}

func writesWire(w *scriptWriter) string {
	if len(w.writes) == 0 {
		return "-"
	}
	parts := make([]string, len(w.writes))
	for j, x := range w.writes {
		parts[j] = hx(x)
	}
	return strings.Join(parts, ";")
}

var errXFMT = errors.New("scripted writer failure")

// formatImpl runs the real Format and returns the canonical answer and the number of writes.
func formatImpl(roots []*cm.RootBlock, failAt int, plain bool) (string, int, bool) {
	w, err, perr := formatDoc(roots, failAt, errXFMT, plain)
	if err != nil && err != errXFMT {
		return "foreign-error:" + err.Error(), len(w.writes), perr != ""
	}
	e := b01(err != nil)
	if perr != "" {
		e = "?" // a panicking Format returns nothing
	}
	return fmt.Sprintf("%s %s %d %s", e, b01(perr != ""), len(w.writes), writesWire(w)), len(w.writes), perr != ""
}

func formatOpLine(failAt int, rw, ext string) string {
	fa := "-"
	if failAt >= 0 {
		fa = fmt.Sprint(failAt)
	}
	return "format\t" + fa + "\t" + rw + "\t" + ext
}

// xfmtForest adds the correspondence ops of one forest: healthy writer, then writers failing at a few k.
func xfmtForest(c *Ctx, corr *Batch, idx int, fam string, roots []*cm.RootBlock) {
	rw, ext := fmtRootsWire(roots), rootsExt(roots)
	if len(rw) > 400000 {
		return
	}
	impl, n, panicked := formatImpl(roots, -1, false)
	c.fam(fam, "cases", 1)
	if panicked {
		c.fam(fam, "panics", 1)
	}
	c.count(fmt.Sprint(fam, rw), n >= 3)
	if n >= 6 && len(rw) < 300 {
		c.sample(map[string]string{"roots": rw, "answer (err panic writes log)": impl})
	}
	corr.Add(formatOpLine(-1, rw, ext), impl)
	rng := newRng(c.Seed, "xfmt-k", idx)
	ks := map[int]bool{}
	add := func(k int) {
		if k >= 0 && !ks[k] {
			ks[k] = true
		}
	}
	add(0)
	add(n - 1)
	add(n) // never reached: must behave like the healthy writer
	if n > 0 {
		add(rng.Intn(n))
		add(rng.Intn(n))
	}
	if n > 4 {
		add(1 + rng.Intn(3))
	}
	for k := range ks {
		impl, _, _ := formatImpl(roots, k, k%2 == 1)
		c.fam(fam, "failing-writer runs", 1)
		corr.Add(formatOpLine(k, rw, ext), impl)
	}
}

// synthFormatTree: random trees, deliberately including what the parser never produces (spans outside the
// source, list items without children, definitions with block children …) so that the model's panic sites
// are compared too.
func synthFormatTree(r *Rng, depth int, block bool, srcLen int) *wnode {
	span := func() (int, int) {
		switch r.Intn(12) {
		case 0:
			return -1, -1
		case 1:
			return r.Intn(srcLen + 3), r.Intn(srcLen + 3)
		}
		a := r.Intn(srcLen + 1)
		b := a + r.Intn(srcLen+1-a)
		if r.Intn(3) > 0 && b > a+6 {
			b = a + 1 + r.Intn(6)
		}
		return a, b
	}
	n := &wnode{isBlock: block}
	n.start, n.stop = span()
	if block {
		n.kind = 1 + r.Intn(12)
		n.n = r.Intn(8)
		n.char = []int{0, '.', ')', '-', '`', '~'}[r.Intn(6)]
		n.loose = r.Bool()
		n.indent = r.Intn(5)
	} else {
		n.kind = 1 + r.Intn(18)
		n.indent = r.Intn(6)
		if r.Intn(3) == 0 {
			n.ref = []byte([]string{"r", "a b", "é"}[r.Intn(3)])
		}
	}
	if depth == 0 {
		return n
	}
	kidsBlock := block && r.Intn(3) > 0
	switch {
	case block && cm.BlockKind(n.kind) == cm.ListItemKind && r.Intn(4) > 0:
		m := &wnode{isBlock: true, kind: int(cm.ListMarkerKind)}
		m.start, m.stop = span()
		n.kids = append(n.kids, m)
		kidsBlock = true
	case block && cm.BlockKind(n.kind) == cm.FencedCodeBlockKind && r.Bool():
		m := &wnode{kind: int(cm.InfoStringKind)}
		m.start, m.stop = span()
		n.kids = append(n.kids, m)
		kidsBlock = false
	case block && cm.BlockKind(n.kind) == cm.LinkReferenceDefinitionKind && r.Intn(4) > 0:
		kidsBlock = false
		n.kids = append(n.kids, &wnode{kind: int(cm.LinkLabelKind), ref: []byte("lab"), start: 0, stop: 1})
	case block && (cm.BlockKind(n.kind) == cm.IndentedCodeBlockKind || cm.BlockKind(n.kind) == cm.FencedCodeBlockKind || cm.BlockKind(n.kind) == cm.ParagraphKind || cm.BlockKind(n.kind) == cm.SetextHeadingKind):
		kidsBlock = false
	}
	for i, k := 0, r.Intn(5); i < k; i++ {
		kid := synthFormatTree(r, depth-1, kidsBlock, srcLen)
		if !kidsBlock && r.Intn(3) == 0 {
			kid.kind = []int{int(cm.TextKind), int(cm.LinkKind), int(cm.LinkDestinationKind), int(cm.LinkTitleKind), int(cm.LinkLabelKind), int(cm.IndentKind), int(cm.SoftLineBreakKind)}[r.Intn(7)]
		}
		n.kids = append(n.kids, kid)
	}
	return n
}

var synthFormatSources = []string{
	"ab&amp;<c>\"d'e 1. f\n&#35; &copy;*g*_h_ `i` <j> k",
	"```\n ~~~\n    ``\n````` x\n~~\n\n  ```\n",
	"- a\n  1) b\n\n> c\\*[d](e%20f \"t\")\n=-#~\xff\xc3\xa9\n",
	"",
	"`",
}

var fenceLines = []string{"```", " ```", "  ````", "   ```", "    ```", "~~~", " ~~~~", "   ~~~", "x", "", " ", "  y", "`` `", "\t```", "````` z", "~~~ `", "``", " `", "    ", "\t"}

// genCodeDoc: a code block (fenced with a long fence of either character, with or without an info string that
// may contain a backtick, or indented with spaces or tabs) whose lines look like fences at various indentations,
// optionally inside a block quote or a list item (where tabs give partially consumed indentation).
func genCodeDoc(r *Rng) []byte {
	var lines []string
	for n := 1 + r.Intn(7); n > 0; n-- {
		lines = append(lines, r.Pick(fenceLines))
	}
	var body []string
	switch r.Intn(4) {
	case 0:
		f := strings.Repeat("~", 6+r.Intn(2)) + r.Pick([]string{"", " go", " a`b", " ``` x"})
		body = append(append([]string{f}, lines...), f[:6])
	case 1:
		f := strings.Repeat("`", 6+r.Intn(2))
		body = append(append([]string{f + r.Pick([]string{"", " go", "  x~y"})}, lines...), f)
	case 2:
		for _, l := range lines {
			body = append(body, r.Pick([]string{"    ", "\t", "     ", "  \t"})+l)
		}
	default:
		f := strings.Repeat("~", 6)
		body = append([]string{f}, lines...) // unclosed
	}
	pre, cont := "", ""
	switch r.Intn(6) {
	case 0:
		pre, cont = "> ", "> "
	case 1:
		pre, cont = "- ", "  "
	case 2:
		pre, cont = "1.\t", "\t"
	case 3:
		pre, cont = ">\t", ">\t"
	}
	var sb strings.Builder
	if r.Intn(3) == 0 {
		sb.WriteString(pre + "p\n" + cont + "\n")
		pre = cont
	}
	for i, l := range body {
		if i == 0 {
			sb.WriteString(pre)
		} else {
			sb.WriteString(cont)
		}
		sb.WriteString(l)
		sb.WriteString(r.Pick([]string{"\n", "\n", "\n", "\r\n"}))
	}
	return []byte(sb.String())
}

// synthCodeBlock: a code block over a source of fence-like lines whose children tile the lines the way the
// parser does (indent node + text, text + line break node, or one text per line), with arbitrary indent widths.
func synthCodeBlock(r *Rng) *cm.RootBlock {
	var src []byte
	w := &wnode{isBlock: true, kind: int(cm.IndentedCodeBlockKind)}
	if r.Bool() {
		w.kind = int(cm.FencedCodeBlockKind)
		if r.Bool() {
			info := r.Pick([]string{"go", "a`b", "", "~"})
			src = append(src, info...)
			w.kids = append(w.kids, &wnode{kind: int(cm.InfoStringKind), start: 0, stop: len(info)})
			src = append(src, '\n')
		}
	}
	for n := 1 + r.Intn(6); n > 0; n-- {
		l := r.Pick(fenceLines)
		start := len(src)
		src = append(src, l...)
		src = append(src, '\n')
		switch r.Intn(5) {
		case 4: // an indent node in the middle of a line
			m := start + r.Intn(len(l)+1)
			w.kids = append(w.kids, &wnode{kind: int(cm.TextKind), start: start, stop: m})
			w.kids = append(w.kids, &wnode{kind: int(cm.IndentKind), start: m, stop: m, indent: r.Intn(6)})
			w.kids = append(w.kids, &wnode{kind: int(cm.TextKind), start: m, stop: len(src)})
		case 0:
			k := 0
			for k < len(l) && (l[k] == ' ' || l[k] == '\t') && r.Bool() {
				k++
			}
			w.kids = append(w.kids, &wnode{kind: int(cm.IndentKind), start: start, stop: start + k, indent: r.Intn(6)})
			w.kids = append(w.kids, &wnode{kind: int(cm.TextKind), start: start + k, stop: len(src)})
		case 1:
			w.kids = append(w.kids, &wnode{kind: int(cm.TextKind), start: start, stop: len(src) - 1})
			k := int(cm.SoftLineBreakKind)
			if r.Bool() {
				k = int(cm.HardLineBreakKind)
			}
			w.kids = append(w.kids, &wnode{kind: k, start: len(src) - 1, stop: len(src)})
		default:
			w.kids = append(w.kids, &wnode{kind: int(cm.TextKind), start: start, stop: len(src)})
		}
	}
	w.start, w.stop = 0, len(src)
	return &cm.RootBlock{Source: src[:len(src):len(src)], Block: *w.toBlock()}
}

func runXFMT(c *Ctx) {
	c.Res.Rule = "forests: all roots of every document of the general stream (corpus, line/fragment/mutation/inline-rich generators incl. CR/CRLF, tabs, NUL, invalid UTF-8), parsed by the real parser, plus generated code-block documents (fence-like lines at every indentation, both fence characters, info strings with backticks, tabs inside containers), synthetic code blocks tiled like the parser's (indent nodes of arbitrary width, line-break nodes) and synthetic forests outside the parser's range (spans outside the source, missing children: the panic sites); writers: healthy and failing at write k (0, last, one past the last, random ones; with and without WriteString); compared with the Lean model of Format: error flag, panic flag, number of writes, every write"
	corr := &Batch{c: c}
	if replayMode {
		res := parseMem(replayInput)
		if res.err == "" {
			xfmtForest(c, corr, 0, "replay", res.roots)
		}
		corr.Flush()
		return
	}
	xfmtAll(c, corr, 1)
	corr.Flush()
}

// xfmtAll runs the Format correspondence families (case counts divided by div).
func xfmtAll(c *Ctx, corr *Batch, div int) {
	docStream(c.Seed, "xfmt", c.N(12000, 300000)/div, true, func(idx int, kind string, doc []byte) bool {
		if len(doc) > 60000 {
			return true
		}
		res := parseMem(doc)
		if res.err != "" {
			return true
		}
		xfmtForest(c, corr, idx, kind, res.roots)
		return true
	})
	for i := 0; i < c.N(4000, 100000)/div; i++ {
		rng := newRng(c.Seed, "xfmt-code", i)
		doc := genCodeDoc(rng)
		if res := parseMem(doc); res.err == "" {
			xfmtForest(c, corr, i, "code-docs", res.roots)
		}
	}
	for i := 0; i < c.N(3000, 80000)/div; i++ {
		rng := newRng(c.Seed, "xfmt-synth-code", i)
		xfmtForest(c, corr, i, "synthetic-code", []*cm.RootBlock{synthCodeBlock(rng)})
	}
	for i := 0; i < c.N(6000, 150000)/div; i++ {
		rng := newRng(c.Seed, "xfmt-synth", i)
		var roots []*cm.RootBlock
		ok := true
		for k := 1 + rng.Intn(3); k > 0; k-- {
			s := rng.Pick(synthFormatSources)
			src := make([]byte, len(s))
			copy(src, s)
			w := synthFormatTree(rng, 1+rng.Intn(3), true, len(src))
			if !w.homogeneous() {
				ok = false
				break
			}
			roots = append(roots, &cm.RootBlock{Source: src[:len(src):len(src)], Block: *w.toBlock()})
		}
		if !ok {
			continue
		}
		xfmtForest(c, corr, i, "synthetic", roots)
	}
	corr.Flush()
}
