//go:build verif

package main

import (
	"bytes"
	"encoding/json"
	"os"
	"path/filepath"
	"sort"
	"strconv"
	"strings"
)

// Rng is splitmix64; every random choice of a run derives from one seed.
type Rng struct{ s uint64 }

func newRng(seed uint64, family string, index int) *Rng {
	h := seed*0x9E3779B97F4A7C15 + 0x1234567
	for _, c := range []byte(family) {
		h = (h ^ uint64(c)) * 0x100000001B3
	}
	h ^= uint64(index) * 0xD6E8FEB86659FD93
	r := &Rng{s: h}
	r.Next()
	return r
}

func (r *Rng) Next() uint64 {
	r.s += 0x9E3779B97F4A7C15
	z := r.s
	z = (z ^ (z >> 30)) * 0xBF58476D1CE4E5B9
	z = (z ^ (z >> 27)) * 0x94D049BB133111EB
	return z ^ (z >> 31)
}

func (r *Rng) Intn(n int) int {
	if n <= 0 {
		return 0
	}
	return int(r.Next() % uint64(n))
}

func (r *Rng) Bool() bool { return r.Next()&1 == 1 }

func (r *Rng) Pick(xs []string) string { return xs[r.Intn(len(xs))] }

func sortStrings(xs []string) { sort.Strings(xs) }

// markdown-relevant fragments; the "wild" ones contain tabs, CR, NUL, invalid UTF-8.
var piecesCore = []string{
	"a", "b", "foo", "bar", "baz", " ", "  ", "   ", "    ", "\n", "\n", "\n\n", "\n\n\n",
	"*", "**", "***", "_", "__", "*a*", "**a**", "_a_", "__a__", "*a", "a*", "a*b", "a_b",
	"`", "``", "```", "`a`", "`` a ``", "```\n", "~~~\n", "~~~", "``` go\n",
	"#", "# ", "## ", "###### ", "####### ", "# a #", "# a #\n", " #\n", "#\n",
	">", "> ", ">>", "> > ", " > ",
	"-", "- ", "* ", "+ ", "1. ", "1) ", "2. ", "10. ", "123456789. ", "1234567890. ", "0. ", "08. ", "09) ", "010. ", "0009. ", "000000008. ", "-   ", "-     a",
	"---", "***", "___", "- - -", "===", "==", "=", "--", "\n---\n", "\n===\n",
	"[", "]", "[a]", "[a]: /u", "[a]: /u\n", "[a]: /u 't'\n", "[a]: </u u> \"t\"\n", "[A]: /v\n", "[a]", "[a][]", "[a][a]", "[b][a]", "[a](/u)", "[a](/u 't')", "[a](</u>)", "![a](/u)", "![a]", "![a][]", "[a](", "](", "[a]:", "[a\nb]", "(", ")", "[ a ]", "[a]: /u\n    t\n", "[a]:\n/u\n'ti\ntle'\n",
	"<", ">", "<a>", "</a>", "<a href=\"x\">", "<a/>", "<b", "<!-- c -->", "<!--", "-->", "<?p?>", "<!D>", "<![CDATA[x]]>", "<div>", "<div>\n", "</div>\n", "<pre>", "</pre>", "<script>", "</script>", "<http://x.y>", "<a@b.c>", "<x:y>",
	"&", "&amp;", "&#35;", "&#x41;", "&#0;", "&copy;", "&notit;", "&;", "&#;", "&#x;", "&#12345678;", "&#xABCDEF1;",
	"\\", "\\\\", "\\*", "\\[", "\\]", "\\`", "\\\n", "\\a", "\\&", "\\<",
	"  \n", "   \n", " \n", "!", "![", "!\n", "'", "\"", "'t'", "\"t\"", "(t)", ":", "://", "@", ".", "..", "%", "%20", "%GG", "%4", "é", "ß", "ẞ", "“", " ", " ", "\f", "\v",
	"    code\n", "     code\n", "  - ", "   1. ", "    - ", "  > ", "    > ",
}

var piecesWild = []string{
	"   >\t\x00", ">\t\x00", "  >\t\x00]: /u", "> [a\n   >\t\x00]: /u\n", "- [a\n\t\x00]: /u\n", "\t\x00",
	"\ufeff", "\ufeff# h", "\n\n\ufeff", "[a](<b\\\nc>)", "[r]: <b\\\nc>\n",
	"\t", "\t\t", " \t", "\t ", "-\t", "1.\t", ">\t", "\ta", "  \ta", "\r", "\r\n", "\r\n\r\n", "a\r", "a\r\nb", "\r\r",
	"\x00", "\x00\x00", "a\x00b", "\xff", "\xc3", "\xe2\x82", "\xf0\x9f", "\x80", "\xed\xa0\x80", "\xef\xbf\xbd",
	"\x01", "\x7f", "\x1b",
}

func genPieces(r *Rng, wild bool, maxN int) []byte {
	n := 1 + r.Intn(maxN)
	var sb strings.Builder
	for i := 0; i < n; i++ {
		if wild && r.Intn(5) == 0 {
			sb.WriteString(r.Pick(piecesWild))
		} else {
			sb.WriteString(r.Pick(piecesCore))
		}
	}
	return []byte(sb.String())
}

// genLines makes a line-structured document: each line = optional container prefixes + a line body.
var linePrefixes = []string{"", "", "", "> ", ">", "- ", "  ", "    ", "1. ", "   ", "* ", "> > ", "> - ", "  - ", "      ", "\t"}
var lineBodies = []string{
	"foo", "bar baz", "", "", " ", "# h", "## h ##", "---", "***", "===", "-", "```", "```go", "~~~", "````", "    code", "<div>", "</div>", "<!-- x -->", "<pre>", "</pre>", "<a", "href='x'>", "<?php", "?>",
	"[a]: /u", "[a]: /u 't'", "[a]:", "/u", "'t'", "\"t", "t\"", "[a]", "[a][]", "[b][a]", "[a](/u", "'t')", "[a\\]", "*a", "a*", "**a", "a**", "_a_", "`a", "a`", "`` a", "a  ", "a\\", "a &amp; b", "<http://a.b>", "![a](/u)", "[a](</u>", "[x", "y]", "y]: /z", "<b>", "# <b>", "a <b>", "<b> a",
	"- a", "1. a", "2) b", "08. a", "09) b", "010. c", "> q", "* * *", "- - -", "+ x", "10. y", "[foo", "bar]", "[a]: /u\\", "<!--", "-->", "a-->", "<![CDATA[", "]]>", "<!X", ">", "hello > world",
}

func genLines(r *Rng, wild bool, maxLines int) []byte {
	n := 1 + r.Intn(maxLines)
	var sb strings.Builder
	eols := []string{"\n"}
	if wild {
		eols = []string{"\n", "\n", "\n", "\r\n", "\r"}
	}
	for i := 0; i < n; i++ {
		p := r.Pick(linePrefixes)
		if !wild && p == "\t" {
			p = "  "
		}
		sb.WriteString(p)
		sb.WriteString(r.Pick(lineBodies))
		if wild && r.Intn(12) == 0 {
			sb.WriteString(r.Pick(piecesWild))
		}
		if i < n-1 || r.Intn(3) > 0 {
			sb.WriteString(r.Pick(eols))
		}
	}
	return []byte(sb.String())
}

// enumStrings calls f on every string over alphabet with length 0..maxLen (f may stop by returning false).
func enumStrings(alphabet []string, maxLen int, f func(s []byte) bool) {
	idx := make([]int, 0, maxLen)
	var buf []byte
	var rec func(depth int) bool
	rec = func(depth int) bool {
		buf = buf[:0]
		for _, i := range idx {
			buf = append(buf, alphabet[i]...)
		}
		if !f(append([]byte(nil), buf...)) {
			return false
		}
		if depth == maxLen {
			return true
		}
		for i := range alphabet {
			idx = append(idx, i)
			if !rec(depth + 1) {
				return false
			}
			idx = idx[:len(idx)-1]
		}
		return true
	}
	rec(0)
}

// enumCount returns the number of strings enumStrings visits.
func enumCount(k, maxLen int) int {
	n, p := 0, 1
	for i := 0; i <= maxLen; i++ {
		n += p
		p *= k
	}
	return n
}

var repoDir = "/repo"

type specExample struct {
	Markdown string
	HTML     string
	Example  int
	Section  string
}

func loadSpec() []specExample {
	data, err := os.ReadFile(filepath.Join(repoDir, "internal/spec/spec-0.30.json"))
	if err != nil {
		return nil
	}
	var ex []specExample
	if json.Unmarshal(data, &ex) != nil {
		return nil
	}
	return ex
}

// loadFuzzSeeds reads go fuzz corpus files (go test fuzz v1 / string("…") or []byte("…")).
func loadFuzzSeeds() [][]byte {
	var out [][]byte
	files, _ := filepath.Glob(filepath.Join(repoDir, "testdata/fuzz/*/*"))
	more, _ := filepath.Glob(filepath.Join(repoDir, "format/testdata/fuzz/*/*"))
	files = append(files, more...)
	for _, f := range files {
		data, err := os.ReadFile(f)
		if err != nil {
			continue
		}
		for _, line := range strings.Split(string(data), "\n") {
			line = strings.TrimSpace(line)
			for _, pre := range []string{"string(", "[]byte("} {
				if strings.HasPrefix(line, pre) && strings.HasSuffix(line, ")") {
					q := line[len(pre) : len(line)-1]
					if s, err := strconv.Unquote(q); err == nil {
						out = append(out, []byte(s))
					}
				}
			}
		}
	}
	return out
}

// loadCorpusDir reads /verif/corpus/<name>/*.txt: each file is one raw input.
func loadCorpusDir(name string) [][]byte {
	var out [][]byte
	files, _ := filepath.Glob(filepath.Join(verifDir, "corpus", name, "*"))
	sort.Strings(files)
	for _, f := range files {
		if data, err := os.ReadFile(f); err == nil {
			out = append(out, data)
		}
	}
	return out
}

var verifDir = "/verif"

// corpusDocs = spec examples + fuzz seeds + corpus/docs.
func corpusDocs() [][]byte {
	var out [][]byte
	out = append(out, loadCorpusDir("docs")...)
	for _, e := range loadSpec() {
		out = append(out, []byte(e.Markdown))
	}
	out = append(out, loadFuzzSeeds()...)
	return out
}

// mutate applies one markdown-aware edit.
func mutate(r *Rng, doc []byte, wild bool) []byte {
	d := append([]byte(nil), doc...)
	if len(d) == 0 {
		return genPieces(r, wild, 3)
	}
	switch r.Intn(9) {
	case 0: // truncate
		return d[:r.Intn(len(d)+1)]
	case 1: // insert a piece
		p := r.Intn(len(d) + 1)
		ins := r.Pick(piecesCore)
		if wild && r.Intn(3) == 0 {
			ins = r.Pick(piecesWild)
		}
		return append(d[:p:p], append([]byte(ins), d[p:]...)...)
	case 2: // delete a byte range
		p := r.Intn(len(d))
		q := p + 1 + r.Intn(3)
		if q > len(d) {
			q = len(d)
		}
		return append(d[:p:p], d[q:]...)
	case 3: // duplicate a line
		lines := strings.SplitAfter(string(d), "\n")
		i := r.Intn(len(lines))
		lines = append(lines[:i+1], lines[i:]...)
		return []byte(strings.Join(lines, ""))
	case 4: // swap line endings
		if wild {
			eol := []string{"\r\n", "\r"}[r.Intn(2)]
			return []byte(strings.ReplaceAll(string(d), "\n", eol))
		}
		return d
	case 5: // wrap in block quote
		return prefixLines(d, "> ", "> ")
	case 6: // wrap in list item
		return prefixLines(d, "- ", "  ")
	case 7: // drop final newline
		return []byte(strings.TrimRight(string(d), "\n"))
	default: // replace a byte
		p := r.Intn(len(d))
		rep := r.Pick(piecesCore)
		return append(d[:p:p], append([]byte(rep), d[p+1:]...)...)
	}
}

func prefixLines(d []byte, first, rest string) []byte {
	lines := strings.SplitAfter(string(d), "\n")
	var sb strings.Builder
	for i, l := range lines {
		if l == "" {
			continue
		}
		if i == 0 {
			sb.WriteString(first)
		} else {
			sb.WriteString(rest)
		}
		sb.WriteString(l)
	}
	return []byte(sb.String())
}

// docStream yields the standard document mix for parser-wide properties:
// corpus first, then grammar-ish lines, pieces, mutations.
func docStream(seed uint64, family string, n int, wild bool, f func(idx int, kind string, doc []byte) bool) {
	idx := 0
	corpus := corpusDocs()
	for _, d := range corpus {
		if !f(idx, "corpus", d) {
			return
		}
		idx++
	}
	for i := 0; i < n; i++ {
		r := newRng(seed, family, i)
		var d []byte
		kind := ""
		switch i % 5 {
		case 4:
			d, kind = genInlineRich(r, wild), "inline-rich"
		case 0:
			d, kind = genLines(r, wild, 8), "lines"
		case 1:
			d, kind = genPieces(r, wild, 12), "pieces"
		case 2:
			if len(corpus) > 0 {
				d = corpus[r.Intn(len(corpus))]
			}
			for k := 1 + r.Intn(3); k > 0; k-- {
				d = mutate(r, d, wild)
			}
			kind = "mutation"
		default:
			d, kind = genLines(r, wild, 4), "lines"
			d = append(d, genPieces(r, wild, 5)...)
			kind = "mixed"
		}
		if !f(idx, kind, d) {
			return
		}
		idx++
	}
}

// genInlineRich makes a document around one paragraph with deeply structured inline content: nested links and
// images, reference links in all forms over a pool of labels (with escapes, trailing backslashes, several lines),
// definitions of some of those labels at several nesting depths and in competing duplicates, raw HTML with
// upper-case names and several lines, maximum-length numeric references, breaks in all spellings; then a random
// line-ending style, an optional container and an optional missing final newline.
var richLabels = []string{"foo", "ba\nr", "ba r", "C:\\a", "v\\2", "foo\\ ", "a  b", "Foo", "ẞ", "x\\]y", "logo", "ref"}

// longLabel: a legal label of about n characters wrapped over lines of w letters.
func longLabel(n, w int) string {
	var sb strings.Builder
	for sb.Len() < n {
		if sb.Len() > 0 {
			sb.WriteByte('\n')
		}
		k := w
		if n-sb.Len() < w {
			k = n - sb.Len()
		}
		sb.WriteString(strings.Repeat("l", k))
	}
	return sb.String()
}

var richText = []string{"a", "foo", "bar", "C:\\a", "x\\", "é", "$", "+", "~", "a$", " ", " ", ".", "!", "\\*", "1", "see"}
var richRaw = []string{"<?php\necho 1 ><script>alert(1)</script> ?>", "<![CDATA[\ny><xmp>z]]>", "<a\ntitle=\"<script>\">", "<!-- a\n><style> -->", "<!X\ny><title>>", "<b>", "</b>", "<DIV>", "<XMP>", "</XMP>", "<Script>", "<a\nhref=\"x\">", "<img\nsrc=\"y.png\"\nalt=\"z\"/>", "<!-- c\nd -->", "<?p\nq?>", "<a href='>'>", "<http://example.com/>", "<a@b.cc>"}
var richEnt = []string{"&amp;", "&#x01F600;", "&#0128512;", "&#x10FFFD;", "&#32;", "&nbsp;", "&#1234567;", "&#x1234567;", "&copy;"}

func genInline(r *Rng, depth int) string {
	k := r.Intn(16)
	if depth <= 0 && k >= 3 && k <= 9 {
		k = 0
	}
	inner := func() string {
		var sb strings.Builder
		for n := 1 + r.Intn(3); n > 0; n-- {
			sb.WriteString(genInline(r, depth-1))
		}
		return sb.String()
	}
	switch k {
	case 0, 1:
		return r.Pick(richText)
	case 2:
		return " "
	case 3:
		d := r.Pick([]string{"*", "_", "**", "__", "***"})
		c := d
		if r.Intn(4) == 0 {
			c = r.Pick([]string{"*", "**", "_"})
		}
		return d + inner() + c
	case 4:
		return "[" + inner() + "](" + r.Pick([]string{"/u", "</u v>", "/a\\_b", "", "/u 't'", "/u \"ti\ntle\"", "/u&#0000097; \"t &#0000098;\"", "<%4\"x>", "<b\\\nc>", "<b\nc>"}) + ")"
	case 5:
		return "![" + inner() + "](" + r.Pick([]string{"/i", "/i 'alt \\'x\\''", "</p q&amp;r>"}) + ")"
	case 6:
		return "[" + inner() + "][" + r.Pick(richLabels) + "]"
	case 7:
		return r.Pick([]string{"", "!"}) + "[" + r.Pick(richLabels) + "]" + r.Pick([]string{"", "[]"})
	case 8:
		return "![" + inner() + "][" + r.Pick(richLabels) + "]"
	case 9:
		return "[" + inner() + "]"
	case 10:
		return r.Pick([]string{"`a`", "`a\nb`", "``\nfoo\n``", "`` ` ``", "`a", "``a`"})
	case 11:
		return r.Pick(richRaw)
	case 12:
		return r.Pick(richEnt)
	case 13:
		return r.Pick([]string{"\\\n", "  \n", "\n", "   \n", "\\"})
	default:
		return r.Pick(richText) + r.Pick([]string{"", " ", "\n"})
	}
}

func genInlineRich(r *Rng, wild bool) []byte {
	if r.Intn(40) == 0 {
		// a label close to the 999-character limit, wrapped over many lines, defined at top level and used (shortcut,
		// collapsed, full) at top level and inside nested containers
		n := []int{869, 960, 989, 998, 999, 1000}[r.Intn(6)]
		l := longLabel(n, 20+r.Intn(80))
		use := []string{"[" + l + "]", "[" + l + "][]", "![x][" + l + "]", "[t][" + l + "]"}[r.Intn(4)]
		pre := []string{"", "> ", "> > > ", "- ", "1. > "}[r.Intn(5)]
		cont := map[string]string{"": "", "> ": "> ", "> > > ": "> > > ", "- ": "  ", "1. > ": "   > "}[pre]
		return []byte("[" + l + "]: /url\n\n" + string(prefixLines([]byte(use+"\n"), pre, cont)))
	}
	if r.Intn(40) == 0 {
		// wide trees: many inline children / list items / root blocks (explicit stacks grow past their first allocation)
		k := 30 + r.Intn(120)
		switch r.Intn(4) {
		case 0:
			return []byte(strings.Repeat("x *y*\n", k))
		case 1:
			return []byte(strings.Repeat("- x\n", k))
		case 2:
			return []byte(strings.Repeat("p\n\n", k))
		default:
			return []byte("> " + strings.Repeat("a `b` [c](/d) ", k) + "\n")
		}
	}
	def := func() string {
		l := r.Pick(richLabels)
		if r.Intn(6) == 0 {
			l = strings.ToUpper(l)
		}
		d := "[" + l + "]: " + r.Pick([]string{"/u", "/first", "/second", "</u v>", "/a\\_b"}) + r.Pick([]string{"", "", " 't'", " \"ti\ntle\"", "\n  'x'", "\n\"title\ncontinues\" junk", "\n'a\nb' c", " 'x\n'", "\n(t\nu)", "\n'title' and more\n===", "\n\"t\" x\n---", "\n==="}) + "\n"
		switch r.Intn(6) {
		case 0:
			d = string(prefixLines([]byte(d), "> ", "> "))
		case 1:
			d = string(prefixLines([]byte(d), "> > ", "> > ")) + ">\n"
		case 2:
			d = string(prefixLines([]byte(d), "- ", "  "))
		case 3:
			d = string(prefixLines([]byte(d), "> - ", ">   "))
		}
		return d
	}
	var sb strings.Builder
	for n := r.Intn(3); n > 0; n-- {
		sb.WriteString(def())
		if r.Intn(3) > 0 {
			sb.WriteString("\n")
		}
	}
	var para strings.Builder
	for n := 1 + r.Intn(5); n > 0; n-- {
		para.WriteString(genInline(r, 3))
	}
	body := strings.TrimLeft(para.String(), " \n")
	switch r.Intn(9) {
	case 0:
		body = string(prefixLines([]byte(body), "> ", "> "))
	case 1:
		body = string(prefixLines([]byte(body), "- ", "  "))
	case 2:
		body = "# " + strings.ReplaceAll(body, "\n", " ")
	case 3:
		if wild {
			body = string(prefixLines([]byte(body), "- ", "\t"))
		}
	case 4:
		if wild {
			body = string(prefixLines([]byte(body), "1. ", "\t"))
		}
	case 7:
		if wild {
			body = string(prefixLines([]byte(strings.ReplaceAll(body, "\n", "\n\x00")), "> ", "   >\t"))
		}
	case 8:
		if wild {
			body = string(prefixLines([]byte(strings.ReplaceAll(body, "\n", "\n\x00")), "- ", "\t"))
		}
	case 5:
		body = string(prefixLines([]byte(body), "> > > ", "> > > "))
	case 6:
		body = string(prefixLines([]byte(body), "- > ", "  > "))
	}
	sb.WriteString(body)
	if r.Intn(8) == 0 {
		sb.WriteString(r.Pick([]string{"  ", "   ", "\\", " \t"}))
		return finishEOL(r, wild, sb.String())
	}
	if r.Intn(3) > 0 {
		sb.WriteString("\n")
		for n := r.Intn(3); n > 0; n-- {
			sb.WriteString("\n")
			sb.WriteString(def())
		}
	}
	return finishEOL(r, wild, sb.String())
}

func finishEOL(r *Rng, wild bool, out string) []byte {
	if wild {
		switch r.Intn(5) {
		case 0:
			out = strings.ReplaceAll(out, "\n", "\r\n")
		case 1:
			out = strings.ReplaceAll(out, "\n", "\r")
		}
	}
	return []byte(out)
}

// chunkBoundaryDocs: documents built so that a line ending, a NUL run, a multi-byte character or the end of
// the input falls exactly on (or next to) a multiple of the streaming parser's 8 KiB read size — measured from the
// start of the input and, because each document is a single root block or starts a new one there, from the start
// of a root block too — and documents whose size and NUL count make the padded buffer outgrow a partly filled chunk.
func chunkBoundaryDocs() [][]byte {
	var out [][]byte
	filler := func(n int, eol string) []byte {
		var b []byte
		for len(b)+8 <= n {
			b = append(b, "abcdefg"...)
			if len(eol) == 2 && len(b)+2 <= n {
				b = append(b[:len(b)-1], eol...)
			} else {
				b = append(b, eol[len(eol)-1])
			}
		}
		for len(b) < n {
			b = append(b, 'x')
		}
		return b
	}
	specials := []string{"\r\n", "\r", "\r\r\n", "\x00", "\x00\x00\x00", "é", "\r\n\r\n", "\n\n", "€"}
	for _, B := range []int{8192, 16384} {
		for _, eol := range []string{"\n", "\r\n", "\r"} {
			for _, sp := range specials {
				for k := 0; k <= len(sp); k++ {
					d := filler(B-k, eol)
					if d[len(d)-1] == '\n' || d[len(d)-1] == '\r' {
						d[len(d)-1] = 'y'
					}
					d = append(d, sp...)
					d = append(d, "same paragraph"+eol+eol+"second *block*"+eol...)
					out = append(out, d)
				}
			}
			// the input ends exactly at / just before / just after the boundary
			for k := -1; k <= 1; k++ {
				out = append(out, filler(B+k, eol))
			}
		}
	}
	// NUL padding that does not fit into the partly filled chunk
	for _, z := range []int{1, 2, 10, 100, 1000, 2700} {
		for _, n := range []int{8192 - z, 8192 - z - 1, 8192 - 2*z + 1, 8192 - 2*z, 8192 - 3*z/2, 8191, 8192} {
			if n <= z+10 {
				continue
			}
			d := filler(n-z, "\n")
			// spread the NULs: half in one run in the middle, the rest at the end of the data
			mid := len(d) / 2
			var b []byte
			b = append(b, d[:mid]...)
			b = append(b, make([]byte, z/2)...)
			b = append(b, d[mid:]...)
			b = append(b, make([]byte, z-z/2)...)
			out = append(out, b)
		}
	}
	return out
}

// hugeBlankRunDocs: more than the streaming parser's block-size limit of blank lines between (or before) small blocks.
func hugeBlankRunDocs() [][]byte {
	n := 1<<20 + 16
	return [][]byte{
		[]byte("first\n" + strings.Repeat("\n", n) + "second\n"),
		[]byte("first\r\n" + strings.Repeat("\r\n", n/2+8) + "second\r\n"),
		[]byte(strings.Repeat("\n", n) + "only\n"),
		[]byte("a\n\n" + strings.Repeat(" \t \n", n/4+8) + "b\n"),
	}
}

// longLabelDocs: labels of 869..1000 characters wrapped over lines of several widths, defined at top level and used in
// every reference form at top level and inside nested containers (where the continuation lines carry prefixes).
func longLabelDocs() [][]byte {
	var out [][]byte
	for _, n := range []int{869, 960, 989, 998, 999, 1000} {
		for _, w := range []int{29, 60, 98} {
			l := longLabel(n, w)
			for _, use := range []string{"[" + l + "]", "[" + l + "][]", "![x][" + l + "]", "[t][" + l + "]"} {
				for _, pc := range [][2]string{{"", ""}, {"> ", "> "}, {"> > > ", "> > > "}, {"- ", "  "}, {"1. > ", "   > "}} {
					out = append(out, []byte("["+l+"]: /url\n\n"+string(prefixLines([]byte(use+"\n"), pc[0], pc[1]))))
				}
			}
		}
	}
	return out
}

// deepNestDocs: documents whose containers nest 15..300 deep (block quotes, bullet lists, ordered lists and mixtures),
// with a two-line paragraph, a fenced block or a heading at the bottom; around powers of two and round numbers, where a
// nesting bound or a fixed-size table would sit. Tab-free, CR-free, no blank lines, first character non-space.
func deepNestDocs() [][]byte {
	var out [][]byte
	depths := []int{15, 16, 17, 30, 31, 32, 33, 47, 48, 49, 62, 63, 64, 65, 66, 99, 100, 101, 127, 128, 129, 199, 200, 201, 255, 256, 257, 300}
	bodies := []string{"a\nb\n", "# h\n", "```\nc\n```\n", "[x]: /u\n[x]\n"}
	for _, k := range depths {
		for bi, body := range bodies {
			if bi > 0 && k%2 == 1 {
				continue
			}
			// block quotes only: every line carries k markers
			out = append(out, prefixLines([]byte(body), strings.Repeat("> ", k), strings.Repeat("> ", k)))
			out = append(out, prefixLines([]byte(body), strings.Repeat(">", k)+" ", strings.Repeat(">", k)+" "))
			// bullet lists only: continuation lines are indented by 2 per level
			if k <= 130 {
				out = append(out, prefixLines([]byte(body), strings.Repeat("- ", k), strings.Repeat("  ", k)))
				out = append(out, prefixLines([]byte(body), strings.Repeat("1. ", k), strings.Repeat("   ", k)))
				// alternating quote / list item
				var f, r strings.Builder
				for j := 0; j < k; j++ {
					if j%2 == 0 {
						f.WriteString("> ")
						r.WriteString("> ")
					} else {
						f.WriteString("- ")
						r.WriteString("  ")
					}
				}
				out = append(out, prefixLines([]byte(body), f.String(), r.String()))
			}
		}
	}
	return out
}

// nearLimitDocs: one root block whose size is just below (and, last two, at/above) the streaming parser's block limit
// (maxBlockSize-2 bytes buffered without the end of the current line): everything below the limit must stream exactly
// like it parses in memory; the two above it are in the class of the known finding KF-C04-streaming-block-limit.
func nearLimitDocs() [][]byte {
	const limit = 1<<20 - 2
	var out [][]byte
	mk := func(total int, eol string, fenced bool) []byte {
		var sb bytes.Buffer
		open, close := "", ""
		if fenced {
			open, close = "```"+eol, "```"+eol
		}
		sb.WriteString(open)
		line := strings.Repeat("x", 63-len(eol)+1) + eol // 64 bytes
		for sb.Len()+len(line)+len(close) <= total-70 {
			sb.WriteString(line)
		}
		// last content line pads to the exact total
		rest := total - sb.Len() - len(close) - len(eol)
		sb.WriteString(strings.Repeat("y", rest) + eol)
		sb.WriteString(close)
		return sb.Bytes()
	}
	for _, k := range []int{8, 9, 15, 100, 4096, 8191, 8192, 8193, 16384, 20000, 24575, 24576, 24577, 40000} {
		out = append(out, mk(limit-k, "\n", true))
	}
	out = append(out, mk(limit-8, "\r\n", false), mk(limit-8200, "\r\n", false), mk(limit-20000, "\n", false))
	out = append(out, mk(limit+1, "\n", true), mk(limit+9000, "\n", false))
	return out
}
