//go:build verif

// Command harness drives the implementation side of every check:
// generators, the correspondence with the Lean driver, the property oracles,
// shrinking and replay files. It is built from /repo's working tree with -tags verif.
package main

import (
	"bufio"
	"encoding/json"
	"flag"
	"fmt"
	"os"
	"os/exec"
	"path/filepath"
	"sort"
	"strings"
	"time"
)

type Violation struct {
	What   string `json:"what"`
	Input  string `json:"input_hex,omitempty"`
	Text   string `json:"input_text,omitempty"`
	Detail string `json:"detail,omitempty"`
	Family string `json:"family,omitempty"`
	Known  string `json:"known,omitempty"` // id of the known finding that covers it
	Replay string `json:"replay,omitempty"`
	Op     string `json:"op,omitempty"`
}

type Disagreement struct {
	Op    string `json:"op"`
	Impl  string `json:"impl"`
	Model string `json:"model"`
}

type Result struct {
	Property   string                    `json:"property"`
	Tier       string                    `json:"tier"`
	Seed       uint64                    `json:"seed"`
	Evals      int                       `json:"evaluations"`
	Nontrivial int                       `json:"distinct_nontrivial"`
	Rule       string                    `json:"rule"`
	Samples    []interface{}             `json:"samples"`
	Families   map[string]map[string]int `json:"families"`
	CorrOps    int                       `json:"corr_ops"`
	CorrByOp   map[string]int            `json:"corr_by_op"`
	Disagree   []Disagreement            `json:"disagreements"`
	Violations []Violation               `json:"violations"`
	KnownHits  map[string]int            `json:"known_hits"`
	Exhaustive bool                      `json:"exhaustive"`
	Notes      []string                  `json:"notes"`
	WallS      float64                   `json:"wall_s"`
	ExtChecks  map[string]string         `json:"ext_checks,omitempty"`
}

type Ctx struct {
	Prop     string
	Tier     string
	Seed     uint64
	OutDir   string
	Res      *Result
	drv      *Driver
	distinct map[string]struct{}
	known    []KnownFinding
	budget   float64 // multiplier
	perWhat  map[string]int
}

func (c *Ctx) quick() bool { return c.Tier != "thorough" }

// N scales a case count by tier: quick gets q, thorough t.
func (c *Ctx) N(q, t int) int {
	if c.quick() {
		return int(float64(q) * c.budget)
	}
	return int(float64(t) * c.budget)
}

func (c *Ctx) fam(name, key string, n int) {
	if c.Res.Families[name] == nil {
		c.Res.Families[name] = map[string]int{}
	}
	c.Res.Families[name][key] += n
}

// count registers one evaluated case; nontrivial cases are counted once per distinct key.
func (c *Ctx) count(key string, nontrivial bool) {
	c.Res.Evals++
	if nontrivial {
		if len(c.distinct) < 4_000_000 {
			if _, ok := c.distinct[key]; !ok {
				c.distinct[key] = struct{}{}
				c.Res.Nontrivial++
			}
		}
	}
}

func (c *Ctx) sample(v interface{}) {
	if len(c.Res.Samples) < 8 {
		c.Res.Samples = append(c.Res.Samples, v)
	}
}

func (c *Ctx) note(format string, a ...interface{}) {
	c.Res.Notes = append(c.Res.Notes, fmt.Sprintf(format, a...))
}

// report handles one failing case: known findings are counted, repeated kinds are suppressed
// after a few reports (so a systematic failure cannot stall the run), the rest is shrunk and recorded.
func (c *Ctx) report(what string, input []byte, fam, detail string, failing func([]byte) bool, describe func([]byte) string) {
	v := Violation{What: what, Input: hx(input), Text: printable(input), Family: fam, Detail: detail}
	if id := c.matchKnown(v); id != "" {
		c.Res.KnownHits[id]++
		return
	}
	c.perWhat[what]++
	if c.perWhat[what] > 3 {
		return
	}
	if failing != nil {
		m := shrinkBytes(input, func(x []byte) bool {
			if !failing(x) {
				return false
			}
			// never shrink into a known finding: that would hide a different violation
			return c.matchKnown(Violation{What: what, Input: hx(x)}) == ""
		})
		v.Input, v.Text = hx(m), printable(m)
		if describe != nil {
			v.Detail = describe(m)
		}
	}
	c.violation(v)
}

// violation records a property violation unless a known finding covers it.
func (c *Ctx) violation(v Violation) {
	if id := c.matchKnown(v); id != "" {
		c.Res.KnownHits[id]++
		return
	}
	for _, old := range c.Res.Violations {
		if old.What == v.What && old.Input == v.Input {
			return
		}
	}
	if len(c.Res.Violations) < 20 {
		v.Replay = c.writeReplay(v)
		c.Res.Violations = append(c.Res.Violations, v)
	}
}

func (c *Ctx) writeReplay(v Violation) string {
	dir := filepath.Join(c.OutDir, "replay")
	os.MkdirAll(dir, 0o755)
	p := filepath.Join(dir, fmt.Sprintf("%s-%d.json", c.Prop, len(c.Res.Violations)))
	data, _ := json.MarshalIndent(map[string]interface{}{
		"property": c.Prop, "what": v.What, "input_hex": v.Input, "input_text": v.Text, "detail": v.Detail,
		"family": v.Family, "seed": c.Seed, "tier": c.Tier, "op": v.Op,
	}, "", " ")
	os.WriteFile(p, data, 0o644)
	return p
}

// ---- known findings ----

type KnownFinding struct {
	ID       string `json:"id"`
	Property string `json:"property"`
	Status   string `json:"status"` // "open" or "fixed"
	What     string `json:"what"`   // violation kind this entry covers
	Input    string `json:"input_hex,omitempty"`
	Class    string `json:"class,omitempty"` // name of a decidable input class (see classes.go)
	Desc     string `json:"desc"`
	Commit   string `json:"commit,omitempty"`
}

func loadKnown() []KnownFinding {
	f, err := os.Open(filepath.Join(verifDir, "known_findings.jsonl"))
	if err != nil {
		return nil
	}
	defer f.Close()
	var out []KnownFinding
	sc := bufio.NewScanner(f)
	sc.Buffer(make([]byte, 1<<20), 1<<20)
	for sc.Scan() {
		line := strings.TrimSpace(sc.Text())
		if line == "" || strings.HasPrefix(line, "#") {
			continue
		}
		var k KnownFinding
		if json.Unmarshal([]byte(line), &k) == nil {
			out = append(out, k)
		}
	}
	return out
}

func (c *Ctx) matchKnown(v Violation) string {
	for _, k := range c.known {
		if k.Status != "open" || k.Property != c.Prop {
			continue
		}
		if k.What != "" && k.What != v.What {
			continue
		}
		if k.Input != "" && k.Input == v.Input {
			return k.ID
		}
		if k.Class != "" {
			if pred, ok := inputClasses[k.Class]; ok && pred(unhx(orDash(v.Input))) {
				return k.ID
			}
		}
	}
	return ""
}

func orDash(s string) string {
	if s == "" {
		return "-"
	}
	return s
}

// ---- Lean driver ----

type Driver struct {
	cmd *exec.Cmd
	in  *bufio.Writer
	out *bufio.Reader
}

func startDriver() (*Driver, error) {
	bin := filepath.Join(verifDir, "lean/.lake/build/bin/driver")
	cmd := exec.Command(bin)
	stdin, err := cmd.StdinPipe()
	if err != nil {
		return nil, err
	}
	stdout, err := cmd.StdoutPipe()
	if err != nil {
		return nil, err
	}
	cmd.Stderr = os.Stderr
	if err := cmd.Start(); err != nil {
		return nil, err
	}
	return &Driver{cmd: cmd, in: bufio.NewWriterSize(stdin, 1<<20), out: bufio.NewReaderSize(stdout, 1<<20)}, nil
}

// Ask sends the lines and returns one answer per line.
func (d *Driver) Ask(lines []string) ([]string, error) {
	errc := make(chan error, 1)
	go func() {
		for _, l := range lines {
			if _, err := d.in.WriteString(l); err != nil {
				errc <- err
				return
			}
			d.in.WriteByte('\n')
		}
		d.in.WriteString("flush\n")
		errc <- d.in.Flush()
	}()
	out := make([]string, 0, len(lines))
	for range lines {
		s, err := d.out.ReadString('\n')
		if err != nil {
			return out, fmt.Errorf("driver died after %d answers: %v", len(out), err)
		}
		out = append(out, strings.TrimRight(s, "\n"))
	}
	if err := <-errc; err != nil {
		return out, err
	}
	return out, nil
}

func (d *Driver) Ask1(line string) string {
	r, err := d.Ask([]string{line})
	if err != nil || len(r) != 1 {
		return "driver-error"
	}
	return r[0]
}

func (d *Driver) Close() {
	d.in.Flush()
	d.cmd.Process.Kill()
	d.cmd.Wait()
}

// corrBatch compares the implementation's answers with the model's for a batch of ops.
// ops[i] is the op line, impl[i] the implementation's canonical answer.
func (c *Ctx) corrBatch(ops, impl []string) {
	if len(ops) == 0 {
		return
	}
	model, err := c.drv.Ask(ops)
	if err != nil {
		c.note("driver failure: %v", err)
		c.Res.Disagree = append(c.Res.Disagree, Disagreement{Op: "driver", Impl: "", Model: err.Error()})
		// restart so later batches still run
		c.drv.Close()
		c.drv, _ = startDriver()
		return
	}
	for i := range ops {
		c.Res.CorrOps++
		name := ops[i]
		if j := strings.IndexByte(name, '\t'); j >= 0 {
			name = name[:j]
		}
		c.Res.CorrByOp[name]++
		if model[i] != impl[i] {
			if len(c.Res.Disagree) < 20 {
				c.Res.Disagree = append(c.Res.Disagree, Disagreement{Op: ops[i], Impl: impl[i], Model: model[i]})
			}
		}
	}
}

// Batch accumulates correspondence ops and flushes them in chunks.
type Batch struct {
	c    *Ctx
	ops  []string
	impl []string
}

func (b *Batch) Add(op, impl string) {
	b.ops = append(b.ops, op)
	b.impl = append(b.impl, impl)
	if len(b.ops) >= 2000 {
		b.Flush()
	}
}

func (b *Batch) Flush() {
	b.c.corrBatch(b.ops, b.impl)
	b.ops, b.impl = b.ops[:0], b.impl[:0]
}

// ---- shrinking ----

// shrinkBytes greedily removes chunks and simplifies bytes while failing(input) stays true.
func shrinkBytes(input []byte, failing func([]byte) bool) []byte {
	cur := append([]byte(nil), input...)
	deadline := time.Now().Add(8 * time.Second)
	for chunk := len(cur) / 2; chunk >= 1; {
		changed := false
		for i := 0; i+chunk <= len(cur); {
			if time.Now().After(deadline) {
				return cur
			}
			cand := append(append([]byte(nil), cur[:i]...), cur[i+chunk:]...)
			if failing(cand) {
				cur = cand
				changed = true
			} else {
				i++
			}
		}
		if !changed || chunk > len(cur) {
			chunk /= 2
		}
		if chunk > len(cur)/2 && chunk > 1 {
			chunk = len(cur) / 2
		}
	}
	// simplify bytes towards 'a'
	for i := range cur {
		if time.Now().After(deadline) {
			break
		}
		if cur[i] == 'a' {
			continue
		}
		old := cur[i]
		cur[i] = 'a'
		if !failing(cur) {
			cur[i] = old
		}
	}
	return cur
}

func printable(b []byte) string {
	return fmt.Sprintf("%q", string(b))
}

// ---- main ----

type propFunc func(c *Ctx)

var props = map[string]propFunc{}

func main() {
	prop := flag.String("prop", "", "property id")
	tier := flag.String("tier", "quick", "quick|thorough")
	seed := flag.Uint64("seed", 1, "seed")
	out := flag.String("out", "", "output directory")
	replay := flag.String("replay", "", "replay file")
	budget := flag.Float64("budget", 1, "case-count multiplier")
	flag.StringVar(&repoDir, "repo", "/repo", "repository")
	flag.StringVar(&verifDir, "verif", "/verif", "verif dir")
	flag.Parse()

	f, ok := props[*prop]
	if !ok {
		fmt.Fprintln(os.Stderr, "unknown property", *prop)
		os.Exit(2)
	}
	if *out == "" {
		*out = filepath.Join(verifDir, "work", *prop)
	}
	os.MkdirAll(*out, 0o755)
	start := time.Now()
	c := &Ctx{Prop: *prop, Tier: *tier, Seed: *seed, OutDir: *out, distinct: map[string]struct{}{}, budget: *budget, perWhat: map[string]int{},
		Res: &Result{Property: *prop, Tier: *tier, Seed: *seed, Families: map[string]map[string]int{}, KnownHits: map[string]int{}, CorrByOp: map[string]int{}}}
	c.known = loadKnown()
	drv, err := startDriver()
	if err != nil {
		fmt.Fprintln(os.Stderr, "cannot start Lean driver:", err)
		os.Exit(2)
	}
	c.drv = drv
	if *replay != "" {
		runReplay(c, *replay, f)
	} else {
		f(c)
	}
	c.drv.Close()
	c.Res.WallS = time.Since(start).Seconds()
	// stable order for notes
	sort.Strings(c.Res.Notes)
	data, _ := json.MarshalIndent(c.Res, "", " ")
	os.WriteFile(filepath.Join(*out, "result.json"), data, 0o644)
	if len(c.Res.Violations) > 0 || len(c.Res.Disagree) > 0 {
		os.Exit(1)
	}
}

// replayInput is set when a replay file is being re-run: property functions that
// see a non-nil replayInput evaluate just that input.
var replayInput []byte
var replayMode bool

func runReplay(c *Ctx, path string, f propFunc) {
	data, err := os.ReadFile(path)
	if err != nil {
		fmt.Fprintln(os.Stderr, err)
		os.Exit(2)
	}
	var r struct {
		Input string `json:"input_hex"`
	}
	json.Unmarshal(data, &r)
	replayMode = true
	replayInput = unhx(orDash(r.Input))
	f(c)
}

// OracleBatch asks the Lean driver to evaluate a *specification* (or a verified checker) and
// compares its answer with what the implementation produced; a difference is a property violation.
type OracleBatch struct {
	c      *Ctx
	ops    []string
	expect []string
	fail   []func(got string)
}

func (b *OracleBatch) Add(op, expect string, onFail func(got string)) {
	b.ops = append(b.ops, op)
	b.expect = append(b.expect, expect)
	b.fail = append(b.fail, onFail)
	if len(b.ops) >= 2000 {
		b.Flush()
	}
}

func (b *OracleBatch) Flush() {
	if len(b.ops) == 0 {
		return
	}
	got, err := b.c.drv.Ask(b.ops)
	if err != nil {
		b.c.note("driver failure (oracle): %v", err)
		b.c.Res.Disagree = append(b.c.Res.Disagree, Disagreement{Op: "driver", Model: err.Error()})
		b.c.drv.Close()
		b.c.drv, _ = startDriver()
	} else {
		for i := range b.ops {
			if got[i] != b.expect[i] {
				b.fail[i](got[i])
			}
		}
	}
	b.ops, b.expect, b.fail = b.ops[:0], b.expect[:0], b.fail[:0]
}
