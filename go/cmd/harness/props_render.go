//go:build verif

package main

import (
	"bytes"
	"fmt"
	"html"
	"strings"

	cm "zombiezen.com/go/commonmark"
)

func init() { props["C10"] = runC10 }

func filterWire(name string) string {
	switch {
	case name == "":
		return "-"
	case strings.HasPrefix(name, "set:"):
		parts := strings.Split(name[4:], ",")
		for i := range parts {
			parts[i] = hx([]byte(parts[i]))
		}
		return "set:" + strings.Join(parts, ",")
	}
	return name
}

// extTable lists html.UnescapeString for every character-reference node of the tree (the finite part of
// the external function the model needs for this tree).
func extTable(src []byte, n cm.Node, seen map[string]bool, out *[]string) {
	if in := n.Inline(); in != nil && in.Kind() == cm.CharacterReferenceKind {
		sp := in.Span()
		if sp.IsValid() && sp.End <= len(src) {
			s := string(src[sp.Start:sp.End])
			if !seen[s] {
				seen[s] = true
				*out = append(*out, hx([]byte(s))+":"+hx([]byte(html.UnescapeString(s))))
			}
		}
	}
	for i, c := 0, n.ChildCount(); i < c; i++ {
		extTable(src, n.Child(i), seen, out)
	}
}

func extWire(src []byte, n cm.Node) string {
	var out []string
	extTable(src, n, map[string]bool{}, &out)
	if len(out) == 0 {
		return "-"
	}
	return strings.Join(out, ";")
}

func renderOpLine(which string, cfg renderCfg, src []byte, tree string, refs cm.ReferenceMap, ext string) string {
	return fmt.Sprintf("render\t%s\t%d\t%s\t%s\t%s\t%s\t%s\t%s", which, int(cfg.soft), b01(cfg.ignoreRaw), filterWire(cfg.filter), hx(src), tree, refMapWire(refs), ext)
}

func appendBlockSafe(r *cm.HTMLRenderer, rb *cm.RootBlock) (out []byte, perr string) {
	perr = safely(func() { out = r.AppendBlock(nil, rb) })
	return
}

var c10Filters = []string{"", "gfm", "all", "none", "set:script,b,p,em,a,/p,code"}

func runC10(c *Ctx) {
	c.Res.Rule = "trees: every root of corpus and seeded generated documents (incl. raw HTML, entities, images, reference links, code blocks with info strings, tight/loose and ordered lists, CR/CRLF, NUL, invalid UTF-8) plus synthetic trees outside the parser's range; configurations: SoftBreak x IgnoreRaw x FilterTag in {nil, GFM, always, never, two name sets incl. /name end-tag forms} (all 36 on corpus documents, 4 random ones otherwise), the same renderer value re-configured and reused across configurations; AppendBlock's bytes are compared with the Lean Walk-based model (correspondence) and the Lean recursive specification (oracle); in-process: rendering twice gives the same bytes, tree and Source are unchanged, Render = AppendBlock per block joined by blank lines, reference definitions render to nothing; non-trivial = root with >= 4 nodes; distinct by (input, root index, configuration)"
	corr := &Batch{c: c}
	orc := &OracleBatch{c: c}
	one := func(idx int, fam string, doc []byte, all bool) {
		res := parseMem(doc)
		if res.err != "" {
			return
		}
		c.fam(fam, "cases", 1)
		cfgs := allCfgs
		if !all {
			rng := newRng(c.Seed, "c10-cfg", idx)
			cfgs = nil
			for k := 0; k < 4; k++ {
				cfgs = append(cfgs, allCfgs[rng.Intn(len(allCfgs))])
			}
		}
		before := make([]string, len(res.roots))
		srcs := make([][]byte, len(res.roots))
		for i, r := range res.roots {
			before[i] = wireRoot(r)
			srcs[i] = append([]byte(nil), r.Source...)
		}
		fresh := map[string][]byte{}
		for _, cfg := range cfgs {
			cfg := cfg
			rd := &cm.HTMLRenderer{ReferenceMap: res.refs, SoftBreakBehavior: cfg.soft, IgnoreRaw: cfg.ignoreRaw, FilterTag: filterFunc(cfg.filter)}
			var parts [][]byte
			for ri, r := range res.roots {
				out, perr := appendBlockSafe(rd, r)
				if perr != "" {
					continue
				}
				parts = append(parts, out)
				fresh[fmt.Sprint(ri, cfg)] = out
				nodes := countNodes(r.AsNode())
				c.count(fmt.Sprint(ri, cfg, string(doc)), nodes >= 4)
				if nodes >= 4 && len(doc) < 60 {
					c.sample(map[string]string{"input": printable(doc), "cfg(soft/ignoreRaw/filter)": cfg.String(), "html": string(out)})
				}
				tree := before[ri]
				ext := extWire(r.Source, r.AsNode())
				corr.Add(renderOpLine("impl", cfg, r.Source, tree, res.refs, ext), hx(out))
				orc.Add(renderOpLine("spec", cfg, r.Source, tree, res.refs, ext), hx(out), func(got string) {
					c.report("render-differs-from-specification", doc, fam, fmt.Sprintf("cfg %s root %d: implementation %q specification %q", cfg, ri, out, unhx(got)), nil, nil)
				})
				if again, _ := appendBlockSafe(rd, r); !bytes.Equal(again, out) {
					c.report("render-not-deterministic", doc, fam, cfg.String(), nil, nil)
				}
				if r.Kind() == cm.LinkReferenceDefinitionKind && len(out) != 0 {
					c.report("definition-renders-output", doc, fam, string(out), nil, nil)
				}
			}
			// Render = AppendBlock per block joined by blank lines
			if whole, perr := render(res.roots, res.refs, cfg); perr == "" && len(parts) == len(res.roots) {
				if !bytes.Equal(whole, bytes.Join(parts, []byte("\n\n"))) {
					c.report("render-is-not-the-join-of-blocks", doc, fam, cfg.String(), nil, nil)
				}
			}
		}
		// ONE renderer value re-configured between calls (configurations in reverse order): the output is a function of
		// the configuration at the time of the call, not of what the renderer was used for before
		shared := &cm.HTMLRenderer{}
		for k := len(cfgs) - 1; k >= 0; k-- {
			cfg := cfgs[k]
			shared.ReferenceMap, shared.SoftBreakBehavior, shared.IgnoreRaw, shared.FilterTag = res.refs, cfg.soft, cfg.ignoreRaw, filterFunc(cfg.filter)
			for ri, r := range res.roots {
				want, ok := fresh[fmt.Sprint(ri, cfg)]
				if !ok {
					continue
				}
				if out, perr := appendBlockSafe(shared, r); perr == "" && !bytes.Equal(out, want) {
					c.report("render-depends-on-renderer-history", doc, fam, fmt.Sprintf("cfg %s root %d: reused renderer %q fresh renderer %q", cfg, ri, out, want), nil, nil)
				}
			}
		}
		for i, r := range res.roots {
			if wireRoot(r) != before[i] || !bytes.Equal(r.Source, srcs[i]) {
				c.report("render-modifies-tree-or-source", doc, fam, "", nil, nil)
			}
		}
	}
	if replayMode {
		one(0, "replay", replayInput, true)
		corr.Flush()
		orc.Flush()
		return
	}
	for i, d := range corpusDocs() {
		one(i, "corpus", d, c.quick() == false || i%5 == 0)
	}
	n := c.N(12000, 300000)
	for i := 0; i < n; i++ {
		rng := newRng(c.Seed, "c10", i)
		var d []byte
		fam := "lines"
		switch i % 3 {
		case 0:
			d = genLines(rng, true, 6)
		case 1:
			d, fam = genPieces(rng, true, 10), "pieces"
		default:
			d, fam = genRenderDoc(rng), "render-doc"
		}
		one(i, fam, d, false)
	}
	// raw HTML heavy documents under all 36 configurations (several upper/mixed-case tags per block, inline and in HTML blocks)
	rawFrag := []string{"<DIV>", "<XMP>", "<Xmp>", "</XMP>", "<PRE>", "<Kbd>", "<EM>", "<b>", "</b>", "<script>", "<Script>", "<a href=\"x\">", "<!-- c -->", "text", " ", "\n", "*e*", "`c`", "&amp;", "<TITLE>", "</Title>", "<img\nsrc=x>"}
	for i := 0; i < c.N(1500, 40000); i++ {
		rng := newRng(c.Seed, "c10-raw", i)
		var sb strings.Builder
		if rng.Intn(2) == 0 {
			sb.WriteString("see ")
		}
		for k := 2 + rng.Intn(6); k > 0; k-- {
			sb.WriteString(rng.Pick(rawFrag))
		}
		one(i, "raw-html", []byte(sb.String()), true)
	}
	for i := 0; i < c.N(1500, 40000); i++ {
		one(i, "inline-rich", genInlineRich(newRng(c.Seed, "c10-rich", i), true), i%4 == 0)
	}
	// synthetic trees (the model's theorems quantify over all trees)
	for i := 0; i < c.N(4000, 100000); i++ {
		rng := newRng(c.Seed, "c10-synth", i)
		w := synthRenderTree(rng, 1+rng.Intn(3), true, 40)
		if !w.homogeneous() {
			continue
		}
		src := []byte("ab&amp;<c>\"d'e 1. f\n&#35; &copy;*g*_h_ `i` <j> k")[:40]
		rb := &cm.RootBlock{Source: src, Block: *w.toBlock()}
		cfg := allCfgs[rng.Intn(len(allCfgs))]
		rd := &cm.HTMLRenderer{ReferenceMap: cm.ReferenceMap{"r": {Destination: "/d", Title: "t\"", TitlePresent: true}}, SoftBreakBehavior: cfg.soft, IgnoreRaw: cfg.ignoreRaw, FilterTag: filterFunc(cfg.filter)}
		out, perr := appendBlockSafe(rd, rb)
		c.fam("synthetic", "cases", 1)
		if perr != "" {
			c.fam("synthetic", "panics(outside RenderPre)", 1)
			continue
		}
		c.count(w.String()+cfg.String(), true)
		tree := wireRoot(rb)
		corr.Add(renderOpLine("impl", cfg, src, tree, rd.ReferenceMap, extWire(src, rb.AsNode())), hx(out))
		orc.Add(renderOpLine("spec", cfg, src, tree, rd.ReferenceMap, extWire(src, rb.AsNode())), hx(out), func(got string) {
			c.report("render-differs-from-specification", nil, "synthetic", fmt.Sprintf("cfg %s tree %s: implementation %q specification %q", cfg, tree, out, unhx(got)), nil, nil)
		})
	}
	corr.Flush()
	orc.Flush()
}

var renderDocPieces = []string{
	"![a *b* `c` &amp; <d>](/u \"t&quot;\")", "[x](</u v> 'T')", "[r]", "[r][]", "[y][r]", "![r]", "\n\n[r]: /d%GG%41 \"ti'tle&amp;\"\n\n", "<http://a.b/c?d=e&f>", "<a@b.cc>", "<MAILTO:x@y.z>",
	"&amp;", "&#65;", "&#x1F600;", "&notit;", "&copy", "a  \nb", "a\\\nb", "a\nb", "*e*", "**s**", "***es***", "`c`", "`` ` ``", "<b>", "</b>", "<script>x</script>", "<!-- c -->", "<?p?>", "<![CDATA[x]]>", "<!D e>",
	"\n\n```go lang\ncode <&>\n```\n\n", "\n\n~~~ a&amp;b\\*\nx\n~~~\n\n", "\n\n    ind <&>\n\n", "\n\n- a\n- b\n\n", "\n\n- a\n\n- b\n\n", "\n\n1. a\n2. b\n\n", "\n\n7) a\n\n", "\n\n0. z\n\n", "\n\n> q\n> r\n\n", "\n\n# h\n\n", "\n\nh\n===\n\n", "\n\n---\n\n",
	"\n\n<div>\n*x*\n</div>\n\n", "\n\n<script>\nalert(1)\n</script>\n\n", "\n\n<!-- c\n-->\n\n", "\n\n<TEXTAREA>\n\n", "\t", "\r\n", "\x00", "\xff", "é", "\"", "'", "<", ">", "&", "a", " ",
}

func genRenderDoc(r *Rng) []byte {
	var sb strings.Builder
	for k := 1 + r.Intn(8); k > 0; k-- {
		sb.WriteString(r.Pick(renderDocPieces))
	}
	return []byte(sb.String())
}

// synthRenderTree: random trees that respect RenderPre (valid spans, autolink with one text child,
// character references over a real reference) but are otherwise arbitrary.
func synthRenderTree(r *Rng, depth int, block bool, srcLen int) *wnode {
	span := func() (int, int) {
		a := r.Intn(srcLen + 1)
		b := a + r.Intn(srcLen+1-a)
		return a, b
	}
	n := &wnode{isBlock: block}
	n.start, n.stop = span()
	if block {
		n.kind = 1 + r.Intn(12)
		n.n = r.Intn(8)
		n.char = []int{0, '.', ')', '-', '`', '~'}[r.Intn(6)]
		n.loose = r.Bool()
		n.indent = r.Intn(5)
	} else {
		n.kind = 1 + r.Intn(18)
		n.indent = r.Intn(4)
		if r.Intn(4) == 0 {
			n.ref = []byte("r")
		}
		switch cm.InlineKind(n.kind) {
		case cm.CharacterReferenceKind:
			n.start, n.stop = 2, 7 // "&amp;"
		case cm.AutolinkKind:
			n.kids = []*wnode{{kind: int(cm.TextKind), start: n.start, stop: n.stop}}
			return n
		}
	}
	if depth == 0 {
		if block && cm.BlockKind(n.kind) == cm.LinkReferenceDefinitionKind {
			n.kind = int(cm.ParagraphKind)
		}
		return n
	}
	kidsBlock := block && r.Bool()
	if block && cm.BlockKind(n.kind) == cm.LinkReferenceDefinitionKind {
		n.kids = []*wnode{{kind: int(cm.LinkLabelKind), ref: []byte("r")}, {kind: int(cm.LinkDestinationKind)}}
		return n
	}
	for i, k := 0, r.Intn(4); i < k; i++ {
		n.kids = append(n.kids, synthRenderTree(r, depth-1, kidsBlock, srcLen))
	}
	return n
}

func init() { props["C07"] = runC07 }

func hasRawNode(n cm.Node) bool {
	if b := n.Block(); b != nil && b.Kind() == cm.HTMLBlockKind {
		return true
	}
	if in := n.Inline(); in != nil && (in.Kind() == cm.RawHTMLKind || in.Kind() == cm.HTMLTagKind) {
		return true
	}
	for i, c := 0, n.ChildCount(); i < c; i++ {
		if hasRawNode(n.Child(i)) {
			return true
		}
	}
	return false
}

// c07Outputs renders doc in every safe configuration and returns the outputs to be checked.
func c07Outputs(doc []byte) (outs [][]byte, cfgs []renderCfg) {
	res := parseMem(doc)
	if res.err != "" {
		return
	}
	raw := false
	for _, r := range res.roots {
		if hasRawNode(r.AsNode()) {
			raw = true
		}
	}
	for _, s := range []cm.SoftBreakBehavior{cm.SoftBreakPreserve, cm.SoftBreakSpace, cm.SoftBreakHarden} {
		for _, ig := range []bool{true, false} {
			if !ig && raw {
				continue
			}
			cfg := renderCfg{soft: s, ignoreRaw: ig}
			rd := &cm.HTMLRenderer{ReferenceMap: res.refs, SoftBreakBehavior: s, IgnoreRaw: ig}
			for _, r := range res.roots {
				if out, perr := appendBlockSafe(rd, r); perr == "" {
					outs = append(outs, out)
					cfgs = append(cfgs, cfg)
				}
			}
		}
	}
	return
}

func runC07(c *Ctx) {
	c.Res.Rule = "documents: corpus, seeded line/fragment/mutation generators (incl. invalid UTF-8, NUL, CR), a generator of injection attempts (quotes, angle brackets, ampersands and entities inside link destinations, titles, image descriptions, info strings, autolinks, reference definitions, code) and exhaustive strings <= k over {<,>,\",',&,;,#,a,[,],(,),!,`,SP,LF}; each root is rendered with IgnoreRaw=true under the three SoftBreakBehaviors and, when the tree has no raw-HTML node, also with IgnoreRaw=false; FilterTag unset; the output bytes must be accepted by the Lean recogniser Spec.htmlWellFormed (fixed element/attribute vocabulary regenerated from the source, escaped text and values, proper nesting); the contract Spec.safePre of theorem render_wellformed is monitored on every tree; non-trivial = the input contains one of < > \" ' &; distinct by input"
	orc := &OracleBatch{c: c}
	failing := func(x []byte) bool {
		outs, _ := c07Outputs(x)
		for _, o := range outs {
			if c.drv.Ask1("html\t"+hx(o)) != "1" {
				return true
			}
		}
		return false
	}
	one := func(idx int, fam string, doc []byte) {
		c.fam(fam, "cases", 1)
		nt := bytes.ContainsAny(doc, "<>\"'&")
		c.count(string(doc), nt)
		outs, cfgs := c07Outputs(doc)
		for i, o := range outs {
			o, cfg := o, cfgs[i]
			if nt && len(doc) < 50 && i == 0 {
				c.sample(map[string]string{"input": printable(doc), "output": string(o)})
			}
			orc.Add("html\t"+hx(o), "1", func(got string) {
				c.report("output-not-well-formed-escaped-html", doc, fam, fmt.Sprintf("cfg %s output %q", cfg, o), failing, func(m []byte) string {
					outs, cfgs := c07Outputs(m)
					for i, o := range outs {
						if c.drv.Ask1("html\t"+hx(o)) != "1" {
							return fmt.Sprintf("cfg %s output %q", cfgs[i], o)
						}
					}
					return ""
				})
			})
		}
		// the theorem's contract on parser output
		res := parseMem(doc)
		for _, r := range res.roots {
			orc.Add("chk\tsafepre\t"+hx(r.Source)+"\t"+wireRoot(r), "ok", func(got string) {
				c.report("render-precondition-violated-by-parser-output", doc, fam, got, func(x []byte) bool {
					rr := parseMem(x)
					for _, r := range rr.roots {
						if c.drv.Ask1("chk\tsafepre\t"+hx(r.Source)+"\t"+wireRoot(r)) != "ok" {
							return true
						}
					}
					return false
				}, nil)
			})
		}
	}
	if replayMode {
		one(0, "replay", replayInput)
		orc.Flush()
		return
	}
	docStream(c.Seed, "c07", c.N(20000, 500000), true, func(idx int, kind string, doc []byte) bool {
		one(idx, kind, doc)
		return true
	})
	inj := []string{"\"", "'", "<", ">", "&", "&quot;", "&#34;", "&lt;", "&amp;", "&#x22;", "&#39;", " onerror=\"alert(1)", "\"><script>", "'><b", "</p>", "<!--", "-->", "]]>", "javascript:alert(1)", "\\\"", "\\<", "&#0;", "&NotAnEntity;", "&amp", "&#;", "\x00", "\xff", "é"}
	shells := []string{"![%s](x)", "![a](%s)", "![a](x \"%s\")", "![a](x '%s')", "[a](%s)", "[a](<%s>)", "[a](x \"%s\")", "[a](x (%s))", "<%s>", "<http://%s>", "<a@b.c%s>", "```%s\nx\n```", "~~~ a%s b\nx\n~~~", "`%s`", "*%s*", "[r]\n\n[r]: %s\n", "[r]\n\n[r]: /u \"%s\"\n", "[r]: /u '%s'\n\n![r]", "# %s", "    %s", "> %s", "- %s", "%s", "![*%s*](x)", "![`%s`](x)", "![[%s](y)](x)", "![a\n%s](x)", "[%s]: /u\n\n[%s]"}
	n := c.N(20000, 400000)
	for i := 0; i < n; i++ {
		rng := newRng(c.Seed, "c07-inj", i)
		payload := ""
		for k := 1 + rng.Intn(3); k > 0; k-- {
			payload += rng.Pick(inj)
			if rng.Bool() {
				payload += rng.Pick([]string{"a", " ", "x=y"})
			}
		}
		sh := rng.Pick(shells)
		doc := strings.ReplaceAll(sh, "%s", payload)
		if rng.Intn(4) == 0 {
			doc = strings.ReplaceAll(rng.Pick(shells), "%s", doc)
		}
		one(i, "injection", []byte(doc))
	}
	alpha := []string{"<", ">", "\"", "'", "&", ";", "#", "a", "[", "]", "(", ")", "!", "`", " ", "\n"}
	max := 4
	if !c.quick() {
		max = 5
	}
	enumStrings(alpha, max, func(s []byte) bool {
		one(0, "exhaustive", s)
		return true
	})
	c.fam("exhaustive", "maxlen", max)
	orc.Flush()
}
