//go:build verif

package main

// inputClasses are the decidable input classes that known_findings.jsonl may refer to.
// A class must be narrow: it describes the inputs reaching one root cause, never a property.
var inputClasses = map[string]func(input []byte) bool{
	"atx-backslash-before-trailing-space": atxBackslashBeforeTrailingSpace,
}

// atxBackslashBeforeTrailingSpace: the line starts with '#', and some space/tab that is preceded by an odd
// number of backslashes is followed only by spaces, tabs, '#' and the line ending — the only situation in
// which parseATXHeading's isEndEscaped tests fire.
func atxBackslashBeforeTrailingSpace(line []byte) bool {
	if len(line) == 0 || line[0] != '#' {
		return false
	}
	for i := len(line) - 1; i >= 1; i-- {
		switch line[i] {
		case ' ', '\t':
			n := 0
			for j := i - 1; j >= 0 && line[j] == '\\'; j-- {
				n++
			}
			if n%2 == 1 {
				return true
			}
		case '#', '\n', '\r':
		default:
			return false
		}
	}
	return false
}
