//go:build verif

package main

import (
	"bytes"
	"strings"

	cm "zombiezen.com/go/commonmark"
)

// inputClasses are the decidable input classes that known_findings.jsonl may refer to.
// A class must be narrow: it describes the inputs reaching one root cause, never a property.
var inputClasses = map[string]func(input []byte) bool{
	"atx-backslash-before-trailing-space":      atxBackslashBeforeTrailingSpace,
	"setext-heading-root-after-definition":     setextRootAfterDefinition,
	"root-block-above-streaming-limit":         rootAboveStreamingLimit,
	"definition-on-indented-continuation-line": definitionOnIndentedContinuationLine,
	"label-at-999-limit-across-lines":          labelAtLimitAcrossLines,
	"multi-line-inline-in-container":           multiLineInlineInContainer,
}

// multiLineInlineInContainer: some inline node that Format copies verbatim from the source (everything but links, text
// and the parts of links: emphasis, strong, code spans, images, raw HTML tags, autolinks) spans a line ending while its
// paragraph sits inside a block quote or list item - so that the copied bytes include the container's prefix.
func multiLineInlineInContainer(doc []byte) bool {
	res := parseMem(doc)
	found := false
	for _, r := range res.roots {
		src := r.Source
		var walk func(n cm.Node, inContainer bool)
		walk = func(n cm.Node, inContainer bool) {
			if found {
				return
			}
			if b := n.Block(); b != nil {
				if b.Kind() == cm.BlockQuoteKind || b.Kind() == cm.ListItemKind {
					inContainer = true
				}
			} else if in := n.Inline(); in != nil && inContainer {
				switch in.Kind() {
				case cm.EmphasisKind, cm.StrongKind, cm.CodeSpanKind, cm.ImageKind, cm.HTMLTagKind, cm.AutolinkKind:
					sp := in.Span()
					if sp.IsValid() && sp.End <= len(src) && bytes.ContainsAny(src[sp.Start:sp.End], "\r\n") {
						found = true
						return
					}
				}
			}
			for i, k := 0, n.ChildCount(); i < k; i++ {
				walk(n.Child(i), inContainer)
			}
		}
		walk(r.AsNode(), false)
	}
	return found
}

// labelAtLimitAcrossLines: the document has a bracketed run `[...]` without inner brackets that spans n >= 1 line
// endings and whose length is within n (CRLF) of the 999-character limit for link labels: with one-byte line endings it
// is at most 999 long, with two-byte line endings it is longer.
func labelAtLimitAcrossLines(doc []byte) bool {
	for i := 0; i < len(doc); i++ {
		if doc[i] != '[' {
			continue
		}
		n := 0
		for j := i + 1; j < len(doc) && j-i-1 <= 1100; j++ {
			c := doc[j]
			if c == '\\' {
				j++
				continue
			}
			if c == '[' {
				break
			}
			if c == '\n' {
				n++
			}
			if c == ']' {
				l := j - i - 1
				if n >= 1 && l <= 999+n && l+n > 999-n {
					return true
				}
				break
			}
		}
	}
	return false
}

// rootAboveStreamingLimit: the streaming parser keeps the root block under construction, plus the line it is reading,
// in one buffer of at most maxBlockSize = 1 MiB (NUL bytes padded to three). readline gives up exactly when that buffer
// has reached maxBlockSize-2 bytes without containing the end of the current line. So "block too large" is the
// documented outcome exactly when, for some root block r of the in-memory parse, the padded distance from r's first
// byte to the end of some line that belongs to r or directly follows it exceeds maxBlockSize-2 (the line ending itself
// must fit; a CR needs one byte of look-ahead). The class is that condition with a slack of 8 bytes below the bound:
// a limit that moved by more than that is a violation, not this finding.
func rootAboveStreamingLimit(doc []byte) bool {
	const maxBlockSize = 1 << 20
	if len(doc)+2*bytes.Count(doc, []byte{0}) < maxBlockSize-2-8 {
		return false
	}
	res := parseMem(doc)
	for _, r := range res.roots {
		start, end := int(r.StartOffset), int(r.EndOffset)
		// the line that follows the block (it is read before the block can be closed), if any
		for end < len(doc) {
			c := doc[end]
			end++
			if c == '\n' {
				break
			}
			if c == '\r' {
				if end < len(doc) && doc[end] == '\n' {
					end++
				}
				break
			}
		}
		if end > len(doc) {
			end = len(doc)
		}
		seg := doc[start:end]
		if len(seg)+2*bytes.Count(seg, []byte{0}) > maxBlockSize-2-8 {
			return true
		}
	}
	return false
}

// setextRootAfterDefinition: some root is a setext heading that starts exactly where a preceding
// reference-definition root ends (the remainder of a paragraph split by onCloseParagraph).
func setextRootAfterDefinition(doc []byte) bool {
	res := parseMem(doc)
	for i := 1; i < len(res.roots); i++ {
		if res.roots[i].Kind() == cm.SetextHeadingKind && res.roots[i-1].Kind() == cm.LinkReferenceDefinitionKind && res.roots[i-1].EndOffset == res.roots[i].StartOffset {
			return true
		}
	}
	return false
}

// atxBackslashBeforeTrailingSpace: the line starts with '#', and some space/tab that is preceded by an odd
// number of backslashes is followed only by spaces, tabs, '#' and the line ending — the only situation in
// which parseATXHeading's isEndEscaped tests fire.
func atxBackslashBeforeTrailingSpace(line []byte) bool {
	if len(line) == 0 || line[0] != '#' {
		return false
	}
	for i := len(line) - 1; i >= 1; i-- {
		switch line[i] {
		case ' ', '\t':
			n := 0
			for j := i - 1; j >= 0 && line[j] == '\\'; j-- {
				n++
			}
			if n%2 == 1 {
				return true
			}
		case '#', '\n', '\r':
		default:
			return false
		}
	}
	return false
}

// definitionOnIndentedContinuationLine: some line that starts with spaces or tabs followed by '[' directly follows a
// line containing "]:" (a link reference definition, of which this line would be the next one in the same paragraph).
func definitionOnIndentedContinuationLine(doc []byte) bool {
	lines := strings.FieldsFunc(strings.ReplaceAll(string(doc), "\r\n", "\n"), func(r rune) bool { return r == '\n' || r == '\r' })
	_ = lines
	// FieldsFunc drops empty lines, which would join lines across a blank line: split by hand instead
	var ls []string
	cur := ""
	text := strings.ReplaceAll(string(doc), "\r\n", "\n")
	for _, ch := range text {
		if ch == '\n' || ch == '\r' {
			ls = append(ls, cur)
			cur = ""
			continue
		}
		cur += string(ch)
	}
	ls = append(ls, cur)
	for i := 1; i < len(ls); i++ {
		t := strings.TrimLeft(ls[i], " \t")
		if len(t) < len(ls[i]) && strings.HasPrefix(t, "[") && strings.Contains(ls[i-1], "]:") {
			return true
		}
	}
	return false
}
