//go:build verif

package main

import (
	"fmt"
	"html"
	"io"
	"regexp"
	"strconv"
	"strings"

	"golang.org/x/text/cases"
	cm "zombiezen.com/go/commonmark"
)

// Block-phase correspondence: the real BlockParser (NextBlock until it reports an error, no inline rewriting)
// against the Lean model of the stream machine instantiated with the Lean block-phase line parser
// (lean/CM/Model/Stream.lean, Blocks.lean): offsets, line numbers, Source and the whole block-phase tree of
// every root (internals included: heading level, fence character/length, list delimiter, indent, looseness),
// the error, and what further calls return.

type codedErr struct{ code int }

func (e codedErr) Error() string { return "injected reader failure " + strconv.Itoa(e.code) }

var entityRE = regexp.MustCompile(`&[A-Za-z0-9]+;`)

// blocksExt: html.UnescapeString over every candidate entity of the (U+FFFD-filled) input.
func blocksExt(doc []byte) string {
	filled := strings.ReplaceAll(string(doc), "\x00", "�")
	seen := map[string]bool{}
	var parts []string
	for _, m := range entityRE.FindAllString(filled, -1) {
		// every suffix of the match that starts with '&' is a candidate too (the scan restarts there)
		for i := 0; i < len(m); i++ {
			if m[i] != '&' {
				continue
			}
			s := m[i:]
			if !seen[s] {
				seen[s] = true
				parts = append(parts, hx([]byte(s))+":"+hx([]byte(html.UnescapeString(s))))
			}
		}
	}
	if len(parts) == 0 {
		return "-"
	}
	return strings.Join(parts, ";")
}

func blocksFold(doc []byte) string {
	filled := strings.ReplaceAll(string(doc), "\x00", "�")
	seen := map[rune]bool{}
	var parts []string
	for _, r := range filled {
		if seen[r] {
			continue
		}
		seen[r] = true
		f := cases.Fold().String(string(r))
		if f != string(r) {
			parts = append(parts, fmt.Sprintf("%d:%s", r, hx([]byte(f))))
		}
	}
	if len(parts) == 0 {
		return "-"
	}
	return strings.Join(parts, ";")
}

func schedWire(s []int) string {
	if len(s) == 0 {
		return "-"
	}
	p := make([]string, len(s))
	for i, k := range s {
		p[i] = strconv.Itoa(k)
	}
	return strings.Join(p, ",")
}

func perrWire(err error) string {
	if err == io.EOF {
		return "eof"
	}
	if ce, ok := err.(codedErr); ok {
		return "reader:" + strconv.Itoa(ce.code)
	}
	msg := err.Error()
	if strings.HasSuffix(msg, "block too large") && strings.HasPrefix(msg, "line ") {
		return "toolarge:" + strings.TrimSuffix(strings.TrimPrefix(msg, "line "), ": block too large")
	}
	return "error:" + msg
}

// blockPhaseImpl drains the real BlockParser.
func blockPhaseImpl(doc []byte, s sched, failAt int, code int, extra int) (out string, panicked bool) {
	var sb strings.Builder
	p := safely(func() {
		rd := &schedReader{data: append([]byte(nil), doc...), sched: append([]int(nil), s.chunks...), eofWith: s.eofWith, failAt: -1}
		if failAt >= 0 && failAt <= len(doc) {
			rd.failAt, rd.failErr = failAt, codedErr{code}
		}
		bp := cm.NewBlockParser(rd)
		for {
			b, err := bp.NextBlock()
			if err != nil {
				sb.WriteString("err=" + perrWire(err))
				var late []string
				for i := 0; i < extra; i++ {
					b2, err2 := bp.NextBlock()
					switch {
					case b2 != nil:
						late = append(late, "block-after-error")
					case err2 == nil:
						late = append(late, "nil-error")
					default:
						late = append(late, perrWire(err2))
					}
				}
				if len(late) > 0 {
					sb.WriteString(" late=" + strings.Join(late, ","))
				}
				return
			}
			fmt.Fprintf(&sb, "%d,%d,%d,%s,%s | ", b.StartOffset, b.EndOffset, b.StartLine, hx(b.Source), wireRoot(b))
		}
	})
	if p != "" {
		return sb.String() + "err=panic:" + p, true
	}
	return sb.String(), false
}

// blocksOpLine is the driver line for the same run.
func blocksOpLine(doc []byte, s sched, failAt int, code int, extra int) string {
	data, fin := doc, "eof"
	if failAt >= 0 && failAt <= len(doc) {
		data, fin = doc[:failAt], strconv.Itoa(code)
	}
	return strings.Join([]string{"blocks", "stream", "1", hx(data), schedWire(s.chunks), b01(s.eofWith), fin, blocksExt(doc), blocksFold(doc), strconv.Itoa(extra)}, "\t")
}

// blocksCorr adds the block-phase correspondence of one document under one schedule to the batch.
func blocksCorr(c *Ctx, corr *Batch, doc []byte, s sched, failAt int, code int) {
	if len(doc) > 60000 {
		return
	}
	impl, panicked := blockPhaseImpl(doc, s, failAt, code, 2)
	if panicked {
		return // totality is C04's business; the model's panic sites are compared there
	}
	corr.Add(blocksOpLine(doc, s, failAt, code, 2), impl)
}

// memMetaCorr compares the in-memory construction (Parse) with the model on offsets, lines and sources.
func memMetaCorr(c *Ctx, corr *Batch, doc []byte) {
	if len(doc) > 60000 {
		return
	}
	res := parseMem(doc)
	if res.err != "" {
		return
	}
	var sb strings.Builder
	for _, b := range res.roots {
		fmt.Fprintf(&sb, "%d,%d,%d,%s, | ", b.StartOffset, b.EndOffset, b.StartLine, hx(b.Source))
	}
	sb.WriteString("err=eof")
	corr.Add(strings.Join([]string{"blocks", "mem", "0", hx(doc), "-", "0", "eof", blocksExt(doc), blocksFold(doc), "0"}, "\t"), sb.String())
}

func init() {
	props["XBLK"] = runXBLK
}

// runXBLK: development entry point — the block-phase correspondence alone over the document stream.
func runXBLK(c *Ctx) {
	corr := &Batch{c: c}
	one := func(idx int, doc []byte) {
		scheds := schedulesFor(c, doc, idx)
		blocksCorr(c, corr, doc, scheds[0], -1, 0)
		if idx%3 == 0 {
			blocksCorr(c, corr, doc, scheds[idx%len(scheds)], -1, 0)
		}
		if idx%5 == 0 && len(doc) > 0 {
			blocksCorr(c, corr, doc, scheds[(idx/5)%len(scheds)], idx%(len(doc)+1), 7)
		}
		memMetaCorr(c, corr, doc)
	}
	if replayMode {
		one(0, replayInput)
		corr.Flush()
		return
	}
	docStream(c.Seed, "xblk", c.N(20000, 400000), true, func(idx int, kind string, doc []byte) bool {
		c.fam(kind, "cases", 1)
		one(idx, doc)
		return true
	})
	corr.Flush()
}
