//go:build verif

package main

import (
	"bytes"
	"fmt"
	"strings"

	cm "zombiezen.com/go/commonmark"
)

func init() {
	props["C01"] = runC01
	props["C02"] = func(c *Ctx) { runTreeProp(c, "spans") }
	props["C03"] = func(c *Ctx) { runTreeProp(c, "coverage") }
	props["C05"] = func(c *Ctx) { runTreeProp(c, "grammar") }
	props["C13"] = func(c *Ctx) { runTreeProp(c, "shapes") }
}

var treeRules = map[string]string{
	"spans":    "documents: corpus (652 spec examples, fuzz seeds, /verif/corpus) first, then seeded line-structured, fragment, mutation and mixed generators incl. tabs, CR/CRLF, NUL, invalid UTF-8; every root of Parse (and of the streaming path for every 4th document) is checked by the Lean function Spec.spansOK; non-trivial = a root with an inline container or nested block (>= 4 nodes); distinct by input bytes",
	"coverage": "same document stream; every root is checked by Spec.coverage (each byte covered by at most one leaf; letters, digits and non-ASCII bytes by exactly one); non-trivial = the document contains a letter/digit/non-ASCII byte and an inline construct or container (>= 4 nodes); distinct by input bytes",
	"grammar":  "same document stream, in-memory and streaming+Extract+Rewrite; every root is checked by Spec.grammar (child kinds per node kind, link-in-link, accessor agreement); non-trivial = a root with >= 4 nodes; distinct by input bytes",
	"shapes":   "same document stream; every node's source slice is checked against its construct's shape by Spec.shapes; non-trivial = the tree has a node of a shaped kind (emphasis, strong, code span, link, image, autolink, HTML tag, character reference, hard break, list marker, ATX/setext heading, fenced code, block quote); distinct by input bytes",
}

func countNodes(n cm.Node) int {
	k := 1
	for i, c := 0, n.ChildCount(); i < c; i++ {
		k += countNodes(n.Child(i))
	}
	return k
}

func hasShapedKind(n cm.Node) bool {
	if b := n.Block(); b != nil {
		switch b.Kind() {
		case cm.ATXHeadingKind, cm.SetextHeadingKind, cm.FencedCodeBlockKind, cm.BlockQuoteKind, cm.ListMarkerKind:
			return true
		}
	}
	if in := n.Inline(); in != nil {
		switch in.Kind() {
		case cm.EmphasisKind, cm.StrongKind, cm.CodeSpanKind, cm.LinkKind, cm.ImageKind, cm.AutolinkKind, cm.HTMLTagKind, cm.CharacterReferenceKind, cm.HardLineBreakKind:
			return true
		}
	}
	for i, c := 0, n.ChildCount(); i < c; i++ {
		if hasShapedKind(n.Child(i)) {
			return true
		}
	}
	return false
}

// treeCheckDoc returns the first failing root's diagnosis ("" if all roots pass), asking the driver synchronously.
func treeCheckDoc(c *Ctx, which string, doc []byte, stream bool) string {
	var res parseResult
	if stream {
		res, _ = parseStream(bytes.NewReader(doc), 0)
	} else {
		res = parseMem(doc)
	}
	if strings.HasPrefix(res.err, "panic") {
		return ""
	}
	for _, r := range res.roots {
		if a := c.drv.Ask1("chk\t" + which + "\t" + hx(r.Source) + "\t" + wireRoot(r)); a != "ok" {
			return a
		}
	}
	return ""
}

func runTreeProp(c *Ctx, which string) {
	c.Res.Rule = treeRules[which]
	orc := &OracleBatch{c: c}
	what := map[string]string{"spans": "span-invariant", "coverage": "coverage", "grammar": "node-grammar", "shapes": "span-shape"}[which]
	corr := &Batch{c: c}
	defer corr.Flush()

	one := func(idx int, fam string, doc []byte) {
		stream := idx%4 == 3
		var res parseResult
		if stream {
			res, _ = parseStream(bytes.NewReader(doc), 0)
		} else {
			res = parseMem(doc)
		}
		c.fam(fam, "cases", 1)
		if strings.HasPrefix(res.err, "panic") {
			c.fam(fam, "panics", 1)
			c.Res.Evals++
			return
		}
		nodes := 0
		shaped := false
		for _, r := range res.roots {
			nodes += countNodes(r.AsNode())
			if which == "shapes" && hasShapedKind(r.AsNode()) {
				shaped = true
			}
		}
		nontrivial := nodes >= 4
		switch which {
		case "coverage":
			nontrivial = nontrivial && bytes.IndexFunc(doc, func(r rune) bool {
				return r >= 0x80 || r >= '0' && r <= '9' || r >= 'a' && r <= 'z' || r >= 'A' && r <= 'Z'
			}) >= 0
		case "shapes":
			nontrivial = shaped
		}
		c.count(string(doc), nontrivial)
		if nontrivial {
			c.fam(fam, "nontrivial", 1)
			if len(doc) < 60 && len(doc) > 8 {
				c.sample(map[string]interface{}{"input": printable(doc), "roots": len(res.roots), "nodes": nodes, "streaming": stream})
			}
		}
		if which == "grammar" {
			// the public accessors against the Lean model's reading of the same tree (HeadingLevel, IsOrderedList,
			// IsTightList, ListItemNumber of every block, in document order)
			for _, r := range res.roots {
				var parts []string
				cm.Walk(r.AsNode(), &cm.WalkOptions{Pre: func(cur *cm.Cursor) bool {
					if b := cur.Node().Block(); b != nil {
						parts = append(parts, fmt.Sprintf("%d:%d:%s:%s:%d", int(b.Kind()), b.HeadingLevel(), b01(b.IsOrderedList()), b01(b.IsTightList()), b.ListItemNumber(r.Source)))
					}
					return true
				}})
				corr.Add("acc\t"+hx(r.Source)+"\t"+wireRoot(r), strings.Join(parts, " "))
			}
		}
		if !stream && len(doc) <= 4000 && (fam != "exhaustive" && idx%3 == 0 || fam == "exhaustive" && (!c.quick() || (idx/4)%4 == 0)) {
			// the tree the oracle examines is the tree the Lean model of Parse computes (block phase, Extract, Rewrite)
			parseCorr(c, corr, doc)
		}
		if which == "spans" && len(doc) <= 1500 && idx%2 == 0 {
			// the hypothesis of the block-half theorem drain_spans (C02): the RefDefSpansOK check never fails along the run
			orc.Add("spanshyp\t"+hx(doc)+"\t"+blocksExt(doc)+"\t"+blocksFold(doc), "ok", func(got string) {
				c.report("block-span-theorem-hypothesis-RefDefSpansOK-fails", doc, fam, got, func(x []byte) bool {
					return c.drv.Ask1("spanshyp\t"+hx(x)+"\t"+blocksExt(x)+"\t"+blocksFold(x)) != "ok"
				}, nil)
			})
		}
		if which == "spans" && len(doc) <= 1500 && idx%2 == 1 {
			// the two tail facts under which blockphase_contOK2 (C02/C04 inline halves) derives the scanner facts for the
			// containers of the block-phase trees: TailNP for every container, TailSafe for ATX headings
			orc.Add("tailhyp\t"+hx(doc)+"\t"+blocksExt(doc)+"\t"+blocksFold(doc), "ok", func(got string) {
				c.report("inline-span-theorem-hypothesis-tail-fact-fails", doc, fam, got, func(x []byte) bool {
					return c.drv.Ask1("tailhyp\t"+hx(x)+"\t"+blocksExt(x)+"\t"+blocksFold(x)) != "ok"
				}, nil)
			})
		}
		if which == "coverage" && len(doc) <= 1500 && idx%2 == 0 {
			// the hypothesis of the block-half theorem drain_coverage (C03): the RefDefCoverOK check never fails along the run
			orc.Add("coverhyp\t"+hx(doc)+"\t"+blocksExt(doc)+"\t"+blocksFold(doc), "ok", func(got string) {
				c.report("block-coverage-theorem-hypothesis-RefDefCoverOK-fails", doc, fam, got, func(x []byte) bool {
					return c.drv.Ask1("coverhyp\t"+hx(x)+"\t"+blocksExt(x)+"\t"+blocksFold(x)) != "ok"
				}, nil)
			})
		}
		for _, r := range res.roots {
			r := r
			orc.Add("chk\t"+which+"\t"+hx(r.Source)+"\t"+wireRoot(r), "ok", func(got string) {
				c.report(what+":"+stripDigits(got), doc, fam, got, func(x []byte) bool {
					return stripDigits(treeCheckDoc(c, which, x, stream)) == stripDigits(got)
				}, func(m []byte) string {
					return treeCheckDoc(c, which, m, stream) + describeParse(m)
				})
			})
		}
	}

	if replayMode {
		one(0, "replay", replayInput)
		one(3, "replay", replayInput)
		orc.Flush()
		return
	}
	docStream(c.Seed, "tree-"+which, c.N(60000, 1500000), true, func(idx int, kind string, doc []byte) bool {
		one(idx, kind, doc)
		return true
	})
	// containers nested 15..300 deep (a bound on nesting or on traversal depth would show here), in memory and streamed
	for i, d := range deepNestDocs() {
		one(i*2, "deep-nesting", d)
	}
	// exhaustive small scope over the characters the span bookkeeping distinguishes
	alpha := []string{"a", "*", "_", "[", "]", "(", ")", "`", "<", ">", "\\", "\n", " ", "#", "-", "&", ";", "!", "é"}
	max := 4
	if !c.quick() {
		max = 5
	}
	i := 0
	enumStrings(alpha, max, func(s []byte) bool {
		one(i*4, "exhaustive", s) // in-memory path
		i++
		return true
	})
	c.fam("exhaustive", "maxlen", max)
	orc.Flush()
}

// stripDigits removes digits so that diagnoses differing only in positions are the same kind.
func stripDigits(s string) string {
	var sb strings.Builder
	for _, r := range s {
		if r < '0' || r > '9' {
			sb.WriteRune(r)
		}
	}
	return sb.String()
}

func describeParse(doc []byte) string {
	res := parseMem(doc)
	var sb strings.Builder
	for _, r := range res.roots {
		sb.WriteString(" | ")
		sb.WriteString(wireRoot(r))
	}
	s := sb.String()
	if len(s) > 600 {
		s = s[:600] + "…"
	}
	return s
}

// ---- C01 ----

func runC01(c *Ctx) {
	c.Res.Rule = "documents as for C02 (corpus first, then seeded generators incl. NUL, CR/CRLF, tabs, invalid UTF-8) plus all strings <= k over {a,#,-,SP,TAB,LF,CR,NUL,>}; both entry points (Parse; NewBlockParser with whole-input, 1-byte and random-chunk readers); the roots' offsets, lines and sources are checked by the Lean function Spec.tiling; aliasing (&Source[0]==&input[start]) and non-mutation are checked in-process; non-trivial = at least two root blocks, or a NUL, or a CR; distinct by input bytes"
	orc := &OracleBatch{c: c}

	check := func(doc []byte, fam string, mode int) string {
		// mode 0: Parse; 1: stream whole; 2: stream 1-byte; 3: stream random chunks
		var res parseResult
		buf := append([]byte(nil), doc...)
		switch mode {
		case 0:
			// the caller's slice sits in a larger backing array (spare capacity filled with a sentinel):
			// neither the visible bytes nor the spare ones may be written, with or without NUL in the input
			backing := make([]byte, len(doc)+3*bytes.Count(doc, []byte{0})+9)
			for i := range backing {
				backing[i] = 0xA5
			}
			copy(backing, doc)
			snapshot := append([]byte(nil), backing...)
			buf = backing[:len(doc)]
			if p := safely(func() { res.roots, res.refs = cm.Parse(buf) }); p != "" {
				return ""
			}
			if !bytes.Equal(backing, snapshot) {
				return "caller-buffer-modified"
			}
			if bytes.IndexByte(doc, 0) < 0 {
				for _, r := range res.roots {
					if len(r.Source) > 0 && (int(r.StartOffset) >= len(buf) || &r.Source[0] != &buf[r.StartOffset]) {
						return "source-not-a-subslice-of-the-callers-buffer"
					}
				}
			}
		case 1:
			res, _ = parseStream(bytes.NewReader(buf), 0)
		case 2:
			sched := make([]int, len(doc)+2)
			for i := range sched {
				sched[i] = 1
			}
			res, _ = parseStream(&schedReader{data: buf, sched: sched, failAt: -1}, 0)
		default:
			rng := newRng(c.Seed, "c01-sched", len(doc))
			var sched []int
			for i := 0; i < len(doc)+1; i++ {
				sched = append(sched, rng.Intn(5))
			}
			res, _ = parseStream(&schedReader{data: buf, sched: sched, failAt: -1, eofWith: rng.Bool()}, 0)
		}
		if strings.HasPrefix(res.err, "panic") {
			return ""
		}
		return "ASK:" + rootsWire(res.roots)
	}
	modeName := []string{"Parse", "stream-whole", "stream-1-byte", "stream-random-chunks"}
	failingMode := func(x []byte, mode int, want string) bool {
		r := check(x, "", mode)
		if strings.HasPrefix(r, "ASK:") {
			r = c.drv.Ask1("tiling\t" + hx(x) + "\t" + r[4:])
			if r == "ok" {
				r = ""
			}
		}
		return r == want
	}
	corr := &Batch{c: c}
	defer corr.Flush()
	one := func(idx int, fam string, doc []byte) {
		c.fam(fam, "cases", 1)
		if len(doc) <= 20000 {
			// model of Parse's construction (offsets, lines, sources) and of the streaming machine (whole-input reader)
			memMetaCorr(c, corr, doc)
			if len(doc) <= 1500 {
				blocksCorr(c, corr, doc, sched{"whole", nil, false}, -1, 0)
				// the hypothesis of the tiling theorem C01_tiling_mem: the block-phase line parser (the Lean model of it,
				// which the correspondence above ties to the code) meets LPContract at every step of this run
				orc.Add("lpcontract\t"+hx(doc)+"\t"+blocksExt(doc)+"\t"+blocksFold(doc), "ok", func(got string) {
					c.report("tiling-theorem-hypothesis-LPContract-fails", doc, fam, got, func(x []byte) bool {
						return c.drv.Ask1("lpcontract\t"+hx(x)+"\t"+blocksExt(x)+"\t"+blocksFold(x)) != "ok"
					}, nil)
				})
			}
		}
		nroots := 0
		for mode := 0; mode < 4; mode++ {
			if mode >= 2 && len(doc) > 2000 {
				continue
			}
			mode := mode
			r := check(doc, fam, mode)
			if r == "" {
				continue
			}
			if strings.HasPrefix(r, "ASK:") {
				if mode == 0 {
					nroots = strings.Count(r, ";") + 1
					if r == "ASK:-" {
						nroots = 0
					}
				}
				orc.Add("tiling\t"+hx(doc)+"\t"+r[4:], "ok", func(got string) {
					c.report("tiling:"+got+":"+modeName[mode], doc, fam, got+" via "+modeName[mode], func(x []byte) bool { return failingMode(x, mode, got) }, nil)
				})
			} else {
				c.report("tiling:"+r, doc, fam, r+" via "+modeName[mode], func(x []byte) bool { return failingMode(x, mode, r) }, nil)
			}
		}
		nt := nroots >= 2 || bytes.IndexByte(doc, 0) >= 0 || bytes.IndexByte(doc, '\r') >= 0
		c.count(string(doc), nt)
		if nt {
			c.fam(fam, "nontrivial", 1)
			if len(doc) < 40 && len(doc) > 6 {
				c.sample(map[string]interface{}{"input": printable(doc), "roots": nroots})
			}
		}
	}
	if replayMode {
		one(0, "replay", replayInput)
		orc.Flush()
		return
	}
	docStream(c.Seed, "c01", c.N(30000, 600000), true, func(idx int, kind string, doc []byte) bool {
		one(idx, kind, doc)
		return true
	})
	alpha := []string{"a", "#", "-", " ", "\t", "\n", "\r", "\x00", ">"}
	max := 5
	if !c.quick() {
		max = 6
	}
	enumStrings(alpha, max, func(s []byte) bool {
		one(0, "exhaustive", s)
		return true
	})
	c.fam("exhaustive", "maxlen", max)
	// long inputs that cross the 8 KiB chunk boundary
	for i := 0; i < c.N(30, 300); i++ {
		rng := newRng(c.Seed, "c01-long", i)
		var sb bytes.Buffer
		for sb.Len() < 8000+rng.Intn(12000) {
			sb.Write(genLines(rng, true, 6))
			if rng.Intn(3) == 0 {
				sb.WriteString("\n\n")
			}
			if rng.Intn(20) == 0 {
				sb.WriteString(strings.Repeat("x", rng.Intn(3000)))
			}
		}
		one(0, "long", sb.Bytes())
	}
	for _, d := range chunkBoundaryDocs() {
		one(0, "chunk-boundary", d)
	}
	for _, d := range deepNestDocs() {
		one(0, "deep-nesting", d)
	}
	orc.Flush()
	_ = fmt.Sprint
}
