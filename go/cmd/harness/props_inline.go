//go:build verif

package main

import (
	"bytes"
	"html"
	"os"
	"path/filepath"
	"regexp"
	"sort"
	"strconv"
	"strings"
	"time"

	cm "zombiezen.com/go/commonmark"
)

// Inline-phase correspondence: the real BlockParser delivers every root block (block-phase tree serialised
// before rewriting), the real ReferenceMap.Extract collects the definitions of the whole document, the real
// InlineParser.Rewrite rewrites every root; the Lean model of Rewrite (lean/CM/Model/Inlines.lean) is run on
// the same source, block-phase tree, set of defined labels and tables of the external functions, and the two
// rewritten trees are compared node for node (kind, span, indent, ref).

func refKeysWire(m cm.ReferenceMap) string {
	if len(m) == 0 {
		return "-"
	}
	keys := make([]string, 0, len(m))
	for k := range m {
		keys = append(keys, hx([]byte(k)))
	}
	sort.Strings(keys)
	for _, k := range keys {
		if k == "-" {
			// an empty key cannot be written in a comma separated list; Extract never stores one
			return "bad-empty-key"
		}
	}
	return strings.Join(keys, ",")
}

// inlineOpLine is the driver line for one root block.
func inlineOpLine(source []byte, pre string, keys string) string {
	return strings.Join([]string{"inline", hx(source), pre, keys, blocksExt(source), blocksFold(source), uextTable(source)}, "\t")
}

// inlineRoots runs the block phase and returns the roots (not rewritten).
func inlineRoots(doc []byte) (roots []*cm.RootBlock, ok bool) {
	p := safely(func() {
		bp := cm.NewBlockParser(bytes.NewReader(append([]byte(nil), doc...)))
		for {
			b, err := bp.NextBlock()
			if err != nil {
				return
			}
			roots = append(roots, b)
		}
	})
	return roots, p == ""
}

// inlineCorr adds one correspondence per root block of the document; returns the number added.
func inlineCorr(c *Ctx, corr *Batch, doc []byte) int {
	if len(doc) > 60000 {
		return 0
	}
	roots, ok := inlineRoots(doc)
	if !ok {
		return 0 // block-phase totality is C04's business
	}
	pre := make([]string, len(roots))
	refs := cm.ReferenceMap{}
	for i, b := range roots {
		pre[i] = wireRoot(b)
		refs.Extract(b.Source, b.AsNode())
	}
	keys := refKeysWire(refs)
	n := 0
	for i, b := range roots {
		if !strings.Contains(pre[i], "( i 18 ") {
			continue // nothing to rewrite
		}
		op := inlineOpLine(b.Source, pre[i], keys)
		impl := ""
		if p := safely(func() { (&cm.InlineParser{ReferenceMatcher: refs}).Rewrite(b) }); p != "" {
			impl = "panic"
			c.fam("impl-panics", "cases", 1)
			if len(c.Res.Notes) < 10 {
				c.note("implementation panic %q on %q", p, printable(doc))
			}
		} else {
			impl = wireRoot(b)
		}
		if os.Getenv("XINL_DUMP") != "" {
			os.Stdout.WriteString("OP " + op + "\nIMPL " + impl + "\nMODEL " + c.drv.Ask1(op) + "\n")
		}
		inlineFeatures(c, b.Source, pre[i], impl)
		corr.Add(op, impl)
		n++
	}
	return n
}

// inlineFeatures counts which constructs the compared trees contain (coverage bookkeeping only).
var inlineKindNames = map[int]string{2: "softbreak", 3: "hardbreak", 4: "indent", 5: "charref", 7: "emphasis", 8: "strong", 9: "link", 10: "image",
	11: "linkdest", 12: "linktitle", 13: "linklabel", 14: "codespan", 15: "autolink", 16: "htmltag"}

func inlineFeatures(c *Ctx, source []byte, pre, impl string) {
	c.fam("features", "ops", 1)
	if strings.Contains(pre, "( i 4 ") {
		c.fam("features", "pre-has-indent-node", 1)
	}
	if strings.Count(pre, "( i 18 ") > 1 {
		c.fam("features", "pre-multi-line", 1)
	}
	if bytes.Contains(source, []byte("\xef\xbf\xbd")) {
		c.fam("features", "source-has-U+FFFD", 1)
	}
	if bytes.ContainsAny(source, "\r") {
		c.fam("features", "source-has-CR", 1)
	}
	for k, name := range inlineKindNames {
		if strings.Contains(impl, "( i "+strconv.Itoa(k)+" ") {
			c.fam("features", name, 1)
		}
	}
	for _, f := range featurePatterns {
		if f.re.MatchString(impl) {
			c.fam("features", f.name, 1)
		}
	}
}

const leafRE = `\( i [0-9]+ [^()]*\) `

var featurePatterns = []struct {
	name string
	re   *regexp.Regexp
}{
	{"codespan-with-indent-child", regexp.MustCompile(`\( i 14 [^()]*(` + leafRE + `)*\( i 4 `)},
	{"htmltag-multi-piece", regexp.MustCompile(`\( i 16 [^()]*` + leafRE + `\( i `)},
	{"linkdest-multi-piece", regexp.MustCompile(`\( i 11 [^()]*` + leafRE + `\( i `)},
	{"linktitle-multi-piece", regexp.MustCompile(`\( i 12 [^()]*` + leafRE + `\( i `)},
	{"linklabel-multi-piece", regexp.MustCompile(`\( i 13 [^()]*` + leafRE + `\( i `)},
	{"indent-node-in-output-toplevel", regexp.MustCompile(`\( b [0-9]+ [^()]*(` + leafRE + `)*\( i 4 `)},
}

var digitsRE = regexp.MustCompile(`[0-9]+`)

var charRefRE = regexp.MustCompile(`&#?[A-Za-z0-9]+;`)

// parseExt: html.UnescapeString over every candidate character reference (named or numeric) of the
// (U+FFFD-filled) input: the inline phase asks for named candidates only, Extract unescapes numeric ones too.
func parseExt(doc []byte) string {
	filled := strings.ReplaceAll(string(doc), "\x00", "\ufffd")
	seen := map[string]bool{}
	var parts []string
	for _, m := range charRefRE.FindAllString(filled, -1) {
		for i := 0; i < len(m); i++ {
			if m[i] != '&' {
				continue
			}
			if s := m[i:]; !seen[s] {
				seen[s] = true
				parts = append(parts, hx([]byte(s))+":"+hx([]byte(html.UnescapeString(s))))
			}
		}
	}
	if len(parts) == 0 {
		return "-"
	}
	return strings.Join(parts, ";")
}

// parseCorr: the whole of Parse (block phase, Extract, Rewrite of every root) against the model of Parse.
func parseCorr(c *Ctx, corr *Batch, doc []byte) {
	if len(doc) > 20000 {
		return
	}
	res := parseMem(doc)
	if res.err != "" {
		c.fam("impl-panics", "parse", 1)
		return
	}
	filled := []byte(strings.ReplaceAll(string(doc), "\x00", "\ufffd"))
	corr.Add(strings.Join([]string{"parse", hx(doc), parseExt(doc), blocksFold(doc), uextTable(filled)}, "\t"), fullWire(res))
}

// stress documents: inline-heavy pieces, several lines, inside containers whose prefixes leave partly consumed tabs
// (Indent nodes between the Unparsed runs), all line-ending styles, NULs, definitions for the labels used.
var stressPieces = []string{
	"*", "**", "_", "__", "***", "*a", "a*", "_a", "a_", "[", "]", "](", "](/u)", "](/u \"t\")", "](</u\n v>)", "](/u\n'ti\ntle')", "](<u>\"t\")", "](\n/u\n)", "![", "[]", "[a]", "[b]", "[a\nb]", "[ a ]", "[A]", "(", ")",
	"`", "``", "` ", " `", "`\n", "\n`", "`` ` ``", "<b>", "<b\nc='d'>", "<b c=\"d\ne\">", "</b\n>", "<!-- x\ny -->", "<!---->", "<!-->", "<?a\nb?>", "<![CDATA[\n]]>", "<!A\nb>", "<b", "<http://a>", "<a@b.c>", "<a:b\n>",
	"&amp;", "&#x41;", "&#65;", "&bogus;", "&", "\\", "\\\n", "\\\r\n", "\\*", "\\[", "\\]", "\\`", "\\<", "  \n", "   \n", "  \r\n", " \n", "\n", "\n", "\r\n", "\r", "a", "b", "é", "“", "\u00a0", " ", "  ", "\t", "\x00", "!", "'", "\"", "(t)", "'t'",
	"\n\t", "\n \t", "\n  ", "\n    ", "#", "=", "-", ">", "1.", ":", "/u", "]: /u", "\xff", "\xe2\x82",
	"<!--->", "-->", " -->", "<b /\n>", "<b/\n>", "<?a ?\n>", "?>", "</\nb>", "<\nb>", "<!\nA>", "<!-\n- x -->", "<![CDATA[ ]\n]>", "]]>", "<b c\n=\n'd'>", "<b c=d\ne>", "<b c\n>",
}

var stressPrefixes = [][2]string{{"", ""}, {"", ""}, {"> ", "> "}, {">\t", ">\t"}, {"-\t", "\t"}, {"- ", "  "}, {"1.\t", "\t"}, {">\t\t", ">\t\t"}, {"> ", ""}, {"> - ", ">   "}, {"-\t", "  \t"}, {"# ", ""}, {" ", "   "}, {">\t", "> \t"}, {"  - ", "\t"}, {">-\t", ">\t"}}

func genStress(r *Rng) []byte {
	var body strings.Builder
	for n := 1 + r.Intn(14); n > 0; n-- {
		body.WriteString(r.Pick(stressPieces))
	}
	pf := stressPrefixes[r.Intn(len(stressPrefixes))]
	d := prefixLines([]byte(body.String()), pf[0], pf[1])
	if r.Intn(3) > 0 {
		d = append(d, "\n\n[a]: /u\n[b]: /v 't'\n"...)
		if r.Intn(3) == 0 {
			d = append(d, "[a b]: /w\n"...)
		}
	}
	return d
}

// synthCorr: the same correspondence on SYNTHETIC roots — a real block-phase tree and Source, then mutated: raw NUL
// bytes (never seen by Rewrite after NextBlock, which fills them in), other bytes replaced, inline children of the
// containers retyped (kind 0, Text, SoftLineBreak, Indent, Unparsed), dropped, resized (starts stay increasing, spans disjoint), Indent nodes put
// into the gaps between the runs. Go panics are part of the comparison (the model must report a panic too).
func synthCorr(c *Ctx, corr *Batch, r *Rng, doc []byte) int {
	if len(doc) > 20000 {
		return 0
	}
	roots, ok := inlineRoots(doc)
	if !ok {
		return 0
	}
	refs := cm.ReferenceMap{}
	for _, b := range roots {
		refs.Extract(b.Source, b.AsNode())
	}
	keys := refKeysWire(refs)
	n := 0
	for _, b := range roots {
		w0 := wireRoot(b)
		if !strings.Contains(w0, "( i 18 ") {
			continue
		}
		w, err := parseWire(w0)
		if err != nil {
			continue
		}
		src := append([]byte(nil), b.Source...)
		for k := r.Intn(3); k > 0 && len(src) > 0; k-- {
			p := r.Intn(len(src))
			switch r.Intn(3) {
			case 0, 1:
				for q, m := p, 1+r.Intn(4); q < len(src) && q < p+m; q++ {
					src[q] = 0
				}
			default:
				src[p] = synthBytes[r.Intn(len(synthBytes))]
			}
		}
		// Raw NUL bytes reach the reader only in the block phase, where the buffer is PADDED (every NUL run a multiple of
		// three, so the reader's virtual position stays in 0..2); Rewrite never sees one, because NextBlock fills them
		// in. A run of another length makes Go index nullReplacementString[3] and panic - a path no parser output
		// reaches, and one the (pure, total) reader model does not mark. Keep the synthetic runs padded-shaped.
		for i := 0; i < len(src); {
			if src[i] != 0 {
				i++
				continue
			}
			j := i
			for j < len(src) && src[j] == 0 {
				j++
			}
			for k := j - (j-i)%3; k < j; k++ {
				src[k] = 'x'
			}
			i = j
		}
		var holders []*wnode
		var walk func(x *wnode)
		walk = func(x *wnode) {
			if !x.isBlock {
				return
			}
			for _, k := range x.kids {
				if !k.isBlock && k.kind == 18 {
					holders = append(holders, x)
					break
				}
			}
			for _, k := range x.kids {
				walk(k)
			}
		}
		walk(w)
		for k := r.Intn(3); k > 0 && len(holders) > 0; k-- {
			h := holders[r.Intn(len(holders))]
			if len(h.kids) == 0 {
				continue
			}
			i := r.Intn(len(h.kids))
			x := h.kids[i]
			switch r.Intn(7) {
			case 0:
				x.kind = []int{0, 1, 2, 4, 18, 17, 3}[r.Intn(7)]
				if x.kind == 4 {
					x.indent = 1 + r.Intn(3)
				}
			case 1:
				h.kids = append(h.kids[:i:i], h.kids[i+1:]...)
			case 2:
				if x.stop-x.start > 1 {
					if r.Bool() {
						x.start++
					} else {
						x.stop--
					}
				}
			case 3:
				limit := len(src)
				if i+1 < len(h.kids) {
					limit = h.kids[i+1].start
				}
				if x.stop < limit {
					x.stop++
				}
			case 4:
				prevEnd := h.start
				if i > 0 {
					prevEnd = h.kids[i-1].stop
				}
				if prevEnd < x.start {
					in := &wnode{kind: 4, start: prevEnd, stop: x.start, indent: 1 + r.Intn(4)}
					h.kids = append(h.kids[:i:i], append([]*wnode{in}, h.kids[i:]...)...)
				}
			case 5:
				prevEnd := h.start
				if i > 0 {
					prevEnd = h.kids[i-1].stop
				}
				if prevEnd < x.start {
					x.start--
				}
			default:
				if x.stop-x.start > 2 {
					x.stop = x.start + 1 + r.Intn(x.stop-x.start-1)
				}
			}
		}
		if !w.homogeneous() {
			continue
		}
		pre := w.String()
		if !strings.Contains(pre, "( i 18 ") {
			continue
		}
		sanitizeIndents(w, src)
		rb := &cm.RootBlock{Source: src, StartLine: 1, Block: *w.toBlock()}
		op := inlineOpLine(src, pre, keys)
		if os.Getenv("XINL_TRACE") != "" {
			os.WriteFile(filepath.Join(c.OutDir, "last-synth-op.txt"), []byte(op+"\n"), 0o644)
		}
		impl := ""
		p, finished := rewriteGuarded(rb, refs)
		if !finished {
			c.fam("synthetic", "go-does-not-terminate", 1)
			c.note("Rewrite did not return within 10 s on synthetic root: %s", op)
			continue
		}
		if p != "" {
			impl = "panic"
			c.fam("synthetic", "impl-panics", 1)
			c.fam("synthetic-panic-messages", digitsRE.ReplaceAllString(p, "N"), 1)
		} else {
			impl = wireRoot(rb)
		}
		if os.Getenv("XINL_DUMP") != "" {
			os.Stdout.WriteString("OP " + op + "\nIMPL " + impl + "\nMODEL " + c.drv.Ask1(op) + "\n")
		}
		corr.Add(op, impl)
		n++
	}
	return n
}

// truncCorr: hand-made paragraphs of two runs where the first run is cut short at every position, so that the
// closing part of a construct (a parenthesis, a quote, a backtick, a bracket) lies in the Source but outside every
// node: the reader falls back to raw Source bytes after its last node, `nodeIndexForPosition` finds nothing.
func truncCorr(c *Ctx, corr *Batch) int {
	firsts := []string{"[a](/u \"t\") x\n", "[a](/u) x\n", "[a]( /u 't' ) x\n", "[a](/u 't'", "[a](/u ", "[a](<u>", "`a` `b\n", "<b c='d'> e\n", "[a][b] c\n", "[a][] c\n",
		"![a](<u> (t)) x\n", "a  \n", "a\\\n", "**a** *b*\n", "&amp; <http://x.y> \n", "[a][b", "[a]", "<b c=", "<!-- x", "`a",
		"[a](\n", "[a](/u\n", "[a][\n", "[a][x\x00\x00\x00\x00y] [x\x00\x00y] [\x00]\n", "[a](\x00\x00 '\x00')\n", "<b \x00='\x00\x00'>`\x00`\n",
		"[x\x00\n", "<b /\n", "<?a ?\n", "</\n", "<!-\n", "<!--x-\n", "<![CDATA[]\n"}
	seconds := []string{") `c` 'd' [b]: x\n", "'t') y\n", ")", "] `\n", "-->d' > \n", "\"t\") z*\n", "\x00) \x00\x00'\x00\x00\x00\x00]>`\n", "/v\\*w 't&amp;\\'' ) [b\\]\n", "\x00\x00y] z\n", "#> `c`\n", "#-> ]> b> -->\n"}
	n := 0
	for _, l1 := range firsts {
		for _, l2 := range seconds {
			src := []byte(l1 + l2)
			for k := 1; k <= len(l1); k++ {
				for gap := 0; gap <= 5; gap++ {
					if gap < 2 && len(l1)+gap >= len(src) {
						continue
					}
					w := &wnode{isBlock: true, kind: 1, start: 0, stop: len(src), kids: []*wnode{
						{kind: 18, start: 0, stop: k}, {kind: 18, start: len(l1) + gap, stop: len(src)}}}
					switch gap {
					case 2: // the truncated run is the only node
						w.kids = w.kids[:1]
					case 3: // … or is followed by a node the reader skips
						w.kids[1].kind = 3
					case 4: // … or by a Text node (read by the reader, not tokenized, no escapes)
						w.kids[1].kind = 1
					case 5: // … or by an Indent node over the rest
						w.kids[1].kind = 4
						w.kids[1].indent = 2
					}
					pre := w.String()
					src := append([]byte(nil), src...)
					sanitizeIndents(w, src)
					rb := &cm.RootBlock{Source: src, StartLine: 1, Block: *w.toBlock()}
					refs := cm.ReferenceMap{"a": {Destination: "/x"}, "b": {Destination: "/y"}, "x\xef\xbf\xbd\xefy": {}, "x\xef\xbfy": {}, "\xef": {}, "b\\": {}, "x\xef \xbfy": {}, "x\xef \xefy": {}}
					op := inlineOpLine(src, pre, refKeysWire(refs))
					impl := ""
					p, finished := rewriteGuarded(rb, refs)
					if !finished {
						c.fam("synthetic-truncate", "go-does-not-terminate", 1)
						c.note("Rewrite did not return within 10 s on synthetic root: %s", op)
						continue
					}
					if p != "" {
						impl = "panic"
						c.fam("synthetic-truncate", "impl-panics", 1)
					} else {
						impl = wireRoot(rb)
					}
					corr.Add(op, impl)
					n++
				}
			}
		}
	}
	return n
}

// sanitizeIndents: Rewrite does not terminate when the tokenizer is led onto an Indent node whose Source bytes
// contain a backtick (parseCodeSpan's reader sees a space there, finds no opening run and returns
// content.Start == start, so `pos` never advances). The block phase only puts Indent nodes on tabs; synthetic
// Indent nodes get their backticks replaced.
func sanitizeIndents(w *wnode, src []byte) {
	if !w.isBlock && w.kind == 4 {
		for i := w.start; i < w.stop && i < len(src); i++ {
			if i >= 0 && src[i] == '`' {
				src[i] = 'x'
			}
		}
	}
	for _, k := range w.kids {
		sanitizeIndents(k, src)
	}
}

// rewriteGuarded runs Rewrite with a watchdog (a synthetic tree outside the domain may make it loop for ever;
// the goroutine is abandoned then).
func rewriteGuarded(rb *cm.RootBlock, refs cm.ReferenceMap) (panicMsg string, finished bool) {
	finished = withTimeout(10*time.Second, func() {
		panicMsg = safely(func() { (&cm.InlineParser{ReferenceMatcher: refs}).Rewrite(rb) })
	})
	return panicMsg, finished
}

const synthBytes = "*_[]()`<>&\\! \n\r\t\x00a\xef\xbf\xbd\xbc\xa1"

var inlineAlphabet = []string{"*", "_", "[", "]", "(", ")", "a", " ", "`", "\n", "!", "\\", "<", ">", "&", "b]", "\"", "  \n"}

func init() {
	props["XINL"] = runXINL
}

// runXINL: development entry point — the inline-phase correspondence over the document stream and over all short
// strings of an inline-heavy alphabet (alone and followed by definitions of `a` and `b`).
func runXINL(c *Ctx) {
	corr := &Batch{c: c}
	if replayMode {
		inlineCorr(c, corr, replayInput)
		corr.Flush()
		return
	}
	if f := os.Getenv("XINL_FILE"); f != "" {
		data, err := os.ReadFile(f)
		if err == nil {
			inlineCorr(c, corr, data)
		}
		corr.Flush()
		return
	}
	docStream(c.Seed, "xinl", c.N(40000, 400000), true, func(idx int, kind string, doc []byte) bool {
		c.fam(kind, "cases", 1)
		c.fam(kind, "ops", inlineCorr(c, corr, doc))
		if idx%4 == 0 {
			parseCorr(c, corr, doc)
		}
		if idx%2 == 1 {
			c.fam("synthetic", "ops", synthCorr(c, corr, newRng(c.Seed, "xinl-synth-doc", idx), doc))
		}
		return true
	})
	for i, n := 0, c.N(20000, 300000); i < n; i++ {
		d := genStress(newRng(c.Seed, "xinl-stress", i))
		c.fam("stress", "cases", 1)
		c.fam("stress", "ops", inlineCorr(c, corr, d))
		if i%4 == 0 {
			parseCorr(c, corr, d)
		}
		c.fam("synthetic", "ops", synthCorr(c, corr, newRng(c.Seed, "xinl-synth", i), d))
	}
	c.fam("synthetic-truncate", "ops", truncCorr(c, corr))
	// labels around the 999-character limit of parseLinkLabel (plain, with escapes, with white space, over two lines)
	for n := 990; n <= 1004; n++ {
		for _, unit := range []string{"a", "\\]", "a ", "\\\\", "é"} {
			var l strings.Builder
			for l.Len()+len(unit) <= n {
				l.WriteString(unit)
			}
			for l.Len() < n {
				l.WriteByte('b')
			}
			for _, lab := range []string{l.String(), " " + l.String(), l.String()[:n/2] + "\n" + l.String()[n/2:], strings.Repeat(" ", n-1) + "a"} {
				d := "[x][" + lab + "] [" + lab + "]\n\n[" + lab + "]: /u\n"
				c.fam("long-labels", "ops", inlineCorr(c, corr, []byte(d)))
				parseCorr(c, corr, []byte(d))
			}
		}
	}
	for _, d := range chunkBoundaryDocs() {
		c.fam("chunk-boundary", "ops", inlineCorr(c, corr, d))
	}
	// emphasis: every short string over the delimiter alphabet (the openers_bottom bookkeeping only matters on
	// rare delimiter patterns), alone and inside link text
	emphLen := 7
	if !c.quick() {
		emphLen = 8
	}
	enumStrings([]string{"*", "_", "a", " ", "."}, emphLen, func(s []byte) bool {
		c.fam("exhaustive-emphasis", "ops", inlineCorr(c, corr, s))
		if len(s) > 2 && len(s) < emphLen-1 {
			d := append(append([]byte("*[_"), s...), "](/u)*_"...)
			c.fam("exhaustive-emphasis-in-link", "ops", inlineCorr(c, corr, d))
		}
		return true
	})
	// brackets: every short string over the link alphabet, with the label `a` defined
	linkLen := 4
	if !c.quick() {
		linkLen = 5
	}
	enumStrings([]string{"[", "]", "(", ")", "a", "*", "!", "<", ">", "\"", " ", "\n"}, linkLen, func(s []byte) bool {
		d := append(append([]byte(nil), s...), "\n\n[a]: /u\n"...)
		c.fam("exhaustive-links", "ops", inlineCorr(c, corr, d))
		return true
	})
	maxLen := 3
	if !c.quick() {
		maxLen = 4
	}
	enumStrings(inlineAlphabet, maxLen, func(s []byte) bool {
		c.fam("exhaustive", "cases", 1)
		c.fam("exhaustive", "ops", inlineCorr(c, corr, s))
		if len(s) > 0 && len(s)%2 == 0 {
			d := append(append([]byte(nil), s...), "\n\n[a]: /u\n[b]: /v 't'\n"...)
			c.fam("exhaustive+defs", "ops", inlineCorr(c, corr, d))
		}
		return true
	})
	corr.Flush()
}
