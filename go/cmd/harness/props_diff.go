//go:build verif

package main

import (
	"bytes"
	"errors"
	"fmt"
	"io"
	"strings"
	"time"

	cm "zombiezen.com/go/commonmark"
	"zombiezen.com/go/commonmark/format"
)

func init() {
	props["C04"] = runC04
	props["C08"] = runC08
	props["C09"] = runC09
	props["C14"] = runC14
	props["C16"] = runC16
}

// ---------- C04 totality ----------

// totalityFailure runs every entry point on doc; returns "" or a description of the first failure.
var deepWatchdog = 20 * time.Second

func totalityFailure(doc []byte, allConfigs bool) string {
	var fail string
	done := withTimeout(deepWatchdog, func() {
		res := parseMem(doc)
		if res.err != "" {
			fail = "Parse: " + res.err
			return
		}
		sres, late := parseStream(bytes.NewReader(doc), 2)
		if sres.err != "eof" {
			fail = "NextBlock/Extract/Rewrite: " + sres.err
			return
		}
		for _, l := range late {
			if l != "eof" {
				fail = "NextBlock after end of input: " + l
				return
			}
		}
		// block-by-block use with the zero-value InlineParser (nil ReferenceMatcher): legal, nothing resolves
		if p := safely(func() {
			bp := cm.NewBlockParser(bytes.NewReader(doc))
			ip := new(cm.InlineParser)
			for {
				b, err := bp.NextBlock()
				if err != nil {
					break
				}
				ip.Rewrite(b)
			}
		}); p != "" {
			fail = "Rewrite with nil ReferenceMatcher: panic: " + p
			return
		}
		cfgs := allCfgs
		if !allConfigs {
			cfgs = []renderCfg{{}, {soft: cm.SoftBreakHarden, ignoreRaw: true}, {filter: "gfm"}, {soft: cm.SoftBreakSpace, filter: "all"}}
		}
		for _, cfg := range cfgs {
			if _, perr := render(res.roots, res.refs, cfg); perr != "" {
				fail = "Render " + cfg.String() + ": " + perr
				return
			}
		}
		if p := safely(func() {
			if err := format.Format(io.Discard, res.roots); err != nil {
				fail = "Format error: " + err.Error()
			}
		}); p != "" {
			fail = "Format: panic: " + p
			return
		}
		if fail != "" {
			return
		}
		if p := safely(func() {
			for _, r := range res.roots {
				n := 0
				cm.Walk(r.AsNode(), &cm.WalkOptions{Pre: func(c *cm.Cursor) bool { n++; return true }, Post: func(c *cm.Cursor) bool { return true }})
			}
		}); p != "" {
			fail = "Walk: panic: " + p
		}
	})
	if !done {
		return "timeout (20 s): possible infinite loop"
	}
	return fail
}

func kindOfFailure(s string) string {
	if i := strings.Index(s, ":"); i >= 0 {
		return s[:i]
	}
	return s
}

func runC04(c *Ctx) {
	c.Res.Rule = "every generated document (corpus, line-structured, fragments, mutations, exhaustive short strings over the construct-opening characters, all truncations of corpus documents, deep nesting up to the tier's depth) through Parse, NewBlockParser+Extract+Rewrite, Render under SoftBreak x IgnoreRaw x FilterTag (36 configurations on every 8th input, 4 otherwise), Format and Walk, each under recover and a 20 s watchdog; non-trivial = the document has an unterminated construct, invalid UTF-8, NUL, lone CR, or >= 3 root blocks; distinct by input bytes"
	one := func(idx int, fam string, doc []byte) {
		c.fam(fam, "cases", 1)
		f := totalityFailure(doc, idx%8 == 0)
		nt := bytes.IndexByte(doc, 0) >= 0 || bytes.IndexByte(doc, '\r') >= 0 || !validUTF8(doc) || strings.Count(string(doc), "\n\n") >= 2 || bytes.ContainsAny(doc, "`[<*_")
		c.count(string(doc), nt)
		if nt && len(doc) > 4 && len(doc) < 50 {
			c.sample(printable(doc))
		}
		if f != "" {
			c.report("totality:"+kindOfFailure(f), doc, fam, f, func(x []byte) bool {
				return kindOfFailure(totalityFailure(x, true)) == kindOfFailure(f)
			}, func(m []byte) string { return totalityFailure(m, true) })
		}
	}
	if replayMode {
		one(0, "replay", replayInput)
		return
	}
	// model tie: the Lean models carry every Go panic site explicitly (Model/Lines, Model/Blocks, Model/Inlines); the
	// whole-Parse model, the per-root inline model and - on synthetic roots outside the block phase's range, where Go
	// does panic - the panic flag itself are compared with the implementation
	corr := &Batch{c: c}
	defer corr.Flush()
	docStream(c.Seed, "c04", c.N(40000, 1000000), true, func(idx int, kind string, doc []byte) bool {
		one(idx, kind, doc)
		if idx%5 == 0 && len(doc) <= 4000 {
			parseCorr(c, corr, doc)
			c.fam("model-tie", "inline-ops", inlineCorr(c, corr, doc))
			if idx%10 == 5 {
				c.fam("model-tie", "synthetic-root-ops", synthCorr(c, corr, newRng(c.Seed, "c04-synth-doc", idx), doc))
			}
		}
		return true
	})
	for i, n := 0, c.N(4000, 100000); i < n; i++ {
		d := genStress(newRng(c.Seed, "c04-stress", i))
		one(i, "inline-stress", d)
		c.fam("model-tie", "inline-ops", inlineCorr(c, corr, d))
		c.fam("model-tie", "synthetic-root-ops", synthCorr(c, corr, newRng(c.Seed, "c04-synth", i), d))
	}
	for i, d := range chunkBoundaryDocs() {
		one(i, "chunk-boundary", d)
	}
	for i, d := range hugeBlankRunDocs() {
		one(i, "huge-blank-run", d)
	}
	for i, d := range deepNestDocs() {
		one(i, "deep-nesting", d)
	}
	for i, d := range nearLimitDocs() {
		one(i, "near-block-limit", d)
	}
	// truncations of every corpus document (unterminated constructs at end of input)
	corpus := corpusDocs()
	step := 1
	for i, d := range corpus {
		if c.quick() && i%3 != 0 {
			continue
		}
		for k := 0; k < len(d) && k < 400; k += step {
			one(k, "truncation", d[:k])
		}
	}
	alpha := []string{"`", "[", "]", "(", "<", ">", "*", "_", "!", "\\", "&", "\n", "\r", " ", "a", "#", "-", "\x00", "\xff"}
	max := 4
	if !c.quick() {
		max = 5
	}
	i := 0
	enumStrings(alpha, max, func(s []byte) bool {
		one(i, "exhaustive", s)
		i++
		return true
	})
	c.fam("exhaustive", "maxlen", max)
	// deep nesting
	// (parsing a list or quote nested d deep costs time quadratic in d: the watchdog of this family is scaled)
	depth := 2000
	if !c.quick() {
		depth = 8000
	}
	deepWatchdog = 20 * time.Second
	if !c.quick() {
		deepWatchdog = 240 * time.Second
	}
	defer func() { deepWatchdog = 20 * time.Second }()
	for _, unit := range []string{"> ", "- ", "1. ", "[", "*a ", "_a ", "<a ", "`", "![", "**", "> - ", "(", "[a](", "\\", "&", "<!--", "  "} {
		for _, tail := range []string{"", "a", "a\n", "]", "\n\n"} {
			one(0, "deep", []byte(strings.Repeat(unit, depth)+tail))
			// the same run inside a paragraph (a line of backticks or tildes alone would be a code fence)
			one(0, "deep", []byte("x "+strings.Repeat(unit, depth)+tail))
		}
		// every run length around small powers of two and the parser's table sizes
		if unit == "`" || unit == "*" || unit == "[" || unit == "_a " {
			for n := 60; n <= 140; n++ {
				one(0, "deep", []byte("x "+strings.Repeat(unit, n)+" y\n"))
			}
		}
		var sb strings.Builder
		for d := 0; d < depth/20; d++ {
			sb.WriteString(strings.Repeat(unit, d+1))
			sb.WriteString("x\n")
		}
		one(0, "deep", []byte(sb.String()))
	}
	c.fam("deep", "depth", depth)
}

func validUTF8(b []byte) bool {
	for _, r := range string(b) {
		if r == 0xFFFD {
			return false
		}
	}
	return true
}

// ---------- C08 streaming = in-memory ----------

type sched struct {
	name    string
	chunks  []int
	eofWith bool
}

func schedulesFor(c *Ctx, doc []byte, idx int) []sched {
	n := len(doc)
	ones := make([]int, n+2)
	for i := range ones {
		ones[i] = 1
	}
	out := []sched{{"whole", nil, false}, {"whole+eof", nil, true}, {"1-byte", ones, false}}
	rng := newRng(c.Seed, "c08-sched", idx)
	var rnd []int
	for i := 0; i < n+4; i++ {
		rnd = append(rnd, rng.Intn(4))
	}
	out = append(out, sched{"random-0..3", rnd, rng.Bool()})
	var rnd2 []int
	for i := 0; i < 8; i++ {
		rnd2 = append(rnd2, rng.Intn(n+1))
	}
	out = append(out, sched{"random-large", rnd2, rng.Bool()})
	// a long run of empty reads (0, nil) in the middle of the input: legal for an io.Reader, and the data after it must still arrive
	var er []int
	for i, k := 0, rng.Intn(n+1); i < k; i += 3 {
		er = append(er, 3)
	}
	for i, k := 0, 90+rng.Intn(180); i < k; i++ {
		er = append(er, 0)
	}
	out = append(out, sched{"empty-run", er, rng.Bool()})
	return out
}

func runC08(c *Ctx) {
	c.Res.Rule = "every generated document (corpus + seeded generators incl. CR/CRLF/NUL/invalid UTF-8, exhaustive strings <= k over {a,SP,LF,CR,NUL,-,>,`} with every 2-cut partition, long documents crossing the 8 KiB chunk boundary) is read through NewBlockParser under 5 schedules (whole, whole with EOF, 1-byte, random 0..3-byte incl. empty reads, random large) and compared on offsets, lines, Source, full trees after Extract+Rewrite and the reference map with Parse; reader failures after k bytes (k = every position for short inputs, sampled otherwise) with two error values are compared with Parse of the first k bytes, and the error/EOF must be persistent over 3 further calls; non-trivial = >= 2 root blocks, or CR, or NUL, or a multi-byte character; distinct by (input, schedule kind)"
	compare0 := func(doc []byte, s sched) string { return "" }
	compare := func(doc []byte, s sched) string {
		var r string
		if !withTimeout(30*time.Second, func() { r = compare0(doc, s) }) {
			return "stream-parse-does-not-return (30 s)"
		}
		return r
	}
	compare0 = func(doc []byte, s sched) string {
		mem := parseMem(doc)
		if mem.err != "" {
			return ""
		}
		mem.err = "eof"
		want := fullWire(mem)
		res, late := parseStream(&schedReader{data: append([]byte(nil), doc...), sched: append([]int(nil), s.chunks...), eofWith: s.eofWith, failAt: -1}, 3)
		if strings.HasPrefix(res.err, "panic") {
			return ""
		}
		if got := fullWire(res); got != want {
			return "stream-differs-from-memory"
		}
		for _, l := range late {
			if l != "eof" {
				return "end-of-input-not-persistent: " + l
			}
		}
		return ""
	}
	fault0 := func(doc []byte, k int, e error, s sched) string { return "" }
	fault := func(doc []byte, k int, e error, s sched) string {
		var r string
		if !withTimeout(30*time.Second, func() { r = fault0(doc, k, e, s) }) {
			return "stream-parse-does-not-return (30 s)"
		}
		return r
	}
	fault0 = func(doc []byte, k int, e error, s sched) string {
		mem := parseMem(doc[:k])
		if mem.err != "" {
			return ""
		}
		mem.err = "error: " + e.Error()
		want := fullWire(mem)
		rd := &schedReader{data: append([]byte(nil), doc...), sched: append([]int(nil), s.chunks...), failAt: k, failErr: e, eofWith: s.eofWith, recovers: (k+len(doc))%2 == 0}
		res, late := parseStream(rd, 3)
		if strings.HasPrefix(res.err, "panic") {
			return ""
		}
		if got := fullWire(res); got != want {
			return "fault-blocks-differ-from-prefix-parse"
		}
		if rd.readsAfterFail > 0 {
			return "reader-called-again-after-it-failed"
		}
		for _, l := range late {
			if l != "error: "+e.Error() {
				return "error-not-persistent: " + l
			}
		}
		return ""
	}
	e1, e2 := errInjected, errors.New("second error value")
	errWrapsEOF := fmt.Errorf("transport closed: %w", io.EOF)
	corr := &Batch{c: c}
	defer corr.Flush()
	one := func(idx int, fam string, doc []byte) {
		c.fam(fam, "cases", 1)
		// the Lean stream machine + block-phase line parser against the real BlockParser (every schedule kind, a fault)
		if len(doc) <= 20000 {
			scheds := schedulesFor(c, doc, idx)
			// the model's buffer is a list: long inputs are slow there (and many small reads cost quadratic time),
			// so inputs above 1500 bytes get one schedule (whole input per read, with or without EOF) and no fault
			if len(doc) > 1500 {
				blocksCorr(c, corr, doc, scheds[idx%2], -1, 0)
			} else {
				// (the empty-run schedule is for the implementation only: the model's reader loop has fuel)
				for _, s := range scheds[:5] {
					blocksCorr(c, corr, doc, s, -1, 0)
				}
				if len(doc) > 0 {
					blocksCorr(c, corr, doc, scheds[idx%5], idx%(len(doc)+1), 3+idx%5)
				}
				memMetaCorr(c, corr, doc)
			}
		}
		nt := bytes.IndexByte(doc, 0) >= 0 || bytes.IndexByte(doc, '\r') >= 0 || !isASCII(doc) || strings.Contains(string(doc), "\n\n")
		for si, s := range schedulesFor(c, doc, idx) {
			if len(doc) > 3000 && s.name == "1-byte" && idx%4 != 0 {
				continue
			}
			s := s
			c.count(fmt.Sprint(si)+string(doc), nt)
			if r := compare(doc, s); r != "" {
				c.report("stream:"+kindOfFailure(r)+":"+s.name, doc, fam, r+" schedule="+s.name, func(x []byte) bool {
					for _, s2 := range schedulesFor(c, x, idx) {
						if s2.name == s.name && kindOfFailure(compare(x, s2)) == kindOfFailure(r) {
							return true
						}
					}
					return false
				}, nil)
			}
		}
		// faults
		ks := []int{}
		if len(doc) <= 24 {
			for k := 0; k <= len(doc); k++ {
				ks = append(ks, k)
			}
		} else {
			rng := newRng(c.Seed, "c08-fault", idx)
			for i := 0; i < 4; i++ {
				ks = append(ks, rng.Intn(len(doc)+1))
			}
		}
		scheds := schedulesFor(c, doc, idx)
		for i, k := range ks {
			e := e1
			switch (i + idx) % 4 {
			case 1:
				e = e2
			case 2:
				e = io.ErrUnexpectedEOF // what truncated gzip / HTTP bodies return
			case 3:
				e = io.ErrClosedPipe
			}
			if (i+idx)%7 == 5 {
				e = errWrapsEOF // errors.Is(e, io.EOF) but e != io.EOF: a truncated stream, not the end of the document
			}
			s := scheds[(i+idx)%len(scheds)]
			c.Res.Evals++
			if r := fault(doc, k, e, s); r != "" {
				c.report("stream-fault:"+kindOfFailure(r), doc, fam, fmt.Sprintf("%s k=%d schedule=%s", r, k, s.name), func(x []byte) bool {
					for k2 := 0; k2 <= len(x); k2++ {
						for _, s2 := range schedulesFor(c, x, idx) {
							if s2.name == s.name && kindOfFailure(fault(x, k2, e, s2)) == kindOfFailure(r) {
								return true
							}
						}
					}
					return false
				}, nil)
			}
		}
		if nt && len(doc) > 4 && len(doc) < 40 {
			c.sample(map[string]interface{}{"input": printable(doc), "schedules": 5, "fault_points": len(ks)})
		}
	}
	if replayMode {
		one(0, "replay", replayInput)
		return
	}
	docStream(c.Seed, "c08", c.N(15000, 300000), true, func(idx int, kind string, doc []byte) bool {
		one(idx, kind, doc)
		return true
	})
	// exhaustive short inputs with every 2-cut partition
	alpha := []string{"a", " ", "\n", "\r", "\x00", "-", ">", "`"}
	max := 4
	if !c.quick() {
		max = 6
	}
	enumStrings(alpha, max, func(s []byte) bool {
		c.fam("exhaustive-2cut", "cases", 1)
		for i := 0; i <= len(s); i++ {
			for j := i; j <= len(s); j++ {
				sc := sched{"2cut", []int{i, j - i, len(s) - j}, (i+j)%2 == 0}
				c.Res.Evals++
				if r := compare(s, sc); r != "" {
					c.report("stream:"+kindOfFailure(r)+":2cut", s, "exhaustive-2cut", fmt.Sprintf("%s cuts=%d,%d", r, i, j), nil, nil)
				}
			}
		}
		return true
	})
	c.fam("exhaustive-2cut", "maxlen", max)
	for i := 0; i < c.N(25, 250); i++ {
		rng := newRng(c.Seed, "c08-long", i)
		var sb bytes.Buffer
		target := 7000 + rng.Intn(20000)
		for sb.Len() < target {
			sb.Write(genLines(rng, true, 6))
			if rng.Intn(3) == 0 {
				sb.WriteString("\n\n")
			}
			if rng.Intn(15) == 0 {
				sb.WriteString(strings.Repeat("x", rng.Intn(5000)))
			}
			if rng.Intn(15) == 0 {
				sb.WriteString(strings.Repeat("\x00", rng.Intn(3000)))
			}
		}
		one(i*4, "long", sb.Bytes())
	}
	for i, d := range chunkBoundaryDocs() {
		one(i*4, "chunk-boundary", d)
	}
	for i, d := range nearLimitDocs() {
		if rootAboveStreamingLimit(d) {
			continue // the property's side condition: no root block exceeds the size limit
		}
		if c.quick() && i%3 != 0 {
			continue // 1 MiB documents: a third of them in the quick tier (limit-8, -4096, -16384, -24576, … all still probed)
		}
		c.fam("near-block-limit", "cases", 1)
		for _, s := range []sched{{"whole", nil, false}, {"whole+eof", nil, true}} {
			if r := compare(d, s); r != "" {
				c.report("stream:"+kindOfFailure(r)+":"+s.name, d[:40], "near-block-limit", fmt.Sprintf("%s schedule=%s on document %d of nearLimitDocs (%d bytes, one root block below the documented 1 MiB limit)", r, s.name, i, len(d)), nil, nil)
			}
		}
	}
	for i, d := range hugeBlankRunDocs() {
		c.fam("huge-blank-run", "cases", 1)
		for _, s := range []sched{{"whole", nil, false}, {"whole+eof", nil, true}} {
			if r := compare(d, s); r != "" {
				c.report("stream:"+kindOfFailure(r)+":"+s.name, d[:40], "huge-blank-run", fmt.Sprintf("%s schedule=%s on document %d of hugeBlankRunDocs (%d bytes)", r, s.name, i, len(d)), nil, nil)
			}
		}
	}
}

func isASCII(b []byte) bool {
	for _, x := range b {
		if x >= 0x80 {
			return false
		}
	}
	return true
}

// ---------- C09 containers nest documents unchanged ----------

// standalone renders one (possibly non-root) block as if it were a root block, safe mode.
func standalone(src []byte, b *cm.Block, refs cm.ReferenceMap) string {
	rb := &cm.RootBlock{Source: src, Block: *b}
	r := &cm.HTMLRenderer{ReferenceMap: refs, IgnoreRaw: true}
	var out []byte
	safely(func() { out = r.AppendBlock(nil, rb) })
	return string(out)
}

func renderRootsStandalone(res parseResult) []string {
	var out []string
	for _, r := range res.roots {
		out = append(out, standalone(r.Source, &r.Block, res.refs))
	}
	return out
}

func quoteDoc(d []byte) []byte {
	lines := strings.SplitAfter(string(d), "\n")
	var sb strings.Builder
	for _, l := range lines {
		if l == "" {
			continue
		}
		sb.WriteString("> ")
		sb.WriteString(l)
	}
	return []byte(sb.String())
}

func itemDoc(d []byte, marker string, n int) []byte {
	lines := strings.SplitAfter(string(d), "\n")
	var sb strings.Builder
	pad := strings.Repeat(" ", len(marker)+n)
	for i, l := range lines {
		if l == "" {
			continue
		}
		if i == 0 {
			sb.WriteString(marker)
			sb.WriteString(strings.Repeat(" ", n))
		} else {
			sb.WriteString(pad)
		}
		sb.WriteString(l)
	}
	return []byte(sb.String())
}

// c09Quote returns "" when quoting d nests its blocks unchanged.
func c09Quote(d []byte) string {
	base := parseMem(d)
	q := parseMem(quoteDoc(d))
	if base.err != "" || q.err != "" {
		return ""
	}
	want := renderRootsStandalone(base)
	if len(d) == 0 {
		return ""
	}
	if len(q.roots) != 1 || q.roots[0].Kind() != cm.BlockQuoteKind {
		return fmt.Sprintf("quoted document is not a single block quote (%d roots)", len(q.roots))
	}
	var got []string
	root := q.roots[0]
	for i := 0; i < root.ChildCount(); i++ {
		got = append(got, standalone(root.Source, root.Child(i).Block(), q.refs))
	}
	if strings.Join(got, "\x1e") != strings.Join(want, "\x1e") {
		return fmt.Sprintf("contents differ: plain %q quoted %q", want, got)
	}
	return ""
}

func c09Item(d []byte, marker string, n int) string {
	base := parseMem(d)
	it := itemDoc(d, marker, n)
	q := parseMem(it)
	if base.err != "" || q.err != "" {
		return ""
	}
	// exception: the first line of the result is a thematic break
	first := it
	if i := bytes.IndexByte(it, '\n'); i >= 0 {
		first = it[:i+1]
	}
	if cm.VerifParseThematicBreak(bytes.TrimLeft(first, " ")) >= 0 {
		return ""
	}
	want := renderRootsStandalone(base)
	if len(q.roots) != 1 || q.roots[0].Kind() != cm.ListKind || q.roots[0].ChildCount() != 1 {
		return fmt.Sprintf("indented document is not a one-item list (%d roots)", len(q.roots))
	}
	item := q.roots[0].Child(0).Block()
	var got []string
	for i := 1; i < item.ChildCount(); i++ {
		got = append(got, standalone(q.roots[0].Source, item.Child(i).Block(), q.refs))
	}
	if strings.Join(got, "\x1e") != strings.Join(want, "\x1e") {
		return fmt.Sprintf("contents differ: plain %q in item %q", want, got)
	}
	return ""
}

var c09Markers = []string{"-", "+", "*", "1.", "2)", "10.", "123456789.", "0."}

func runC09(c *Ctx) {
	c.Res.Rule = "tab-free documents (corpus with tabs removed, line-structured generator with multi-line links/titles/raw HTML/setext/definitions/nested containers, fragments, mutations); each is compared with its block-quoted form, and - when it starts with a non-space and has no whitespace-only line - with its list-item form for markers {-,+,*,1.,2),10.,123456789.,0.} x N in 1..4 (one (marker,N) per document, all of them for corpus documents), on the safe-mode rendering of each contained block rendered standalone; non-trivial = the document has >= 2 lines and an inline or block construct character; distinct by input bytes"
	eligibleItem := func(d []byte) bool {
		if len(d) == 0 || d[0] == ' ' || d[0] == '\n' || d[0] == '\r' {
			return false
		}
		for _, l := range strings.Split(string(d), "\n") {
			if strings.TrimSpace(l) == "" && l != "" {
				return false
			}
		}
		// no blank lines at all except a possible final empty piece
		body := strings.TrimRight(string(d), "\n")
		if strings.Contains(body, "\n\n") || strings.HasSuffix(string(d), "\n\n") {
			return false
		}
		return true
	}
	corr := &Batch{c: c}
	defer corr.Flush()
	one := func(idx int, fam string, d []byte, allMarkers bool) {
		d = bytes.ReplaceAll(d, []byte("\t"), []byte(" "))
		d = bytes.ReplaceAll(d, []byte("\r"), []byte(""))
		d = bytes.ReplaceAll(d, []byte("\x00"), []byte("?"))
		c.fam(fam, "cases", 1)
		nt := bytes.Count(d, []byte("\n")) >= 1 && bytes.ContainsAny(d, "[<*_`#>-=")
		c.count(string(d), nt)
		if nt && len(d) < 50 && len(d) > 8 {
			c.sample(printable(d))
		}
		if idx%4 == 0 && len(d) <= 3000 {
			// the quoted form through the Lean model of Parse (multi-line inline constructs inside a container)
			parseCorr(c, corr, quoteDoc(d))
		}
		if r := c09Quote(d); r != "" {
			c.report("quote-nesting", d, fam, r, func(x []byte) bool { return !bytes.ContainsAny(x, "\t\r\x00") && c09Quote(x) != "" }, func(m []byte) string { return c09Quote(m) })
		}
		if eligibleItem(d) {
			c.fam(fam, "item-eligible", 1)
			rng := newRng(c.Seed, "c09-marker", idx)
			pairs := [][2]int{{rng.Intn(len(c09Markers)), 1 + rng.Intn(4)}}
			if allMarkers {
				pairs = nil
				for m := range c09Markers {
					for n := 1; n <= 4; n++ {
						pairs = append(pairs, [2]int{m, n})
					}
				}
			}
			for _, p := range pairs {
				m, n := c09Markers[p[0]], p[1]
				c.Res.Evals++
				if r := c09Item(d, m, n); r != "" {
					c.report("item-nesting", d, fam, fmt.Sprintf("marker %q N=%d: %s", m, n, r), func(x []byte) bool {
						return !bytes.ContainsAny(x, "\t\r\x00") && eligibleItem(x) && c09Item(x, m, n) != ""
					}, func(x []byte) string { return fmt.Sprintf("marker %q N=%d: %s", m, n, c09Item(x, m, n)) })
				}
			}
		}
	}
	if replayMode {
		one(0, "replay", replayInput, true)
		return
	}
	for i, d := range corpusDocs() {
		one(i, "corpus", d, true)
	}
	for i, d := range longLabelDocs() {
		if c.quick() && i%3 != 0 {
			continue
		}
		one(i, "long-labels", d, false)
	}
	for i, d := range deepNestDocs() {
		one(i, "deep-nesting", d, false)
	}
	for i := 0; i < c.N(8000, 200000); i++ {
		d := genInlineRich(newRng(c.Seed, "c09-rich", i), false)
		if bytes.ContainsAny(d, "\t\r\x00") {
			continue
		}
		one(i, "inline-rich", d, false)
	}
	n := c.N(40000, 800000)
	for i := 0; i < n; i++ {
		rng := newRng(c.Seed, "c09", i)
		var d []byte
		fam := "lines"
		switch i % 3 {
		case 0:
			d = genLines(rng, false, 6)
		case 1:
			d, fam = genPieces(rng, false, 10), "pieces"
		default:
			// documents made for the item form: no blank lines, first char non-space
			var sb strings.Builder
			for k := 1 + rng.Intn(5); k > 0; k-- {
				body := rng.Pick(lineBodies)
				if strings.TrimSpace(body) == "" {
					body = "x"
				}
				if sb.Len() > 0 {
					sb.WriteString(rng.Pick([]string{"", "", "  ", "> ", "- ", "    "}))
				}
				sb.WriteString(strings.TrimLeft(body, " "))
				sb.WriteString("\n")
			}
			d, fam = []byte(sb.String()), "item-lines"
		}
		one(i, fam, d, false)
	}
}

// ---------- C14 line endings, padding, final newline ----------

func normEOL(b []byte) string {
	s := strings.ReplaceAll(string(b), "\r\n", "\n")
	return strings.ReplaceAll(s, "\r", "\n")
}

// c14Parse is the entry point the three clauses go through: Parse, or (second pass, documents that cross a read
// chunk) NewBlockParser over a reader + Extract + Rewrite.
var c14Parse = parseMem

func parseViaStream(input []byte) parseResult {
	res, _ := parseStream(bytes.NewReader(append([]byte(nil), input...)), 0)
	if res.err == "eof" {
		res.err = ""
	}
	return res
}

func c14EOL(x []byte, eol string) string {
	v := []byte(strings.ReplaceAll(string(x), "\n", eol))
	a := c14Parse(x)
	b := c14Parse(v)
	if a.err != "" || b.err != "" {
		return ""
	}
	if len(a.roots) != len(b.roots) {
		return fmt.Sprintf("number of root blocks differs: LF %d vs %q %d", len(a.roots), eol, len(b.roots))
	}
	for _, cfg := range []renderCfg{{}, {soft: cm.SoftBreakSpace}, {ignoreRaw: true, soft: cm.SoftBreakHarden}} {
		// root by root, so that the renderer's own "\n\n" joiner never meets a copied CR
		for i := range a.roots {
			ra, _ := render(a.roots[i:i+1], a.refs, cfg)
			rb, _ := render(b.roots[i:i+1], b.refs, cfg)
			// in the CR form every copied line ending is one CR, in the CRLF form one CR LF pair;
			// mapping exactly those back keeps the renderer's own "\n" (synthetic break at end of input) apart
			if string(ra) != strings.ReplaceAll(string(rb), eol, "\n") {
				return fmt.Sprintf("rendering of root %d differs beyond line-ending bytes (cfg %s): LF %q vs %q %q", i, cfg, ra, eol, rb)
			}
		}
	}
	return ""
}

func c14Pad(x []byte, pad string) string {
	if strings.HasSuffix(pad, "\r") && len(x) > 0 && x[0] == '\n' {
		return "" // CR + LF would merge into one line ending: the prefix would not be whole lines
	}
	a := c14Parse(x)
	b := c14Parse(append([]byte(pad), x...))
	if a.err != "" || b.err != "" {
		return ""
	}
	if len(a.roots) != len(b.roots) {
		return fmt.Sprintf("padding changes the number of root blocks: %d vs %d", len(a.roots), len(b.roots))
	}
	dl := cm.VerifLineCount([]byte(pad))
	for i := range a.roots {
		ra, rb := a.roots[i], b.roots[i]
		if !bytes.Equal(ra.Source, rb.Source) || wireRoot(ra) != wireRoot(rb) {
			return fmt.Sprintf("padding changes root %d", i)
		}
		if rb.StartOffset != ra.StartOffset+int64(len(pad)) || rb.EndOffset != ra.EndOffset+int64(len(pad)) || rb.StartLine != ra.StartLine+dl {
			return fmt.Sprintf("offsets/lines of root %d not shifted by exactly the prefix: %d..%d line %d vs %d..%d line %d (pad %d bytes, %d lines)", i, ra.StartOffset, ra.EndOffset, ra.StartLine, rb.StartOffset, rb.EndOffset, rb.StartLine, len(pad), dl)
		}
	}
	if refMapWire(a.refs) != refMapWire(b.refs) {
		return "padding changes the reference map"
	}
	return ""
}

// normWS removes insignificant whitespace: whitespace directly before a closing block tag and after an opening one.
func normInsignificant(b []byte) string {
	s := string(b)
	for _, t := range []string{"</p>", "</li>", "</blockquote>", "</h1>", "</h2>", "</h3>", "</h4>", "</h5>", "</h6>"} {
		for _, ws := range []string{"\n", " "} {
			for strings.Contains(s, ws+t) {
				s = strings.ReplaceAll(s, ws+t, t)
			}
		}
	}
	return strings.TrimRight(s, "\n ")
}

func c14Final(x []byte) string {
	if len(x) == 0 || x[len(x)-1] == '\n' || x[len(x)-1] == '\r' {
		return ""
	}
	ra, rb := c14Parse(x), c14Parse(append(append([]byte(nil), x...), '\n'))
	a, _ := render(ra.roots, ra.refs, renderCfg{ignoreRaw: true})
	b, _ := render(rb.roots, rb.refs, renderCfg{ignoreRaw: true})
	if normInsignificant(a) != normInsignificant(b) {
		return fmt.Sprintf("final newline changes the document: without %q with %q", a, b)
	}
	return ""
}

var c14Pads = []string{"\n", "\n\n", "  \n", " \t \n\n", "\r\n", "\r", "\n\r\n  \n"}

func runC14(c *Ctx) {
	c.Res.Rule = "documents from corpus + seeded generators; (a) CR-free documents vs their CRLF and CR forms, compared on the rendering (3 configurations) after mapping CRLF/CR to LF; (b) every document vs itself behind each of 7 blank-line prefixes (LF, CRLF, CR, spaces/tabs), compared on trees, Source, reference map and exact offset/line shift; (c) documents without a final line ending vs themselves with LF appended, safe-mode rendering modulo whitespace directly before a closing block tag; plus all truncations of corpus documents for (c); non-trivial = >= 2 lines and a block/inline construct character; distinct by input bytes"
	corr := &Batch{c: c}
	defer corr.Flush()
	one := func(idx int, fam string, x []byte) {
		c.fam(fam, "cases", 1)
		nt := bytes.Count(x, []byte("\n")) >= 1 && bytes.ContainsAny(x, "[<*_`#>-=")
		c.count(string(x), nt)
		if nt && len(x) < 50 && len(x) > 8 {
			c.sample(printable(x))
		}
		if idx%4 == 0 && len(x) <= 3000 {
			// the CRLF / CR / final-newline-less forms through the Lean model of Parse
			switch (idx / 4) % 3 {
			case 0:
				parseCorr(c, corr, bytes.ReplaceAll(x, []byte("\n"), []byte("\r\n")))
			case 1:
				parseCorr(c, corr, bytes.ReplaceAll(x, []byte("\n"), []byte("\r")))
			default:
				parseCorr(c, corr, bytes.TrimRight(x, "\r\n"))
			}
		}
		if bytes.IndexByte(x, '\r') < 0 {
			for _, eol := range []string{"\r\n", "\r"} {
				eol := eol
				if r := c14EOL(x, eol); r != "" {
					c.report("line-ending-style", x, fam, r, func(y []byte) bool { return bytes.IndexByte(y, '\r') < 0 && c14EOL(y, eol) != "" }, func(y []byte) string { return c14EOL(y, eol) })
				}
			}
		}
		pad := c14Pads[idx%len(c14Pads)]
		if r := c14Pad(x, pad); r != "" {
			c.report("blank-line-padding", x, fam, fmt.Sprintf("pad %q: %s", pad, r), func(y []byte) bool { return c14Pad(y, pad) != "" }, func(y []byte) string { return c14Pad(y, pad) })
		}
		if r := c14Final(x); r != "" {
			c.report("final-newline", x, fam, r, func(y []byte) bool { return c14Final(y) != "" }, func(y []byte) string { return c14Final(y) })
		}
	}
	if replayMode {
		for i := range c14Pads {
			one(i, "replay", replayInput)
		}
		return
	}
	docStream(c.Seed, "c14", c.N(40000, 800000), true, func(idx int, kind string, doc []byte) bool {
		one(idx, kind, doc)
		return true
	})
	for i, d := range corpusDocs() {
		if c.quick() && i%2 == 1 {
			continue
		}
		for k := 1; k < len(d) && k < 300; k++ {
			one(k, "truncation", d[:k])
		}
	}
	// the same three clauses through the STREAMING entry point, on documents that cross the 8 KiB read chunk with a
	// line ending, a NUL run or a multi-byte character at the boundary (the variants move them across it)
	c14Parse = parseViaStream
	for i, d := range chunkBoundaryDocs() {
		one(i, "chunk-boundary(stream)", d)
	}
	for i := 0; i < c.N(60, 600); i++ {
		rng := newRng(c.Seed, "c14-long", i)
		var sb bytes.Buffer
		for sb.Len() < 8100+rng.Intn(300) {
			sb.Write(genLines(rng, false, 6))
			if rng.Intn(3) == 0 {
				sb.WriteString("\n")
			}
		}
		one(i, "long(stream)", sb.Bytes())
	}
	c14Parse = parseMem
	alpha := []string{"a", " ", "\n", "-", ">", "`", "#", "*", "\t", "="}
	max := 5
	if !c.quick() {
		max = 6
	}
	i := 0
	enumStrings(alpha, max, func(s []byte) bool {
		one(i, "exhaustive", s)
		i++
		return true
	})
	c.fam("exhaustive", "maxlen", max)
}

// ---------- C16 a root block re-parses on its own ----------

func reparse(src []byte, refs cm.ReferenceMap) ([]*cm.RootBlock, string) {
	var roots []*cm.RootBlock
	p := safely(func() {
		bp := cm.NewBlockParser(bytes.NewReader(src))
		for {
			b, err := bp.NextBlock()
			if err != nil {
				break
			}
			roots = append(roots, b)
		}
		ip := &cm.InlineParser{ReferenceMatcher: refs}
		for _, b := range roots {
			ip.Rewrite(b)
		}
	})
	return roots, p
}

func c16Check(doc []byte) (string, int) {
	res := parseMem(doc)
	if res.err != "" {
		return "", 0
	}
	for i, r := range res.roots {
		if r.Kind() == cm.ParagraphKind && i > 0 && res.roots[i-1].Kind() == cm.LinkReferenceDefinitionKind && res.roots[i-1].EndOffset == r.StartOffset {
			continue // the stated exception
		}
		again, p := reparse(r.Source, res.refs)
		if p != "" {
			continue
		}
		if len(again) != 1 {
			return fmt.Sprintf("root %d (%s) re-parses into %d root blocks", i, r.Kind(), len(again)), i
		}
		if wireRoot(again[0]) != wireRoot(r) {
			return fmt.Sprintf("root %d (%s) re-parses differently: %s vs %s", i, r.Kind(), wireRoot(r), wireRoot(again[0])), i
		}
		if !bytes.Equal(again[0].Source, r.Source) {
			return fmt.Sprintf("root %d: Source changes on re-parse", i), i
		}
	}
	return "", 0
}

func runC16(c *Ctx) {
	c.Res.Rule = "every root block of every generated document (corpus + seeded generators incl. CR/CRLF, tabs, NUL, invalid UTF-8; exhaustive short strings) is re-parsed alone through NewBlockParser + Rewrite with the document's reference map and compared on the full tree (kinds, attributes, spans) and Source; the stated exception (a paragraph starting where a preceding reference-definition root ends) is skipped; non-trivial = the document has >= 2 root blocks; distinct by input bytes"
	corr := &Batch{c: c}
	defer corr.Flush()
	one := func(idx int, fam string, doc []byte) {
		c.fam(fam, "cases", 1)
		if idx%4 == 0 && len(doc) <= 3000 {
			parseCorr(c, corr, doc)
		}
		r, _ := c16Check(doc)
		res := parseMem(doc)
		nt := len(res.roots) >= 2
		c.count(string(doc), nt)
		if nt && len(doc) < 50 && len(doc) > 8 {
			c.sample(map[string]interface{}{"input": printable(doc), "roots": len(res.roots)})
		}
		if r != "" {
			c.report("reparse:"+stripDigits(kindOfReparse(r)), doc, fam, r, func(x []byte) bool {
				r2, _ := c16Check(x)
				return r2 != "" && stripDigits(kindOfReparse(r2)) == stripDigits(kindOfReparse(r))
			}, func(x []byte) string { r2, _ := c16Check(x); return r2 })
		}
	}
	if replayMode {
		one(0, "replay", replayInput)
		return
	}
	docStream(c.Seed, "c16", c.N(60000, 500000), true, func(idx int, kind string, doc []byte) bool {
		one(idx, kind, doc)
		return true
	})
	for i, d := range chunkBoundaryDocs() {
		one(i, "chunk-boundary", d)
	}
	for i, d := range deepNestDocs() {
		one(i, "deep-nesting", d)
	}
	for i, d := range nearLimitDocs() {
		if rootAboveStreamingLimit(d) {
			continue // re-parsing goes through the streaming parser, which documents a 1 MiB block limit
		}
		c.fam("near-block-limit", "cases", 1)
		if r, _ := c16Check(d); r != "" {
			c.report("reparse:"+stripDigits(kindOfReparse(r)), d[:40], "near-block-limit", fmt.Sprintf("%s (document %d of nearLimitDocs, %d bytes: one root block below the streaming parser's 1 MiB limit)", r, i, len(d)), nil, nil)
		}
	}
	alpha := []string{"a", " ", "\n", "-", ">", "`", "#", "[", "]", ":", "=", "\t", "<"}
	max := 5
	if !c.quick() {
		max = 5 // 13^6 strings would take over an hour
	}
	i := 0
	enumStrings(alpha, max, func(s []byte) bool {
		one(i, "exhaustive", s)
		i++
		return true
	})
	c.fam("exhaustive", "maxlen", max)
}

func kindOfReparse(s string) string {
	if i := strings.Index(s, ")"); i >= 0 {
		rest := s[i+1:]
		if j := strings.Index(rest, ":"); j >= 0 {
			rest = rest[:j]
		}
		return s[strings.Index(s, "("):i+1] + rest
	}
	return s
}
