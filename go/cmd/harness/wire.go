//go:build verif

package main

import (
	"encoding/hex"
	"fmt"
	"strconv"
	"strings"

	cm "zombiezen.com/go/commonmark"
)

// hx is the wire form of a byte string ("-" for empty, since fields are tab separated).
func hx(b []byte) string {
	if len(b) == 0 {
		return "-"
	}
	return hex.EncodeToString(b)
}

func unhx(s string) []byte {
	if s == "-" {
		return nil
	}
	b, err := hex.DecodeString(s)
	if err != nil {
		panic(err)
	}
	return b
}

// wireBlock writes "( b kind start stop n char loose indent ref children… )".
func wireBlock(sb *strings.Builder, b *cm.Block) {
	a := cm.VerifBlockInternals(b)
	loose := 0
	if a.ListLoose {
		loose = 1
	}
	fmt.Fprintf(sb, "( b %d %d %d %d %d %d %d -", int(a.Kind), a.Span.Start, a.Span.End, a.N, int(a.Char), loose, a.Indent)
	for i, n := 0, b.ChildCount(); i < n; i++ {
		sb.WriteByte(' ')
		c := b.Child(i)
		if cb := c.Block(); cb != nil {
			wireBlock(sb, cb)
		} else if ci := c.Inline(); ci != nil {
			wireInline(sb, ci)
		} else {
			sb.WriteString("( i 0 -1 -1 0 0 0 0 - )")
		}
	}
	sb.WriteString(" )")
}

func wireInline(sb *strings.Builder, in *cm.Inline) {
	fmt.Fprintf(sb, "( i %d %d %d 0 0 0 %d %s", int(in.Kind()), in.Span().Start, in.Span().End, in.IndentWidth(), hx([]byte(cm.VerifInlineRef(in))))
	for i, n := 0, in.ChildCount(); i < n; i++ {
		sb.WriteByte(' ')
		wireInline(sb, in.Child(i))
	}
	sb.WriteString(" )")
}

func wireRoot(rb *cm.RootBlock) string {
	sb := new(strings.Builder)
	wireBlock(sb, &rb.Block)
	return sb.String()
}

// synthetic trees: parse the wire form back into real nodes (through the verif constructors).
type wnode struct {
	isBlock bool
	kind    int
	start   int
	stop    int
	n       int
	char    int
	loose   bool
	indent  int
	ref     []byte
	kids    []*wnode
}

func parseWire(s string) (*wnode, error) {
	toks := strings.Fields(s)
	n, rest, err := parseWireToks(toks)
	if err != nil {
		return nil, err
	}
	if len(rest) != 0 {
		return nil, fmt.Errorf("trailing tokens")
	}
	return n, nil
}

func parseWireToks(t []string) (*wnode, []string, error) {
	if len(t) < 11 || t[0] != "(" {
		return nil, nil, fmt.Errorf("bad tree")
	}
	at := func(i int) int { v, _ := strconv.Atoi(t[i]); return v }
	n := &wnode{isBlock: t[1] == "b", kind: at(2), start: at(3), stop: at(4), n: at(5), char: at(6), loose: t[7] == "1", indent: at(8), ref: unhx(t[9])}
	t = t[10:]
	for len(t) > 0 && t[0] != ")" {
		c, rest, err := parseWireToks(t)
		if err != nil {
			return nil, nil, err
		}
		n.kids = append(n.kids, c)
		t = rest
	}
	if len(t) == 0 {
		return nil, nil, fmt.Errorf("unterminated")
	}
	return n, t[1:], nil
}

func (w *wnode) String() string {
	sb := new(strings.Builder)
	w.write(sb)
	return sb.String()
}

func (w *wnode) write(sb *strings.Builder) {
	bi := "i"
	if w.isBlock {
		bi = "b"
	}
	l := 0
	if w.loose {
		l = 1
	}
	fmt.Fprintf(sb, "( %s %d %d %d %d %d %d %d %s", bi, w.kind, w.start, w.stop, w.n, w.char, l, w.indent, hx(w.ref))
	for _, k := range w.kids {
		sb.WriteByte(' ')
		k.write(sb)
	}
	sb.WriteString(" )")
}

func (w *wnode) toInline() *cm.Inline {
	var kids []*cm.Inline
	for _, k := range w.kids {
		kids = append(kids, k.toInline())
	}
	return cm.VerifNewInline(cm.InlineKind(w.kind), cm.Span{Start: w.start, End: w.stop}, w.indent, string(w.ref), kids)
}

// toBlock builds a real block. Children must be all blocks or all inlines.
func (w *wnode) toBlock() *cm.Block {
	var bk []*cm.Block
	var ik []*cm.Inline
	for _, k := range w.kids {
		if k.isBlock {
			bk = append(bk, k.toBlock())
		} else {
			ik = append(ik, k.toInline())
		}
	}
	return cm.VerifNewBlock(cm.VerifBlockAttrs{Kind: cm.BlockKind(w.kind), Span: cm.Span{Start: w.start, End: w.stop}, N: w.n, Char: byte(w.char), Indent: w.indent, ListLoose: w.loose}, bk, ik)
}

func (w *wnode) homogeneous() bool {
	if !w.isBlock {
		for _, k := range w.kids {
			if k.isBlock || !k.homogeneous() {
				return false
			}
		}
		return true
	}
	nb := 0
	for _, k := range w.kids {
		if k.isBlock {
			nb++
		}
		if !k.homogeneous() {
			return false
		}
	}
	return nb == 0 || nb == len(w.kids)
}

// refMapWire serialises a reference map: sorted "key dest titlePresent title" records.
func refMapWire(m cm.ReferenceMap) string {
	if len(m) == 0 {
		return "-"
	}
	keys := make([]string, 0, len(m))
	for k := range m {
		keys = append(keys, k)
	}
	sortStrings(keys)
	parts := make([]string, 0, len(keys))
	for _, k := range keys {
		d := m[k]
		tp := "0"
		if d.TitlePresent {
			tp = "1"
		}
		parts = append(parts, hx([]byte(k))+","+hx([]byte(d.Destination))+","+tp+","+hx([]byte(d.Title)))
	}
	return strings.Join(parts, ";")
}
