//go:build verif

package main

import (
	"fmt"
	"os"
	"os/exec"
	"path/filepath"
	"regexp"
	"strconv"
	"strings"
)

func init() { props["C19"] = runC19 }

// runC19 runs the race-detector harness (go/bin/racer, built with -race by bin/check) and reports
// data races or results that differ from the sequential ones.
func runC19(c *Ctx) {
	c.Res.Rule = "the racer binary (built with -race from /repo's working tree): 16 goroutines Parse the 652 spec examples, the benchmark document and a mixed document concurrently (several rounds) and every result is compared with the sequential one; for every 2nd document one parsed tree is shared by 16 goroutines running Render under 18 configurations, Format, Walk and Extract, and one HTMLRenderer value is shared by 4 goroutines; a race report or a differing result is a violation; non-trivial = each (document, operation mix) pair; the count below is documents x rounds"
	rounds := c.N(10, 200)
	bin := filepath.Join(verifDir, "go/bin/racer")
	cmd := exec.Command(bin, "-repo", repoDir, "-rounds", strconv.Itoa(rounds), "-workers", "16")
	cmd.Env = append(os.Environ(), "GORACE=halt_on_error=0 exitcode=66")
	out, err := cmd.CombinedOutput()
	text := string(out)
	m := regexp.MustCompile(`RACER documents=(\d+) shared_trees=(\d+) workers=(\d+) configs=(\d+) mismatches=(\d+)`).FindStringSubmatch(text)
	if m != nil {
		docs, _ := strconv.Atoi(m[1])
		shared, _ := strconv.Atoi(m[2])
		c.Res.Evals = docs*rounds + shared*16*4
		c.Res.Nontrivial = docs + shared
		c.sample(map[string]string{"racer": m[0]})
		c.fam("racer", "documents", docs)
		c.fam("racer", "shared_trees", shared)
		c.fam("racer", "rounds", rounds)
	}
	races := strings.Count(text, "WARNING: DATA RACE")
	if races > 0 || err != nil || m == nil {
		p := filepath.Join(c.OutDir, "replay")
		os.MkdirAll(p, 0o755)
		rp := filepath.Join(p, "C19-racer.txt")
		os.WriteFile(rp, out, 0o644)
		what := "concurrent-result-differs-from-sequential"
		if races > 0 {
			what = "data-race"
		}
		if m == nil && races == 0 {
			what = "racer-failed"
		}
		detail := text
		if len(detail) > 1500 {
			detail = detail[:1500]
		}
		c.Res.Violations = append(c.Res.Violations, Violation{What: what, Detail: fmt.Sprintf("%d race report(s); exit: %v; output: %s", races, err, detail), Replay: rp, Family: "racer"})
	}
}
