//go:build verif

// Command racer is built with -race. It runs concurrent Parse calls on distinct inputs and concurrent
// Render (all configurations) / Format / Walk / Extract calls on one shared parsed tree, compares every result
// with the sequential one, and snapshots the tree before and after. The race detector reports data races
// (exit status 66).
package main

import (
	"bytes"
	"encoding/json"
	"flag"
	"fmt"
	"io"
	"os"
	"path/filepath"
	"sync"

	cm "zombiezen.com/go/commonmark"
	"zombiezen.com/go/commonmark/format"
)

type spec struct {
	Markdown string
}

func loadDocs(repo string) [][]byte {
	data, err := os.ReadFile(filepath.Join(repo, "internal/spec/spec-0.30.json"))
	var out [][]byte
	if err == nil {
		var ex []spec
		if json.Unmarshal(data, &ex) == nil {
			for _, e := range ex {
				out = append(out, []byte(e.Markdown))
			}
		}
	}
	if b, err := os.ReadFile(filepath.Join(repo, "testdata/goldmark_bench.md")); err == nil {
		out = append(out, b)
	}
	out = append(out, []byte("<DIV>\n<XMP>\n\nfoo <B> <SCRIPT> <TITLE> <Style>\n\n<TEXTAREA>\n"))
	out = append(out, []byte("# h\n\n- a\n- b\n\n> q *e* `c` [l](/u \"t\") ![i](/s) <b> &amp;\n\n```go\nx\n```\n\n[r]: /d\n\n[r] <div>\n"))
	return out
}

type cfg struct {
	soft cm.SoftBreakBehavior
	ig   bool
	f    func([]byte) bool
}

func renderWith(c cfg, roots []*cm.RootBlock, refs cm.ReferenceMap) []byte {
	r := &cm.HTMLRenderer{ReferenceMap: refs, SoftBreakBehavior: c.soft, IgnoreRaw: c.ig, FilterTag: c.f}
	var buf bytes.Buffer
	r.Render(&buf, roots)
	return buf.Bytes()
}

func walkCount(roots []*cm.RootBlock) int {
	n := 0
	for _, r := range roots {
		cm.Walk(r.AsNode(), &cm.WalkOptions{Pre: func(c *cm.Cursor) bool { n++; return true }, Post: func(c *cm.Cursor) bool { return true }})
	}
	return n
}

func main() {
	repo := flag.String("repo", "/repo", "")
	workers := flag.Int("workers", 16, "")
	rounds := flag.Int("rounds", 20, "")
	sharedEvery := flag.Int("shared-every", 2, "")
	flag.Parse()
	docs := loadDocs(*repo)
	failures := 0
	fail := func(format string, a ...interface{}) {
		failures++
		if failures < 10 {
			fmt.Printf("MISMATCH "+format+"\n", a...)
		}
	}

	// 1. concurrent Parse on distinct inputs vs sequential
	want := make([][]byte, len(docs))
	for i, d := range docs {
		roots, refs := cm.Parse(append([]byte(nil), d...))
		want[i] = renderWith(cfg{}, roots, refs)
	}
	var wg sync.WaitGroup
	var mu sync.Mutex
	for w := 0; w < *workers; w++ {
		wg.Add(1)
		go func(w int) {
			defer wg.Done()
			for r := 0; r < *rounds; r++ {
				for i := w; i < len(docs); i += *workers {
					roots, refs := cm.Parse(append([]byte(nil), docs[i]...))
					if got := renderWith(cfg{}, roots, refs); !bytes.Equal(got, want[i]) {
						mu.Lock()
						fail("concurrent Parse of document %d differs from sequential", i)
						mu.Unlock()
					}
					_ = cm.NormalizeURI(string(docs[i]))
					_ = cm.IsEmailAddress("a@b.c")
					_ = cm.FilterTagGFM([]byte("script"))
				}
			}
		}(w)
	}
	wg.Wait()

	// 1b. the distinct inputs are adjacent, non-overlapping sub-slices of one read buffer (documents split by
	// offset), some of them holding NUL bytes: no Parse call may touch the bytes of another call's input.
	{
		nulDocs := [][]byte{[]byte("a\x00b\x00\n\n> \x00q\n"), []byte("# h\x00\n\n[l\x00]: /u\n\n[l\x00]\n"), []byte("\x00\x00\x00\x00")}
		var all [][]byte
		for i, d := range docs {
			if i%8 == 0 {
				all = append(all, nulDocs[(i/8)%len(nulDocs)])
			}
			all = append(all, d)
		}
		var buf []byte
		bounds := []int{0}
		for _, d := range all {
			buf = append(buf, d...)
			bounds = append(bounds, len(buf))
		}
		buf = append(buf, make([]byte, 64)...)
		pristine := append([]byte(nil), buf...)
		wantA := make([][]byte, len(all))
		for i, d := range all {
			roots, refs := cm.Parse(append([]byte(nil), d...))
			wantA[i] = renderWith(cfg{}, roots, refs)
		}
		var wg sync.WaitGroup
		for w := 0; w < *workers; w++ {
			wg.Add(1)
			go func(w int) {
				defer wg.Done()
				for i := w; i < len(all); i += *workers {
					roots, refs := cm.Parse(buf[bounds[i]:bounds[i+1]])
					if got := renderWith(cfg{}, roots, refs); !bytes.Equal(got, wantA[i]) {
						mu.Lock()
						fail("concurrent Parse of adjacent sub-slice %d differs from sequential", i)
						mu.Unlock()
					}
				}
			}(w)
		}
		wg.Wait()
		if !bytes.Equal(buf, pristine) {
			fail("Parse wrote outside its own input (shared read buffer changed)")
		}
	}

	// 2. concurrent Render / Format / Walk / Extract on one shared tree
	cfgs := []cfg{}
	for _, s := range []cm.SoftBreakBehavior{cm.SoftBreakPreserve, cm.SoftBreakSpace, cm.SoftBreakHarden} {
		for _, ig := range []bool{false, true} {
			for _, f := range []func([]byte) bool{nil, cm.FilterTagGFM, func([]byte) bool { return true }} {
				cfgs = append(cfgs, cfg{s, ig, f})
			}
		}
	}
	shared := 0
	for di, d := range docs {
		if di%*sharedEvery != 0 && di < len(docs)-3 {
			continue
		}
		shared++
		roots, refs := cm.Parse(append([]byte(nil), d...))
		// history: traversals that were cut short (Post returns false; Pre prunes) before the concurrent phase - whatever
		// a traversal keeps for later use (pools, caches) must not couple the traversals that follow
		for _, rb := range roots {
			k := 0
			cm.Walk(rb.AsNode(), &cm.WalkOptions{Pre: func(c *cm.Cursor) bool { return true }, Post: func(c *cm.Cursor) bool { k++; return k < 2 }})
			cm.Walk(rb.AsNode(), &cm.WalkOptions{Pre: func(c *cm.Cursor) bool { return false }})
		}
		// re-entrancy, deterministically: a traversal started from inside a callback of another traversal (a FilterTag
		// predicate that renders, a Pre callback that walks) overlaps it in time on one goroutine; both must behave as alone
		{
			wantPlain := renderWith(cfg{f: func([]byte) bool { return false }}, roots, refs)
			calls := 0
			var inner []byte
			outer := renderWith(cfg{f: func([]byte) bool {
				calls++
				if calls == 3 || calls == 25 {
					inner = renderWith(cfg{f: func([]byte) bool { return false }}, roots, refs)
				}
				return false
			}}, roots, refs)
			if !bytes.Equal(outer, wantPlain) || (inner != nil && !bytes.Equal(inner, wantPlain)) {
				fail("a Render started inside a FilterTag callback of another Render disturbs it (document %d)", di)
			}
			n, m := 0, 0
			for _, rb := range roots {
				cm.Walk(rb.AsNode(), &cm.WalkOptions{Pre: func(c *cm.Cursor) bool {
					n++
					if n%7 == 3 {
						m += walkCount(roots)
					}
					return true
				}})
			}
			if n != walkCount(roots) {
				fail("a Walk started inside a Pre callback of another Walk disturbs it (document %d): %d nodes instead of %d", di, n, walkCount(roots))
			}
		}
		wantR := make([][]byte, len(cfgs))
		for i, c := range cfgs {
			wantR[i] = renderWith(c, roots, refs)
		}
		var wantF bytes.Buffer
		format.Format(&wantF, roots)
		wantW := walkCount(roots)
		var wg sync.WaitGroup
		for w := 0; w < *workers; w++ {
			wg.Add(1)
			go func(w int) {
				defer wg.Done()
				for r := 0; r < 4; r++ {
					switch (w + r) % 4 {
					case 0, 1:
						i := (w*7 + r) % len(cfgs)
						// one renderer value shared by nobody else, the tree shared by all
						if got := renderWith(cfgs[i], roots, refs); !bytes.Equal(got, wantR[i]) {
							mu.Lock()
							fail("concurrent Render (cfg %d) of document %d differs", i, di)
							mu.Unlock()
						}
					case 2:
						var b bytes.Buffer
						format.Format(&b, roots)
						if !bytes.Equal(b.Bytes(), wantF.Bytes()) {
							mu.Lock()
							fail("concurrent Format of document %d differs", di)
							mu.Unlock()
						}
					default:
						if walkCount(roots) != wantW {
							mu.Lock()
							fail("concurrent Walk of document %d differs", di)
							mu.Unlock()
						}
						m := make(cm.ReferenceMap)
						for _, rb := range roots {
							m.Extract(rb.Source, rb.AsNode())
						}
						io.Discard.Write(nil)
					}
				}
			}(w)
		}
		wg.Wait()
		// one renderer shared by several goroutines (the renderer's configuration is read-only)
		for _, rd := range []*cm.HTMLRenderer{{ReferenceMap: refs, FilterTag: cm.FilterTagGFM}, {ReferenceMap: refs}} {
			rd := rd
			var wg2 sync.WaitGroup
			for w := 0; w < 4; w++ {
				wg2.Add(1)
				go func() {
					defer wg2.Done()
					var b bytes.Buffer
					rd.Render(&b, roots)
					if !bytes.Equal(b.Bytes(), renderWith(cfg{f: rd.FilterTag}, roots, refs)) {
						mu.Lock()
						fail("Render through a renderer shared by several goroutines differs for document %d", di)
						mu.Unlock()
					}
				}()
			}
			wg2.Wait()
		}
	}
	fmt.Printf("RACER documents=%d shared_trees=%d workers=%d configs=%d mismatches=%d\n", len(docs), shared, *workers, len(cfgs), failures)
	if failures > 0 {
		os.Exit(3)
	}
}
