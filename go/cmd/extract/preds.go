package main

import (
	"fmt"
	"go/ast"
	"go/token"
	"strconv"
	"strings"
)

// ---- the expression translator (a deliberately tiny Go subset) ----

type tr struct {
	p       *pkgInfo
	types   map[string]string // identifier → Lean type
	partial bool              // function contains panic → result is Option
	known   map[string]string // translated Go function name → Lean name
	err     error
}

var leanKeywords = map[string]bool{"open": true, "end": true, "at": true, "from": true, "fun": true, "in": true, "then": true, "do": true, "show": true, "have": true, "match": true, "with": true, "where": true, "instance": true, "section": true, "namespace": true, "prefix": true, "infix": true, "local": true}

func leanIdent(s string) string {
	if leanKeywords[s] {
		return s + "'"
	}
	return s
}

func (t *tr) fail(format string, a ...interface{}) string {
	if t.err == nil {
		t.err = fmt.Errorf(format, a...)
	}
	return "sorry_untranslatable"
}

var goToLean = map[string]string{"byte": "UInt8", "uint8": "UInt8", "int": "Int", "bool": "Bool", "Span": "GSpan", "delimiterStackElement": "DelimElem", "BlockKind": "Nat", "InlineKind": "Nat", "listMarker": "GListMarker", "inlineDelimiter": "Int"}

func (t *tr) expr(e ast.Expr) string {
	switch e := e.(type) {
	case *ast.ParenExpr:
		return "(" + t.expr(e.X) + ")"
	case *ast.BasicLit:
		switch e.Kind {
		case token.INT:
			v, err := strconv.ParseInt(e.Value, 0, 64)
			if err != nil {
				return t.fail("bad int %s", e.Value)
			}
			return strconv.FormatInt(v, 10)
		case token.CHAR:
			r, _, _, err := strconv.UnquoteChar(e.Value[1:len(e.Value)-1], '\'')
			if err != nil {
				return t.fail("bad char %s", e.Value)
			}
			return strconv.Itoa(int(r))
		}
		return t.fail("literal %s", e.Value)
	case *ast.Ident:
		if _, ok := t.types[e.Name]; ok {
			return leanIdent(e.Name)
		}
		if v, ok := t.p.iotas[e.Name]; ok {
			return strconv.Itoa(v)
		}
		if c, ok := t.p.consts[e.Name]; ok {
			if v, ok := evalConstInt(t.p, c); ok {
				return strconv.Itoa(v)
			}
		}
		if e.Name == "true" || e.Name == "false" {
			return e.Name
		}
		return t.fail("identifier %s", e.Name)
	case *ast.SelectorExpr:
		if id, ok := e.X.(*ast.Ident); ok {
			if _, ok := t.types[id.Name]; ok {
				return leanIdent(id.Name) + "." + e.Sel.Name
			}
		}
		return t.fail("selector %s", src(e))
	case *ast.UnaryExpr:
		switch e.Op {
		case token.NOT:
			return "(!" + t.expr(e.X) + ")"
		case token.SUB:
			return "(-" + t.expr(e.X) + ")"
		}
		return t.fail("unary %s", e.Op)
	case *ast.BinaryExpr:
		// strings.IndexByte("lit", c) >= 0   /   < 0
		if call, ok := e.X.(*ast.CallExpr); ok && src(call.Fun) == "strings.IndexByte" && len(call.Args) == 2 {
			if s, ok := strLit(call.Args[0]); ok {
				if y, ok := e.Y.(*ast.BasicLit); ok && y.Value == "0" {
					m := "(" + byteList(s) + " : List UInt8).contains " + t.expr(call.Args[1])
					switch e.Op {
					case token.GEQ:
						return "(" + m + ")"
					case token.LSS:
						return "(!(" + m + "))"
					}
				}
			}
			return t.fail("strings.IndexByte pattern %s", src(e))
		}
		x, y := t.expr(e.X), t.expr(e.Y)
		switch e.Op {
		case token.LAND:
			return "(" + x + " && " + y + ")"
		case token.LOR:
			return "(" + x + " || " + y + ")"
		case token.EQL:
			return "(" + x + " == " + y + ")"
		case token.NEQ:
			return "(" + x + " != " + y + ")"
		case token.LSS:
			return "decide (" + x + " < " + y + ")"
		case token.LEQ:
			return "decide (" + x + " ≤ " + y + ")"
		case token.GTR:
			return "decide (" + x + " > " + y + ")"
		case token.GEQ:
			return "decide (" + x + " ≥ " + y + ")"
		case token.ADD:
			return "(" + x + " + " + y + ")"
		case token.SUB:
			return "(" + x + " - " + y + ")"
		case token.MUL:
			return "(" + x + " * " + y + ")"
		case token.REM:
			return "(" + x + " % " + y + ")"
		case token.AND:
			return "(" + x + " &&& " + y + ")"
		case token.OR:
			return "(" + x + " ||| " + y + ")"
		case token.SHR:
			return "(" + x + " >>> " + y + ")"
		}
		return t.fail("binary op %s", e.Op)
	case *ast.CallExpr:
		name := ""
		var args []string
		switch f := e.Fun.(type) {
		case *ast.Ident:
			name = f.Name
		case *ast.SelectorExpr: // method call on a parameter
			if id, ok := f.X.(*ast.Ident); ok {
				if ty, ok := t.types[id.Name]; ok {
					goTy := ""
					for g, l := range goToLean {
						if l == ty && g != "uint8" {
							goTy = g
						}
					}
					name = goTy + "." + f.Sel.Name
					args = append(args, leanIdent(id.Name))
				}
			}
		}
		ln, ok := t.known[name]
		if !ok {
			return t.fail("call %s", src(e))
		}
		for _, a := range e.Args {
			args = append(args, t.expr(a))
		}
		return "(" + ln + " " + strings.Join(args, " ") + ")"
	}
	return t.fail("expression %s", src(e))
}

func (t *tr) ret(s string) string {
	if t.partial {
		return "some (" + s + ")"
	}
	return s
}

// block translates a statement list that ends in return (or panic) on every path.
func (t *tr) block(stmts []ast.Stmt) string {
	if len(stmts) == 0 {
		return t.fail("fallthrough off the end")
	}
	s, rest := stmts[0], stmts[1:]
	switch s := s.(type) {
	case *ast.ReturnStmt:
		if len(s.Results) != 1 {
			return t.fail("return arity")
		}
		return t.ret(t.expr(s.Results[0]))
	case *ast.ExprStmt:
		if call, ok := s.X.(*ast.CallExpr); ok {
			if id, ok := call.Fun.(*ast.Ident); ok && id.Name == "panic" {
				return "none"
			}
		}
		return t.fail("statement %s", src(s))
	case *ast.IfStmt:
		if s.Init != nil {
			return t.fail("if with init")
		}
		thenB := t.block(s.Body.List)
		var elseB string
		switch el := s.Else.(type) {
		case nil:
			elseB = t.block(rest)
		case *ast.BlockStmt:
			elseB = t.block(el.List)
		case *ast.IfStmt:
			elseB = t.block([]ast.Stmt{el})
		}
		return "(if " + t.expr(s.Cond) + " then " + thenB + " else " + elseB + ")"
	case *ast.SwitchStmt:
		if s.Init != nil {
			return t.fail("switch with init")
		}
		var tag string
		if s.Tag != nil {
			tag = t.expr(s.Tag)
		}
		var def []ast.Stmt
		hasDef := false
		type arm struct{ cond, body string }
		var arms []arm
		for _, c := range s.Body.List {
			cc := c.(*ast.CaseClause)
			if cc.List == nil {
				def, hasDef = cc.Body, true
				continue
			}
			var conds []string
			for _, v := range cc.List {
				if s.Tag != nil {
					conds = append(conds, "("+tag+" == "+t.expr(v)+")")
				} else {
					conds = append(conds, t.expr(v))
				}
			}
			arms = append(arms, arm{strings.Join(conds, " || "), t.block(cc.Body)})
		}
		var tail string
		if hasDef {
			tail = t.block(def)
		} else {
			tail = t.block(rest)
		}
		for i := len(arms) - 1; i >= 0; i-- {
			tail = "(if " + arms[i].cond + " then " + arms[i].body + " else " + tail + ")"
		}
		return tail
	}
	return t.fail("statement %s", src(s))
}

func containsPanic(n ast.Node) bool {
	found := false
	ast.Inspect(n, func(m ast.Node) bool {
		if call, ok := m.(*ast.CallExpr); ok {
			if id, ok := call.Fun.(*ast.Ident); ok && id.Name == "panic" {
				found = true
			}
		}
		return true
	})
	return found
}

type predSpec struct {
	goName   string // key in pkgInfo.funcs
	leanName string
}

var predList = []predSpec{
	{"isSpaceTabOrLineEnding", "isSpaceTabOrLineEnding"},
	{"isASCIILetter", "isASCIILetter"},
	{"isASCIIDigit", "isASCIIDigit"},
	{"isASCIIPunctuation", "isASCIIPunctuation"},
	{"isASCIIControl", "isASCIIControl"},
	{"isHex", "isHex"},
	{"toLowerASCII", "toLowerASCII"},
	{"isUnquotedAttributeValueChar", "isUnquotedAttributeValueChar"},
	{"urlHexDigit", "urlHexDigit"},
	{"Span.IsValid", "spanIsValid"},
	{"Span.Len", "spanLen"},
	{"BlockKind.IsCode", "blockKindIsCode"},
	{"BlockKind.IsHeading", "blockKindIsHeading"},
	{"listMarker.isOrdered", "listMarkerIsOrdered"},
	{"isEmphasisDelimiterMatch", "isEmphasisDelimiterMatch"},
	{"delimiterStackElement.openersBottomIndex", "openersBottomIndex"},
}

func genPreds(p *pkgInfo, o *out) string {
	var sb strings.Builder
	sb.WriteString("/- GENERATED by go/cmd/extract from /repo — do not edit.\n   Each definition is a mechanical translation of the Go function of the same name. -/\nnamespace CM.Gen\n\n")
	sb.WriteString("structure GSpan where\n  Start : Int\n  End : Int\nderiving Repr, BEq, DecidableEq\n\n")
	sb.WriteString("structure DelimElem where\n  typ : Int\n  flags : UInt8\n  n : Nat\nderiving Repr, BEq, DecidableEq\n\n")
	sb.WriteString("structure GListMarker where\n  delim : UInt8\n  n : Int\n  «end» : Int\nderiving Repr, BEq, DecidableEq\n\n")
	known := map[string]string{}
	var translated []string
	for _, ps := range predList {
		fd := p.funcs[ps.goName]
		if fd == nil || fd.Body == nil {
			o.problem("predicate %s not found", ps.goName)
			continue
		}
		t := &tr{p: p, types: map[string]string{}, known: known}
		t.partial = containsPanic(fd)
		var params []string
		addParam := func(name string, ty ast.Expr) bool {
			goTy := src(ty)
			lt, ok := goToLean[goTy]
			if !ok {
				o.problem("predicate %s: parameter type %s not supported", ps.goName, goTy)
				return false
			}
			if ps.goName == "delimiterStackElement.openersBottomIndex" || ps.goName == "isEmphasisDelimiterMatch" {
				lt = "DelimElem"
			}
			t.types[name] = lt
			params = append(params, fmt.Sprintf("(%s : %s)", leanIdent(name), lt))
			return true
		}
		ok := true
		if fd.Recv != nil {
			for _, f := range fd.Recv.List {
				for _, n := range f.Names {
					ok = ok && addParam(n.Name, f.Type)
				}
			}
		}
		for _, f := range fd.Type.Params.List {
			for _, n := range f.Names {
				ok = ok && addParam(n.Name, f.Type)
			}
		}
		if !ok || fd.Type.Results == nil || len(fd.Type.Results.List) != 1 {
			o.problem("predicate %s: unsupported signature", ps.goName)
			continue
		}
		resTy, okT := goToLean[src(fd.Type.Results.List[0].Type)]
		if !okT {
			o.problem("predicate %s: result type", ps.goName)
			continue
		}
		if ps.goName == "delimiterStackElement.openersBottomIndex" {
			resTy = "Nat"
		}
		body := t.block(fd.Body.List)
		if t.err != nil {
			o.problem("predicate %s: untranslatable: %v", ps.goName, t.err)
			continue
		}
		if t.partial {
			resTy = "Option " + resTy
		}
		fmt.Fprintf(&sb, "/-- Go: `%s` -/\ndef %s %s : %s :=\n  %s\n\n", ps.goName, ps.leanName, strings.Join(params, " "), resTy, body)
		known[ps.goName] = ps.leanName
		translated = append(translated, ps.leanName)
	}
	fmt.Fprintf(&sb, "def translatedPreds : List String := [%s]\n", quoteList(translated))
	sb.WriteString("\nend CM.Gen\n")
	return sb.String()
}

func quoteList(xs []string) string {
	q := make([]string, len(xs))
	for i, x := range xs {
		q[i] = leanStr(x)
	}
	return strings.Join(q, ", ")
}

// ---------- Tags ----------

func atomName(e ast.Expr) (string, bool) {
	// atom.X or atom.X.String()
	if call, ok := e.(*ast.CallExpr); ok {
		if sel, ok := call.Fun.(*ast.SelectorExpr); ok && sel.Sel.Name == "String" {
			e = sel.X
		}
	}
	if sel, ok := e.(*ast.SelectorExpr); ok {
		if id, ok := sel.X.(*ast.Ident); ok && id.Name == "atom" {
			return strings.ToLower(sel.Sel.Name), true
		}
	}
	return "", false
}

func stringSliceVar(p *pkgInfo, name string, o *out) []string {
	e, ok := p.vars[name]
	if !ok {
		o.problem("var %s not found", name)
		return nil
	}
	cl, ok := e.(*ast.CompositeLit)
	if !ok {
		o.problem("var %s is not a composite literal", name)
		return nil
	}
	var out []string
	for _, el := range cl.Elts {
		if s, ok := strLit(el); ok {
			out = append(out, s)
		} else if a, ok := atomName(el); ok {
			out = append(out, a)
		} else {
			o.problem("var %s: element %s not understood", name, src(el))
		}
	}
	return out
}

func genTags(p *pkgInfo, o *out) string {
	var sb strings.Builder
	sb.WriteString("/- GENERATED by go/cmd/extract from /repo — do not edit. -/\nnamespace CM.Gen\n\n")
	emit := func(name string, xs []string) {
		parts := make([]string, len(xs))
		for i, x := range xs {
			parts[i] = byteList(x)
		}
		fmt.Fprintf(&sb, "def %s : List (List UInt8) := [\n  %s]\n\n", name, strings.Join(parts, ",\n  "))
	}
	emit("htmlBlockStarters1", stringSliceVar(p, "htmlBlockStarters1", o))
	emit("htmlBlockEnders1", stringSliceVar(p, "htmlBlockEnders1", o))
	emit("htmlBlockStarters6", stringSliceVar(p, "htmlBlockStarters6", o))
	// FilterTagGFM: atoms compared with tagAtom
	var gfm []string
	if fd := p.funcs["FilterTagGFM"]; fd != nil {
		ast.Inspect(fd, func(n ast.Node) bool {
			if be, ok := n.(*ast.BinaryExpr); ok && be.Op == token.EQL {
				if a, ok := atomName(be.Y); ok {
					gfm = append(gfm, a)
				}
			}
			return true
		})
	} else {
		o.problem("FilterTagGFM not found")
	}
	emit("filterTagGFMNames", gfm)
	// atoms the renderer emits (openTag/openTagAttr/closeTag arguments and tagName assignments)
	seen := map[string]bool{}
	var elems []string
	for _, fn := range []string{"renderState.preBlock", "renderState.postBlock", "renderState.preInline", "renderState.postInline"} {
		fd := p.funcs[fn]
		if fd == nil {
			o.problem("%s not found", fn)
			continue
		}
		ast.Inspect(fd, func(n ast.Node) bool {
			if sel, ok := n.(*ast.SelectorExpr); ok {
				if a, ok := atomName(sel); ok && !seen[a] {
					seen[a] = true
					elems = append(elems, a)
				}
			}
			return true
		})
	}
	emit("rendererElements", elems)
	// attribute names the renderer writes: string literals of the form ` name="`
	seenA := map[string]bool{}
	var attrs []string
	for _, fn := range []string{"renderState.preBlock", "renderState.preInline", "appendAltText"} {
		fd := p.funcs[fn]
		if fd == nil {
			continue
		}
		ast.Inspect(fd, func(n ast.Node) bool {
			if s, ok := n.(*ast.BasicLit); ok && s.Kind == token.STRING {
				v, _ := strconv.Unquote(s.Value)
				if strings.HasPrefix(v, " ") && strings.Contains(v, "=\"") {
					name := strings.TrimPrefix(v[:strings.Index(v, "=\"")], " ")
					if !seenA[name] {
						seenA[name] = true
						attrs = append(attrs, name)
					}
				}
			}
			return true
		})
	}
	emit("rendererAttrs", attrs)
	sb.WriteString("end CM.Gen\n")
	return sb.String()
}

// ---------- Dispatch ----------

func genDispatch(p *pkgInfo, o *out) string {
	var sb strings.Builder
	sb.WriteString("/- GENERATED by go/cmd/extract from /repo — do not edit. -/\nnamespace CM.Gen\n\n")
	// blockStarts: identify every closure by the Open*/Morph* calls it makes.
	var starts []string
	if e, ok := p.vars["blockStarts"]; ok {
		if cl, ok := e.(*ast.CompositeLit); ok {
			for _, el := range cl.Elts {
				var ids []string
				ast.Inspect(el, func(n ast.Node) bool {
					call, ok := n.(*ast.CallExpr)
					if !ok {
						return true
					}
					sel, ok := call.Fun.(*ast.SelectorExpr)
					if !ok {
						return true
					}
					switch sel.Sel.Name {
					case "OpenBlock", "OpenListBlock", "OpenHeadingBlock":
						if len(call.Args) > 0 {
							ids = append(ids, src(call.Args[0]))
						}
					case "OpenFencedCodeBlock":
						ids = append(ids, "FencedCodeBlockKind")
					case "OpenHTMLBlock":
						ids = append(ids, "HTMLBlockKind")
					case "MorphSetext":
						ids = append(ids, "SetextHeadingKind")
					}
					return true
				})
				starts = append(starts, strings.Join(ids, "+"))
			}
		}
	} else {
		o.problem("blockStarts not found")
	}
	fmt.Fprintf(&sb, "/-- The closures of `blockStarts`, in order, each named by the kinds it opens. -/\ndef blockStartsOrder : List String := [%s]\n\n", quoteList(starts))
	// blockRules
	type rule struct {
		kind                                     string
		hasMatch, hasClose, hasContain, accepts bool
		contain                                  string
	}
	var rules []rule
	if e, ok := p.vars["blockRules"]; ok {
		if cl, ok := e.(*ast.CompositeLit); ok {
			for _, el := range cl.Elts {
				kv, ok := el.(*ast.KeyValueExpr)
				if !ok {
					continue
				}
				r := rule{kind: src(kv.Key)}
				if v, ok := kv.Value.(*ast.CompositeLit); ok {
					for _, f := range v.Elts {
						fkv, ok := f.(*ast.KeyValueExpr)
						if !ok {
							continue
						}
						switch src(fkv.Key) {
						case "match":
							r.hasMatch = true
						case "onClose":
							r.hasClose = true
						case "acceptsLines":
							r.accepts = src(fkv.Value) == "true"
						case "canContain":
							r.hasContain = true
							if fl, ok := fkv.Value.(*ast.FuncLit); ok && len(fl.Body.List) == 1 {
								if rs, ok := fl.Body.List[0].(*ast.ReturnStmt); ok && len(rs.Results) == 1 {
									t := &tr{p: p, types: map[string]string{}, known: map[string]string{}}
									for _, prm := range fl.Type.Params.List {
										for _, n := range prm.Names {
											t.types[n.Name] = "Nat"
										}
									}
									r.contain = t.expr(rs.Results[0])
									if t.err != nil {
										o.problem("blockRules[%s].canContain untranslatable: %v", r.kind, t.err)
										r.contain = ""
									}
								}
							}
						}
					}
				}
				rules = append(rules, r)
			}
		}
	} else {
		o.problem("blockRules not found")
	}
	b := func(x bool) string {
		if x {
			return "true"
		}
		return "false"
	}
	sb.WriteString("/-- (kind, hasMatch, hasOnClose, hasCanContain, acceptsLines) per `blockRules` entry. -/\ndef blockRulesShape : List (Nat × Bool × Bool × Bool × Bool) := [\n")
	var parts []string
	for _, r := range rules {
		parts = append(parts, fmt.Sprintf("  (%d, %s, %s, %s, %s)", p.iotas[r.kind], b(r.hasMatch), b(r.hasClose), b(r.hasContain), b(r.accepts)))
	}
	sb.WriteString(strings.Join(parts, ",\n") + "]\n\n")
	sb.WriteString("/-- `blockRules[k].canContain(childKind)`; false when the rule has no canContain. -/\ndef canContain (k childKind : Nat) : Bool :=\n")
	for _, r := range rules {
		if r.hasContain && r.contain != "" {
			fmt.Fprintf(&sb, "  if k == %d then %s else\n", p.iotas[r.kind], r.contain)
		}
	}
	sb.WriteString("  false\n\n")
	sb.WriteString("def acceptsLines (k : Nat) : Bool :=\n")
	for _, r := range rules {
		if r.accepts {
			fmt.Fprintf(&sb, "  if k == %d then true else\n", p.iotas[r.kind])
		}
	}
	sb.WriteString("  false\n\nend CM.Gen\n")
	return sb.String()
}
