// Command extract regenerates lean/CM/Gen/*.lean from /repo's working tree:
// constants, tables, expression-only predicates (translated mechanically from the Go AST),
// the dispatch order of blockStarts, the shape of blockRules, and function fingerprints.
//
// It deliberately accepts only a tiny Go subset; anything else is reported as "untranslatable"
// for that item (the item is then left to the hand model + correspondence check).
package main

import (
	"bytes"
	"crypto/sha256"
	"encoding/hex"
	"encoding/json"
	"flag"
	"fmt"
	"go/ast"
	"go/parser"
	"go/printer"
	"go/token"
	"os"
	"path/filepath"
	"sort"
	"strconv"
	"strings"
)

var fset = token.NewFileSet()

type pkgInfo struct {
	files  []*ast.File
	funcs  map[string]*ast.FuncDecl // "name" or "Recv.name"
	consts map[string]ast.Expr      // every const (top-level and function-local), by name
	vars   map[string]ast.Expr      // top-level vars with initialisers
	iotas  map[string]int           // evaluated iota-style constants
}

func load(dir string, skipTests bool) *pkgInfo {
	p := &pkgInfo{funcs: map[string]*ast.FuncDecl{}, consts: map[string]ast.Expr{}, vars: map[string]ast.Expr{}, iotas: map[string]int{}}
	names, _ := filepath.Glob(filepath.Join(dir, "*.go"))
	sort.Strings(names)
	for _, n := range names {
		if strings.HasSuffix(n, "_test.go") || strings.HasSuffix(n, "export_verif.go") {
			continue
		}
		f, err := parser.ParseFile(fset, n, nil, 0)
		if err != nil {
			fmt.Fprintln(os.Stderr, "parse error:", err)
			os.Exit(2)
		}
		p.files = append(p.files, f)
	}
	for _, f := range p.files {
		for _, d := range f.Decls {
			switch d := d.(type) {
			case *ast.FuncDecl:
				name := d.Name.Name
				if d.Recv != nil && len(d.Recv.List) == 1 {
					t := d.Recv.List[0].Type
					if s, ok := t.(*ast.StarExpr); ok {
						t = s.X
					}
					if id, ok := t.(*ast.Ident); ok {
						name = id.Name + "." + name
					}
				}
				p.funcs[name] = d
			case *ast.GenDecl:
				p.genDecl(d)
			}
		}
		// function-local consts
		ast.Inspect(f, func(n ast.Node) bool {
			if ds, ok := n.(*ast.DeclStmt); ok {
				if gd, ok := ds.Decl.(*ast.GenDecl); ok {
					p.genDecl(gd)
				}
			}
			return true
		})
	}
	return p
}

func (p *pkgInfo) genDecl(d *ast.GenDecl) {
	switch d.Tok {
	case token.CONST:
		var lastExpr ast.Expr
		for i, s := range d.Specs {
			vs := s.(*ast.ValueSpec)
			for j, name := range vs.Names {
				var e ast.Expr
				if j < len(vs.Values) {
					e = vs.Values[j]
					lastExpr = e
				} else {
					e = lastExpr
				}
				if e == nil {
					continue
				}
				if v, ok := evalIota(e, i); ok {
					p.iotas[name.Name] = v
				}
				if j < len(vs.Values) {
					p.consts[name.Name] = e
				}
			}
		}
	case token.VAR:
		for _, s := range d.Specs {
			vs := s.(*ast.ValueSpec)
			for j, name := range vs.Names {
				if j < len(vs.Values) {
					p.vars[name.Name] = vs.Values[j]
				}
			}
		}
	}
}

// evalIota evaluates integer constant expressions built from literals, iota, +, -, *, <<.
func evalIota(e ast.Expr, iota int) (int, bool) {
	switch e := e.(type) {
	case *ast.BasicLit:
		if e.Kind == token.INT {
			v, err := strconv.ParseInt(e.Value, 0, 64)
			return int(v), err == nil
		}
		if e.Kind == token.CHAR {
			r, _, _, err := strconv.UnquoteChar(e.Value[1:len(e.Value)-1], '\'')
			return int(r), err == nil
		}
	case *ast.Ident:
		if e.Name == "iota" {
			return iota, true
		}
	case *ast.ParenExpr:
		return evalIota(e.X, iota)
	case *ast.CallExpr: // conversions like BlockKind(1)
		if len(e.Args) == 1 {
			return evalIota(e.Args[0], iota)
		}
	case *ast.BinaryExpr:
		a, ok1 := evalIota(e.X, iota)
		b, ok2 := evalIota(e.Y, iota)
		if !ok1 || !ok2 {
			return 0, false
		}
		switch e.Op {
		case token.ADD:
			return a + b, true
		case token.SUB:
			return a - b, true
		case token.MUL:
			return a * b, true
		case token.SHL:
			return a << uint(b), true
		}
	}
	return 0, false
}

func src(n ast.Node) string {
	var buf bytes.Buffer
	printer.Fprint(&buf, fset, n)
	return buf.String()
}

func leanStr(s string) string {
	var sb strings.Builder
	sb.WriteByte('"')
	for _, c := range []byte(s) {
		switch {
		case c == '"':
			sb.WriteString("\\\"")
		case c == '\\':
			sb.WriteString("\\\\")
		case c == '\n':
			sb.WriteString("\\n")
		case c == '\r':
			sb.WriteString("\\r")
		case c == '\t':
			sb.WriteString("\\t")
		case c < 0x20 || c >= 0x7f:
			fmt.Fprintf(&sb, "\\x%02x", c)
		default:
			sb.WriteByte(c)
		}
	}
	sb.WriteByte('"')
	return sb.String()
}

// byteList renders a Go string as a Lean `List UInt8` literal.
func byteList(s string) string {
	parts := make([]string, 0, len(s))
	for _, c := range []byte(s) {
		parts = append(parts, strconv.Itoa(int(c)))
	}
	return "[" + strings.Join(parts, ", ") + "]"
}

func strLit(e ast.Expr) (string, bool) {
	if bl, ok := e.(*ast.BasicLit); ok && bl.Kind == token.STRING {
		s, err := strconv.Unquote(bl.Value)
		return s, err == nil
	}
	return "", false
}

type out struct {
	problems []string
	stale    []string
}

func (o *out) problem(format string, a ...interface{}) {
	o.problems = append(o.problems, fmt.Sprintf(format, a...))
}

func writeIfChanged(path, content string) {
	old, err := os.ReadFile(path)
	if err == nil && string(old) == content {
		return
	}
	os.MkdirAll(filepath.Dir(path), 0o755)
	os.WriteFile(path, []byte(content), 0o644)
}

func main() {
	repo := flag.String("repo", "/repo", "repository root")
	outDir := flag.String("out", "/verif/lean/CM/Gen", "output directory")
	report := flag.String("report", "", "JSON report path")
	flag.Parse()

	p := load(*repo, true)
	fp := load(filepath.Join(*repo, "format"), true)
	o := &out{}

	writeIfChanged(filepath.Join(*outDir, "Consts.lean"), genConsts(p, fp, o))
	writeIfChanged(filepath.Join(*outDir, "Kinds.lean"), genKinds(p, o))
	writeIfChanged(filepath.Join(*outDir, "Preds.lean"), genPreds(p, o))
	writeIfChanged(filepath.Join(*outDir, "Tags.lean"), genTags(p, o))
	writeIfChanged(filepath.Join(*outDir, "Dispatch.lean"), genDispatch(p, o))
	fps := fingerprints(p, "")
	for k, v := range fingerprints(fp, "format.") {
		fps[k] = v
	}
	if *report != "" {
		data, _ := json.MarshalIndent(map[string]interface{}{"problems": o.problems, "fingerprints": fps}, "", " ")
		os.WriteFile(*report, data, 0o644)
	}
	for _, pr := range o.problems {
		fmt.Fprintln(os.Stderr, "extract:", pr)
	}
}

func fingerprints(p *pkgInfo, prefix string) map[string]string {
	m := map[string]string{}
	for name, fd := range p.funcs {
		h := sha256.Sum256([]byte(src(fd)))
		m[prefix+name] = hex.EncodeToString(h[:8])
	}
	for name, e := range p.vars {
		h := sha256.Sum256([]byte(src(e)))
		m[prefix+"var."+name] = hex.EncodeToString(h[:8])
	}
	return m
}

// ---------- Consts ----------

var intConsts = []string{"tabStopSize", "codeBlockIndentLimit", "chunkSize", "maxBlockSize", "maxChars", "maxDigits", "minConsecutive", "numSpaces", "minSchemeChars", "maxSchemeChars", "openersBottomCount", "activeFlag", "openerFlag", "closerFlag",
	"stateOpening", "stateOpenMatched", "stateLineConsumed", "stateDescending", "stateDescendTerminated",
	"inlineDelimiterStar", "inlineDelimiterUnderscore", "inlineDelimiterLink", "inlineDelimiterImage",
	"SoftBreakPreserve", "SoftBreakSpace", "SoftBreakHarden", "nodeTypeBlock", "nodeTypeInline"}
var strConsts = []string{"blockQuotePrefix", "nullReplacementString", "safeSet", "cdataPrefix", "cdataSuffix", "htmlCommentPrefix", "htmlCommentSuffix", "processingInstructionPrefix", "processingInstructionSuffix"}

func genConsts(p, fp *pkgInfo, o *out) string {
	var sb strings.Builder
	sb.WriteString("/- GENERATED by go/cmd/extract from /repo — do not edit. -/\nnamespace CM.Gen\n\n")
	for _, name := range intConsts {
		if v, ok := p.iotas[name]; ok {
			fmt.Fprintf(&sb, "def %s : Nat := %d\n", name, v)
		} else if e, ok := p.consts[name]; ok {
			if v, ok := evalConstInt(p, e); ok {
				fmt.Fprintf(&sb, "def %s : Nat := %d\n", name, v)
			} else {
				o.problem("const %s: not an integer constant expression: %s", name, src(e))
			}
		} else {
			o.problem("const %s not found", name)
		}
	}
	// digit limits of parseCharacterEscape are two local consts with the same names; extract both in order.
	if fd := p.funcs["parseCharacterEscape"]; fd != nil {
		var starts, limits []int
		ast.Inspect(fd, func(n ast.Node) bool {
			if vs, ok := n.(*ast.ValueSpec); ok && len(vs.Names) == 1 && len(vs.Values) == 1 {
				if v, ok := evalIota(vs.Values[0], 0); ok {
					switch vs.Names[0].Name {
					case "digitStart":
						starts = append(starts, v)
					case "digitLimit":
						limits = append(limits, v)
					}
				}
			}
			return true
		})
		if len(starts) == 2 && len(limits) == 2 {
			fmt.Fprintf(&sb, "def hexDigitStart : Nat := %d\ndef hexDigitLimit : Nat := %d\ndef decDigitStart : Nat := %d\ndef decDigitLimit : Nat := %d\n", starts[0], limits[0], starts[1], limits[1])
		} else {
			o.problem("parseCharacterEscape: digit limits not found")
		}
	}
	// Parse's initial line number
	if fd := p.funcs["Parse"]; fd != nil {
		found := false
		ast.Inspect(fd, func(n ast.Node) bool {
			if kv, ok := n.(*ast.KeyValueExpr); ok {
				if id, ok := kv.Key.(*ast.Ident); ok && id.Name == "lineno" {
					if v, ok := evalIota(kv.Value, 0); ok {
						fmt.Fprintf(&sb, "def parseInitialLineno : Nat := %d\n", v)
						found = true
					}
				}
			}
			return true
		})
		if !found {
			sb.WriteString("def parseInitialLineno : Nat := 0\n")
		}
	}
	if fd := p.funcs["NewBlockParser"]; fd != nil {
		ast.Inspect(fd, func(n ast.Node) bool {
			if kv, ok := n.(*ast.KeyValueExpr); ok {
				if id, ok := kv.Key.(*ast.Ident); ok && id.Name == "lineno" {
					if v, ok := evalIota(kv.Value, 0); ok {
						fmt.Fprintf(&sb, "def streamInitialLineno : Nat := %d\n", v)
					}
				}
			}
			return true
		})
	}
	sb.WriteString("\n")
	for _, name := range strConsts {
		if e, ok := p.consts[name]; ok {
			if s, ok := strLit(e); ok {
				fmt.Fprintf(&sb, "def %s : List UInt8 := %s\n", name, byteList(s))
				continue
			}
		}
		o.problem("string const %s not found", name)
	}
	// escapeHTML switch: byte → replacement
	sb.WriteString("\n/-- The cases of `escapeHTML`'s switch: (byte, replacement). -/\ndef escapeHTMLCases : List (UInt8 × List UInt8) := [")
	if fd := p.funcs["escapeHTML"]; fd != nil {
		var parts []string
		ast.Inspect(fd, func(n ast.Node) bool {
			cc, ok := n.(*ast.CaseClause)
			if !ok || len(cc.List) != 1 {
				return true
			}
			b, ok := evalIota(cc.List[0], 0)
			if !ok {
				return true
			}
			// find the string literal appended in this clause
			var lit string
			has := false
			for _, st := range cc.Body {
				ast.Inspect(st, func(m ast.Node) bool {
					if s, ok := m.(*ast.BasicLit); ok && s.Kind == token.STRING {
						lit, _ = strconv.Unquote(s.Value)
						has = true
					}
					return true
				})
			}
			if has {
				parts = append(parts, fmt.Sprintf("(%d, %s)", b, byteList(lit)))
			}
			return true
		})
		sb.WriteString(strings.Join(parts, ", "))
	} else {
		o.problem("escapeHTML not found")
	}
	sb.WriteString("]\n")
	// format package: escape set, code block indent limit
	if fd := fp.funcs["visitInline"]; fd != nil {
		found := false
		ast.Inspect(fd, func(n ast.Node) bool {
			if call, ok := n.(*ast.CallExpr); ok && strings.HasSuffix(src(call.Fun), "ContainsRune") && len(call.Args) == 2 && !found {
				if s, ok := constString(call.Args[0]); ok {
					fmt.Fprintf(&sb, "def formatEscapeSet : List UInt8 := %s\n", byteList(s))
					found = true
				}
			}
			return true
		})
		if !found {
			o.problem("format.visitInline: escape set not found")
		}
	}
	sb.WriteString("\nend CM.Gen\n")
	return sb.String()
}

// constString folds "a" + "b" string constant expressions.
func constString(e ast.Expr) (string, bool) {
	switch e := e.(type) {
	case *ast.BasicLit:
		return strLit(e)
	case *ast.BinaryExpr:
		if e.Op == token.ADD {
			a, ok1 := constString(e.X)
			b, ok2 := constString(e.Y)
			return a + b, ok1 && ok2
		}
	case *ast.ParenExpr:
		return constString(e.X)
	}
	return "", false
}

func evalConstInt(p *pkgInfo, e ast.Expr) (int, bool) {
	switch e := e.(type) {
	case *ast.Ident:
		if v, ok := p.iotas[e.Name]; ok {
			return v, true
		}
		if c, ok := p.consts[e.Name]; ok {
			return evalConstInt(p, c)
		}
		return 0, false
	case *ast.BinaryExpr:
		a, ok1 := evalConstInt(p, e.X)
		b, ok2 := evalConstInt(p, e.Y)
		if ok1 && ok2 {
			switch e.Op {
			case token.ADD:
				return a + b, true
			case token.SUB:
				return a - b, true
			case token.MUL:
				return a * b, true
			case token.SHL:
				return a << uint(b), true
			}
		}
		return 0, false
	case *ast.ParenExpr:
		return evalConstInt(p, e.X)
	case *ast.CallExpr:
		if id, ok := e.Fun.(*ast.Ident); ok && id.Name == "len" && len(e.Args) == 1 {
			if a, ok := e.Args[0].(*ast.Ident); ok {
				if c, ok := p.consts[a.Name]; ok {
					if s, ok := strLit(c); ok {
						return len(s), true
					}
				}
			}
		}
	}
	return evalIota(e, 0)
}

// ---------- Kinds ----------

var blockKindNames = []string{"ParagraphKind", "ThematicBreakKind", "ATXHeadingKind", "SetextHeadingKind", "IndentedCodeBlockKind", "FencedCodeBlockKind", "HTMLBlockKind", "LinkReferenceDefinitionKind", "BlockQuoteKind", "ListItemKind", "ListKind", "ListMarkerKind", "documentKind"}
var inlineKindNames = []string{"TextKind", "SoftLineBreakKind", "HardLineBreakKind", "IndentKind", "CharacterReferenceKind", "InfoStringKind", "EmphasisKind", "StrongKind", "LinkKind", "ImageKind", "LinkDestinationKind", "LinkTitleKind", "LinkLabelKind", "CodeSpanKind", "AutolinkKind", "HTMLTagKind", "RawHTMLKind", "UnparsedKind"}

func genKinds(p *pkgInfo, o *out) string {
	var sb strings.Builder
	sb.WriteString("/- GENERATED by go/cmd/extract from /repo — do not edit. -/\nnamespace CM.Gen\n\n")
	for _, n := range append(append([]string{}, blockKindNames...), inlineKindNames...) {
		v, ok := p.iotas[n]
		if !ok {
			o.problem("kind %s not found", n)
			continue
		}
		fmt.Fprintf(&sb, "def %s : Nat := %d\n", n, v)
	}
	sb.WriteString("\nend CM.Gen\n")
	return sb.String()
}
