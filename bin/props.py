# Per-property configuration shared by bin/check and bin/gen-manifest.
# modules: Lean modules holding the property's theorems (CM.Props.*) — built and audited on every run.
# level:   MANIFEST category claimed.

TRUSTED_COMMON = [
    "Lean 4.33.0 kernel (thorough tier re-checks with leanchecker)",
    "axioms allowed: propext, Classical.choice, Quot.sound (audited per theorem on every run; no sorry/native_decide/bv_decide/own axioms)",
    "go/cmd/extract (constant/table extractor and expression translator; cross-checked exhaustively against the compiled Go on finite domains)",
    "the hand-written Lean model's fidelity to the Go source, checked by the correspondence run only as far as the generators reach",
    "the transcription of CommonMark 0.30 / WHATWG / RFC 3986 in lean/CM/Spec",
    "Go harness: generators, canonicalisation, shrinking",
]

PROPS = {
    "C15": {
        "modules": ["CM.Props.C15"],
        "level": "proof",
        "design_ref": "DESIGN.md §6 C15",
        "technique": "Lean 4 theorems over definitions regenerated from the Go source (decide +kernel over all 256 bytes; induction over lines) + line-protocol correspondence + spec oracle",
        "text": "Byte classifiers: the Lean definitions are regenerated from the Go source by a mechanical expression translator on every run and proved equal to the CommonMark lists for all 256 bytes (classifiers_eq_spec, kernel-evaluated). Recognizers, NormalizeURI, e-mail: hand-written Lean models tied to the code by an exhaustive-small-scope + random correspondence run; their agreement with the declarative specs in CM/Spec/Regular is a theorem where listed in the evidence and otherwise checked by running the Lean spec against the implementation on every generated line.",
        "note": "Trusts the expression translator (cross-checked on all 256 bytes per classifier against the compiled Go), and the Spec transcription. The recognizer/URI/e-mail models are tied behaviourally, not by translation.",
    },
}

NOT_APPLICABLE = {
}
