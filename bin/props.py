# Per-property configuration shared by bin/check and bin/gen-manifest.
# modules: Lean modules holding the property's theorems (CM.Props.*) — built and audited on every run.
# level:   MANIFEST category claimed.

TRUSTED_COMMON = [
    "Lean 4.33.0 kernel (thorough tier re-checks with leanchecker)",
    "axioms allowed: propext, Classical.choice, Quot.sound (audited per theorem on every run; no sorry/native_decide/bv_decide/own axioms)",
    "go/cmd/extract (constant/table extractor and expression translator; cross-checked exhaustively against the compiled Go on finite domains)",
    "the hand-written Lean model's fidelity to the Go source, checked by the correspondence run only as far as the generators reach",
    "the transcription of CommonMark 0.30 / WHATWG / RFC 3986 in lean/CM/Spec",
    "Go harness: generators, canonicalisation, shrinking",
]

PROPS = {
    "C15": {
        "modules": ["CM.Props.C15", "CM.Props.C15Rec", "CM.Props.C15URI"],
        "level": "proof",
        "design_ref": "DESIGN.md §6 C15",
        "technique": "Lean 4 theorems: classifiers over definitions regenerated from the Go source (decide +kernel, all 256 bytes); five recognizers, NormalizeURI and e-mail recognition = CommonMark/RFC definitions for inputs of every length (induction, closed forms of the Go loops) + line-protocol correspondence of the hand-written models with the code + spec oracle on the implementation",
        "text": "Byte classifiers: the Lean definitions are regenerated from the Go source by a mechanical expression translator on every run and proved equal to the CommonMark lists for all 256 bytes (classifiers_eq_spec, kernel-evaluated). Line recognizers: Model.parseThematicBreak / parseSetextHeadingUnderline / parseListMarker / parseCodeFence are proved equal to the readings of CommonMark 0.30 §4.1, §4.3, §5.2, §4.5 in CM/Spec/Regular for EVERY byte list (thematicBreak_eq_spec, setext_eq_spec, listMarker_eq_spec, fence_eq_spec: closed forms of the Go loops, induction, no length bound); parseATXHeading is proved equal to §4.2 on every line outside the class of the known finding KF-C15-atx-escaped-space (atx_eq_spec_partial), that class is proved to be exactly where they differ (atx_eq_spec_iff) and the full statement is proved false (atx_eq_spec_target_false). NormalizeURI: output in (reserved | unreserved | %HH)* and idempotent for every string (normalizeURI_alphabet, normalizeURI_idem); IsEmailAddress = the spec's regular expression for every string (email_eq_regex). The per-byte facts these proofs use are kernel-checked over the regenerated definitions. The hand-written models of the recognizers, NormalizeURI and the e-mail parser are tied to the code by an exhaustive-small-scope + random correspondence run, and the Lean specs are additionally run against the implementation on every generated line.",
        "note": "Trusts the expression translator (cross-checked on all 256 bytes per classifier against the compiled Go), and the Spec transcription. The recognizer/URI/e-mail models are tied behaviourally, not by translation.",
    },
}

PROPS["C18"] = {
    "modules": ["CM.Props.C18"],
    "level": "proof",
    "design_ref": "DESIGN.md §6 C18",
    "technique": "Lean 4 refinement proof (explicit-stack loop = structural recursion, well-founded measure 2*size + post frames) + cursor-invariant congruence theorem + line-protocol trace correspondence",
    "text": "Model.walk is the literal frame-stack loop of walk.go (termination proved by the measure 2*pending sizes + post frames). walk_refines_spec proves, for every tree, state type and pair of possibly-absent callbacks, that it equals the structural recursion 'Pre; if true: children in order, then Post; stop everything when Post returns false'. cursor_inv proves callbacks are only ever invoked at cursors with Parent.Child(Index)=Node, ParentBlock = nearest enclosing block, root without parent and index -1 (as a congruence: behaviour on any other cursor is irrelevant). each_node_once_pre/post: without pruning every node is visited exactly once in pre-/post-order. The model is tied to walk.go by comparing event traces of the real Walk (parsed trees, synthetic trees, virtual roots through custom child functions; scripted prune/abort/nil policies) with the model's on every run.",
    "note": "Custom ChildCount/Child functions are modelled by the finite tree they present (a non-well-founded presentation would not terminate in Go either). Pointer identity of nodes is modelled by value + position; the pointer-level identity Parent().Child(Index())==Node() is checked in-process by the harness.",
}

PROPS["C10"] = {
    "modules": ["CM.Props.C10", "CM.Props.C07"],
    "level": "proof",
    "design_ref": "DESIGN.md §6 C10",
    "technique": "Lean 4 theorems: Walk-driven renderer = recursive reading (render_eq_spec, via the C18 refinement) = flattened tokens of the documented kind->element mapping (render_eq_tokens); block join (renderAll_join); 3-way byte correspondence implementation / model / specification over all configurations",
    "text": "Model.appendBlock is AppendBlock: the walk.go loop with preBlock/postBlock/preInline/postInline appending to dst, written function by function from html_renderer.go. render_eq_spec: for every tree, source and configuration (SoftBreakBehavior, IgnoreRaw, arbitrary FilterTag predicate, arbitrary reference map, arbitrary entity decoder) it appends exactly open ++ children ++ close read recursively; render_eq_tokens: that equals the flattening of Spec.toksNode, an independent reading of the documented mapping kind -> element using accessor-level functions only; renderAll_join: Render = blocks rendered separately joined by blank lines; refdef_renders_nothing. Determinism is functionality of the model. The model is tied to the code by comparing AppendBlock's bytes with the model's and the specification's on parsed and synthetic trees under all 30 configurations; determinism, tree/Source untouched and the block join are also checked in-process.",
    "note": "html.UnescapeString, cases.Fold are parameters of the model (Ext); the driver receives, per tree, the table of html.UnescapeString over that tree's character-reference nodes computed by the real library. Slicing is total in the model; Go's spanSlice panics exactly outside Spec.spanValid (the RenderPre contract, monitored by C02's check). The explicit-stack DFS of appendAltText is modelled by its recursive equivalent.",
}

PROPS["C07"] = {
    "modules": ["CM.Props.C07"],
    "level": "proof",
    "design_ref": "DESIGN.md §6 C07",
    "technique": "Lean 4 theorem render_wellformed over the renderer model (tokens of the documented mapping are in the fixed vocabulary regenerated from the source, escaped, well nested), escaping lemmas over the regenerated escapeHTML table for all bytes, + recogniser oracle Spec.htmlWellFormed on the implementation's output + monitored parser contract Spec.safePre",
    "text": "render_wellformed: for every tree, source, SoftBreakBehavior, reference map and entity decoder, with FilterTag unset and raw HTML ignored or absent, AppendBlock's output is dst ++ flat(tokens) where every start/end tag name is in the renderer's element set and every attribute name in its attribute set (both regenerated from html_renderer.go on every run), every text run and attribute value is free of < > \" ' with & only as the start of one of the renderer's own escapes (escapeHTML's cases are regenerated from the Go switch: escapeHTMLByte_shape is kernel-checked for all 256 bytes), copied character references have the form &[#A-Za-z0-9]+;, and tags are properly nested. Hypothesis on the tree: Spec.safePre (character-reference nodes span a reference, soft breaks span their line ending) - true of parser output, monitored on every generated tree. The implementation's bytes are additionally run through the Lean recogniser Spec.htmlWellFormed (injection generator + exhaustive short strings over the markup characters).",
    "note": "The parser contract safePre is not yet a theorem about the parser model (not in Lean at this commit); it is monitored. The recogniser's language is slightly larger than the token theorem's (it accepts any &[#A-Za-z0-9]+; reference in text).",
}

PROPS["C17"] = {
    "modules": ["CM.Props.C17"],
    "level": "other",
    "design_ref": "DESIGN.md §6 C17, §13",
    "technique": "Lean 4 theorems over the filterRaw model: clause (a) for all predicates and raw texts (filterRaw_only_lt, filter_none_id); clause (b) as a tokenizer theorem about ARBITRARY byte strings (startTags_of_sitesOK: no '<'+letter followed by a rejected name => the WHATWG tokenizer, newline preprocessing included, emits no rejected start tag) + filterRaw_sitesOK + composition over separately filtered raw nodes (no_rejected_start_tag_nodes); FilterTagGFM proved name-closed over the names regenerated from the source; byte correspondence of filterRaw with the model; the Lean tokenizer run over the implementation's filtered output (exhaustive short raw runs, tag-grammar runs, fragments, whole renderings)",
    "text": "Model.filterRaw is html_renderer.go's filterRaw (repaired in this work to be stateless: every '<' is examined on its own; three defects of the stateful version were found, two of them by the proof attempt) and is compared byte for byte with the real filterRaw on every generated raw run. Clause (a) is a theorem: for every predicate and raw text the output is the input with some '<' replaced by '&lt;' and nothing else (OnlyLt); a predicate rejecting nothing is the identity. Clause (b): startTags_of_sitesOK proves for EVERY byte string that if no '<' followed by an ASCII letter is followed by a name the predicate rejects, then Spec.startTags (WHATWG newline preprocessing + all tag-related tokenizer states) contains no rejected name, whatever comments, quoted attribute values or tags surround it; filterRaw_sitesOK proves the filter establishes that premise; no_rejected_start_tag(_nodes) conclude for one raw text and for any number of raw nodes filtered separately and concatenated (the lines of an HTML block). Hypothesis NameClosed p (p n -> p (n.takeWhile nameChar)) is proved for FilterTagGFM by kernel evaluation over the names regenerated from html_renderer.go and for every predicate given by a list of element names; without it the statement is proved false (a predicate rejecting 's_x' but not 's'). The lift of (a) and (b) from raw nodes to the whole rendered page (renderer tags go through the same predicate, text is escaped) is not yet a theorem in this commit: it is decided by running Spec.startTags and the only-'<' comparison over whole renderings under GFM / reject-all / name-set predicates. Hence 'other'.",
    "note": "Spec.startTags is my transcription of WHATWG 13.2.3.5 + 13.2.5 (data, tag, attribute, comment, bogus comment, markup declaration, DOCTYPE states), cross-checked against golang.org/x/net/html's tokenizer on the generated runs (never as a verdict). It does not model RAWTEXT/RCDATA/script states: (b) is evaluated for predicates that reject every raw-text element, for which those states are unreachable exactly when (b) holds.",
}

PROPS["C11"] = {
    "modules": ["CM.Props.C11"],
    "level": "proof",
    "design_ref": "DESIGN.md §6 C11",
    "technique": "Lean 4 invariant proof: the Go closerLoop with its openersBottom cache = CommonMark's process-emphasis without the cache, for every delimiter stack (impl_eq_spec), over the regenerated isEmphasisDelimiterMatch / openersBottomIndex; flags_eq_spec; + structure correspondence on all strings <= 8/9 over {*,_,a,SP,.} and Unicode neighbours",
    "text": "Model.processEmphasis true is the loop of inlines.go (stack indices, per-class lower bounds, clamping after deletions, original length n for the multiple-of-3 rule, current length from the node); it calls the Lean terms regenerated from the Go source for isEmphasisDelimiterMatch and openersBottomIndex. impl_eq_spec proves, for every stack (any mixture of *, _, link delimiters, any lengths and flags) and every stack_bottom, that it yields the same match events as the same procedure searching down to stack_bottom every time - i.e. CommonMark 0.30's process-emphasis without openers_bottom. The proof is the invariant 'below bound k nothing matches a closer of class k' (Inv), preserved by every branch including deletions (procStep_inv), plus match_depends_on_closer_class proved over the generated predicates. flags_eq_spec: the assigned can-open/can-close flags equal the spec's left/right-flanking rules for every pair of neighbouring code points. Tie: the implementation's emphasis tree for every string <= 8 (quick) / 9 (thorough) over {*,_,a,SP,.}, <= 5/6 with a non-ASCII letter, NBSP and non-ASCII punctuation, and random lines is compared with the model's and the specification's; the generated predicates are compared on their whole finite domain.",
    "note": "The tree surgery (wrap/remove) is modelled by applyEvent on a flat node list and tied by correspondence only; unicode.Is/In enter as parameters (UExt) whose values for the runes of each input are supplied by the real library at run time. The fuel of procLoop (2*total length + 2*stack size + 2) is proved adequate (fuel_irrelevant, loop_stops_at_break: a strictly decreasing measure), i.e. the Go loop terminates on every stack.",
}

PROPS["C12"] = {
    "modules": ["CM.Props.C12"],
    "level": "other",
    "design_ref": "DESIGN.md §6 C12",
    "technique": "Lean 4 theorems for the extraction clause (first_definition_wins, earlier_block_wins, extract_is_preorder: all forests) + correspondence of Extract and label normalisation with the Lean models + Lean label specification as oracle (exhaustive short labels, fold-heavy random labels) + generated documents with competing definitions + closure oracles on the implementation",
    "text": "Clause (b): Model.extractNode/extractAll is ReferenceMap.Extract / Parse's loop (explicit-stack DFS read recursively, tied by comparing the real map, in insertion order, with the model's on every generated document); first_definition_wins and earlier_block_wins prove for every forest that the value of a key is that of the first definition in document pre-order, containers included. Clause (a): Model.normalizeLabel (collapse, trim spaces, fold) is compared with VerifNormalizeLabel and with Spec.normalizeLabelSpec (fold of the words joined by single spaces) on all labels <= 5/6 over {a,B,ß,SP,TAB,LF,NBSP,\\]} and on random labels with multi-character and final-sigma folds; the equality model = spec is the theorem normalize_eq_spec (every label, every fold function), with normalize_ws_variants, wsNormal_idem and wsNormal_fixed_iff. Clause (c) and the matching relation are decided on generated documents: a use resolves iff the specification's normal forms of use and a recognised definition agree, the first matching definition supplies the destination, every reference node names a key, keys are fixed points of normalisation, the map equals re-extraction. Hence 'other'.",
    "note": "cases.Fold enters as a per-rune table computed by the real library for the runes of each label (context-free folding is assumed and would show as a correspondence difference). Clause (c) needs the inline parser model.",
}

MONITOR_NOTE = "No theorem about the parser model backs this property yet (the block/inline parser model is not in Lean at this commit): the property's statement is an executable Lean definition (lean/CM/Spec) evaluated by the Lean driver on every tree the real parser returns for the generated inputs. That is monitoring against a formal specification, not a proof; it is claimed as 'other'."

def monitored(pid, spec, what):
    return {
        "modules": [],
        "level": "other",
        "design_ref": "DESIGN.md §6 " + pid,
        "technique": "executable Lean specification (%s) evaluated on the implementation's trees over corpus + seeded generators + exhaustive small scope; shrinking; known-findings filter" % spec,
        "text": what + " " + MONITOR_NOTE,
        "note": "Trusts the Lean transcription of the property in lean/CM/Spec, the tree serialisation of the harness (public accessors + verif-tagged internals), and the generators' reach (distribution recorded in the evidence).",
    }

PROPS["C01"] = monitored("C01", "Spec.tiling", "Both entry points (Parse; NewBlockParser under whole-input, 1-byte and random-chunk readers) are run on every generated input and the returned offsets, line numbers and sources are checked by Spec.tiling (ordering, blank gaps, Source = input range with NUL replaced, 1-based StartLine counting LF/CR/CRLF, length equality without NUL); aliasing and non-mutation of the caller's buffer are checked in-process.")
PROPS["C02"] = monitored("C02", "Spec.spansOK", "Every root of every generated input is checked by Spec.spansOK: spans valid and inside Source, children inside parents, siblings ordered and disjoint, root span ends at len(Source) and is preceded by spaces/tabs only, no boundary inside a multi-byte character for valid UTF-8.")
PROPS["C03"] = monitored("C03", "Spec.coverage", "Every root of every generated input is checked by Spec.coverage: no byte under two leaves, every letter/digit/non-ASCII byte under exactly one leaf (inline leaves and list markers).")
PROPS["C05"] = monitored("C05", "Spec.grammar", "Every root (in-memory and streaming+Extract+Rewrite) is checked by Spec.grammar: child kinds per node kind, marker-first list items, definition layout, link tails, no link in link, no unparsed node, heading levels, list/item agreement, ordered item numbers, reference links without destination/title.")
PROPS["C13"] = monitored("C13", "Spec.shapes", "Every node's source slice is checked against the shape of its construct by Spec.shapes (emphasis, strong, code span, link, image, autolink, HTML tag, character reference, hard break, list marker, ATX, setext, fenced code, block quote).")

DIFF_NOTE = "No theorem about the parser model backs this property yet (the block/inline parser model is not in Lean at this commit): the check compares the implementation with itself on related inputs exactly as the property states (a relational oracle), over corpus + seeded generators + exhaustive small scope, with shrinking. That is a search for counter-examples, not a proof; it is claimed as 'other'."

def differential(pid, what):
    return {
        "modules": [],
        "level": "other",
        "design_ref": "DESIGN.md §6 " + pid,
        "technique": "relational oracle on the implementation (the property's own equation evaluated on generated inputs), corpus + seeded generators + exhaustive small scope, shrinking, known-findings filter",
        "text": what + " " + DIFF_NOTE,
        "note": "Trusts the harness (generators, canonical tree serialisation, comparison) and the generators' reach (distribution recorded in the evidence).",
    }

PROPS["C04"] = differential("C04", "Every generated input goes through Parse, NewBlockParser+Extract+Rewrite, Render (SoftBreak x IgnoreRaw x FilterTag), Format and Walk under recover and a 20 s watchdog; any panic, hang or error other than end of input is a violation. Includes all truncations of corpus documents, exhaustive short strings over construct-opening characters and nesting to depth 2,000 (quick) / 20,000 (thorough).")
PROPS["C08"] = differential("C08", "Every generated input is read through NewBlockParser under whole/1-byte/random/empty-read/data-with-EOF schedules and every 2-cut partition (short inputs), and compared with Parse on offsets, lines, Source, trees after Extract+Rewrite and the reference map; reader failures after k bytes are compared with Parse of the first k bytes; end-of-input and errors must be persistent.")
PROPS["C09"] = differential("C09", "Tab-free documents are compared with their block-quoted form and (when eligible) their list-item form for 8 markers x N in 1..4, on the safe-mode rendering of each contained block rendered standalone.")
PROPS["C14"] = differential("C14", "(a) CR-free documents vs their CRLF and CR forms on the rendering with copied line endings mapped back; (b) blank-line prefixes shift offsets and lines by exactly the prefix and change nothing else; (c) appending a final newline does not change the safe-mode rendering (modulo whitespace before a closing block tag).")
PROPS["C16"] = differential("C16", "Every root block's Source is re-parsed alone with the document's reference map and must give one root with an identical tree; the stated exception (paragraph after a split-off definition) is skipped, the analogous setext-heading class is a listed known finding.")

PROPS["C06"] = {
    "modules": [],
    "level": "other",
    "design_ref": "DESIGN.md §6 C06, §7",
    "technique": "Lean specification of abstract documents (Spec.Doc: canonical serialiser with choice streams + HTML denotation) driving a seeded generator; the implementation's Parse+RenderHTML on ser(choices, d) is compared with denote(d) as HTML (token-canonical) modulo inter-block line feeds; two named corollaries on dedicated generators; top-level shrinking",
    "text": "Spec.Doc (lean/CM/Spec/Doc.lean) defines abstract documents over all constructs named in the property, their canonical serialisation under a stream of choices, and the HTML they denote; Spec.DocGen generates documents with nesting depth 1-4 obeying the side conditions of DESIGN.md §7. For each generated (d, choices, LF|CRLF) the implementation parses ser and renders with the default renderer; the result must equal denote(d) after both are re-serialised token by token (so that &#42; and * compare equal) and runs of >= 2 line feeds are dropped. The corollaries 'every punctuation escaped => literal text' and 'code block contents verbatim' are checked on their own generators. No theorem relates the parser model to Spec.Doc yet (parser not in Lean at this commit), hence 'other'.",
    "note": "Trusts my transcription of the CommonMark HTML mapping in Spec.denoteDoc and of the canonical style in Spec.ser, and golang.org/x/net/html's tokenizer for the token-canonical comparison. Tabs as indentation and link titles spanning lines are not yet among the serialiser's choices.",
}

PROPS["C20"] = {
    "modules": ["CM.Props.C20"],
    "level": "other",
    "design_ref": "DESIGN.md §6 C20, §7",
    "technique": "Lean 4 theorems about the formatter's writer model (fw_sticky, format_first_error: every operation sequence, every failure point) + op-sequence correspondence of the real formatWriter with the model + relational oracles on the implementation for totality/determinism/read-only/failing writers (clause 1) and for the round trip on canonical documents of the supported set generated from the Lean specification (clause 2)",
    "text": "Model.fwS/fwPush/fwPop model format.go's formatWriter (indent stack, startedLine, hasWritten, sticky err, writeStrings, writeTrimmedIndent) over a scripted writer; format_first_error proves for every sequence of writer operations and every failure index that either no issued write has failed and err is unset, or err is set and the failing write is the last one issued; fw_sticky that s is a no-op once err is set. The model is tied to the real formatWriter (through a verif-tagged driver) on random operation sequences with failing writers. The rest of clause 1 (Format returns on every tree, is deterministic with and without WriteString, leaves tree and Source unchanged, returns exactly the writer's first error for every failure index up to 40/200) and clause 2 (for canonical documents in Spec.inFDoc, the formatted text renders like the source and is a fixed point of Format) are decided by running the implementation on the general document stream and on documents generated by Spec.DocGen. No theorem covers the formatting callbacks themselves, hence 'other'.",
    "note": "The supported construct set is Spec.inFDoc (DESIGN.md §7): tight lists with a single paragraph per item, no definition needing <...>, no title containing a double quote, no line starting with + or digits followed by . or ). Clause 2 compares renderings token-canonically.",
}

PROPS["C19"] = {
    "modules": ["CM.Props.C19"],
    "level": "other",
    "design_ref": "DESIGN.md §6 C19",
    "technique": "Lean 4 theorem (disjoint footprints => every interleaving equals the sequential runs) + store footprint of every entry point regenerated from go/ssa on each run and checked by kernel evaluation (footprint_ok) + race-detector harness over concurrent Parse/Render/Format/Walk/Extract with sequential comparison",
    "text": "Data-race freedom is a statement about Go's memory model and scheduler; no model of this library exhibits a race. What is logic is the discipline that makes the property true. disjoint_footprints_schedule_independent proves, for any number of operations and any schedule, that operations which write only locations they own and otherwise read only unowned locations leave every operation with its sequential result. footprint_ok checks by kernel evaluation that the store footprint of the library, recomputed with go/ssa + CHA from /repo's current source on every run (CM.Gen.footprint), satisfies that discipline: no entry point stores to a package-level variable, and Render/AppendBlock/RenderHTML/Walk/Format/Extract store to no field of Block, Inline, RootBlock, Span or HTMLRenderer. The runtime half is the racer binary built with -race: concurrent Parse on distinct inputs and concurrent Render (18 configurations) / Format / Walk / Extract on shared trees, results compared with the sequential ones. Claimed as 'other': the link between the SSA footprint and the abstract machine is an argument, not a theorem, and the scheduler is not modelled.",
    "note": "The footprint is a syntactic over-approximation on SSA (address roots, no alias analysis beyond allocation sites; interface and function-value calls resolved by CHA inside the library); user callbacks (Walk options, FilterTag, io.Reader/Writer) are assumed to honour their documented contracts. A hoisted scratch buffer shows up as a store to a global or to an HTMLRenderer field and makes footprint_ok fail; the racer is then the search for a witness.",
}

NOT_APPLICABLE = {
}
